#!/bin/bash
# seedsweep.sh [pattern] : runs every seeded change under /verif/seeded (or those matching the pattern) against
# the owning property's quick check, three at a time in scratch worktrees of /repo (outside /repo and /verif),
# and writes one line per seed to /tmp/seedsweep.tsv.  Scratch worktrees are removed at the end.
export GOFLAGS=-mod=mod GOPROXY=off GOSUMDB=off GOTOOLCHAIN=local
cd /verif
pat=${1:-.}
out=${SWEEP_OUT:-/tmp/seedsweep.tsv}
: > $out
ls -d seeded/C* | grep -E "$pat" > /tmp/seedsweep.list
run() { # slot
  slot=$1
  while true; do
    seed=$(flock /tmp/seedsweep.lock sh -c 'head -n 1 /tmp/seedsweep.list; sed -i 1d /tmp/seedsweep.list')
    [ -z "$seed" ] && break
    id=$(basename $seed); prop=${id:0:3}
    line=$(SEED_WT=/tmp/wt/sweep-$slot SEED_OUT=/tmp/sweep-out-$slot tools/seedrun.sh /verif/$seed $prop quick | tail -n 1)
    echo "$id	$line" >> $out
  done
}
for s in 1 2 3; do run $s & done
wait
for s in 1 2 3; do git -C /repo worktree remove --force /tmp/wt/sweep-$s 2>/dev/null; rm -rf /tmp/sweep-out-$s; done
sort -o $out $out
echo "sweep finished: $(wc -l < $out) seeds"
