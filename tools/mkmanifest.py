#!/usr/bin/env python3
# Generates /verif/MANIFEST.json from the table below (kept in one place so that it stays valid).
import json, sys

TECH = "solver-based bounded symbolic execution of Go SSA (go/ssa of /repo's working tree -> SMT-LIB2; z3/cvc5 decide; native replay)"
TRUST = "trusted: go/types+go/ssa (x/tools v0.29.0), the engine's instruction semantics and library models (validated natively on solver-chosen inputs every run), z3/cvc5"

claimed = {
 "C01": dict(
   text="for each of the 32 operations the real method, sendto/broadcast, codec.Marshal (reflection walk), every MarshalUT0311L0x and bcd.Encode are executed symbolically with all arguments symbolic over their whole domain; the 64 request bytes recorded at the transport seam are asserted equal to an independent protocol table; unsat = holds for every argument tuple in the stated domain",
   note="bounds: years 1..9999, HH:mm 00:00..24:00, PIN 0..999999, map keys 1..5 / the seven weekdays with symbolic presence and nil-ness, passcode lists of length 0,1,3,4,6; zone = any fixed offset (Z1); history half: every operation after an earlier unrelated call with its own symbolic arguments on the same or another client (6 operations quick, all 36 thorough), and with a configured controller whose transport fails (exactly one request, no retry on another route); SetTime also for a controller configured with a time zone (nil, UTC, process zone); socket level: one call puts exactly one request on the wire (SendUDP, BroadcastTo) whenever the reply comes. " + TRUST,
   ref="DESIGN.md section 6 C01"),
 "C02": dict(
   text="for each of the 30 reply-bearing operations the whole 64-byte reply is symbolic (2^512 contents, header fixed so that it is accepted); sendto, codec.UnmarshalAs (reflection walk), every UnmarshalUT0311L0x, bcd.Decode and the result mapping / sentinel logic are executed symbolically and every result field is asserted equal to an independent protocol-table decoding; out-of-domain wire values must fail the call or come back as the zero value",
   note="zone = any fixed offset; years 0000/0001 and the two-digit system-date years 69..99 are not asserted on; By-id lookups with a requested card 0xffffffff follow the code's behaviour; GetTime and GetStatus also for a controller configured with a time zone (nil, UTC, process zone) on the directed route; one event delivered by Listen. " + TRUST,
   ref="DESIGN.md section 6 C02"),
 "C03": dict(
   text="the library's real receive filter and sendto checks are run on k datagrams of symbolic length 0..2048 and content (broadcast route) or one such datagram (udp/tcp routes): a result implies a 64-byte datagram with the right protocol id, function code and serial number, it is the first such datagram, its content is what is decoded, anything else fails the call; SetAddress consumes nothing",
   note="bounds: k <= 2 datagrams quick, <= 4 thorough (longer sequences argued from the loop being memoryless); representative operations GetCards, OpenDoor, GetStatus at the seam with content checks, all 30 reply-bearing operations with the accept/reject half (one datagram, broadcast and directed routes); socket level: GetCards through the real ut0311.SendUDP / SendTCP / BroadcastTo over the socket script (datagrams / TCP chunks of length 0..96, k <= 2, 3 thorough), replayed natively against a loopback peer; directed UDP also with two datagrams (nothing is skipped); a non-decimal date / date-time field in a reply that otherwise passes as the controller's makes the call fail (nine fields of six replies, three routes). " + TRUST,
   ref="DESIGN.md section 6 C03"),
 "C04": dict(
   text="every runtime panic of the interpreted code (index and slice bounds, nil dereference, nil-map write, failed type assertion, division by zero, explicit panic, reflect misuse) is a solver obligation in the engine; the harnesses drive the 30 reply-bearing operations with an arbitrary reply of symbolic length 0..2048 on four routes (broadcast filter, UDP, TCP nil reply, transport error), then render the result with String() and JSON; plus the codec and dispatcher entry points, discovery and the listener's datagram handler on arbitrary byte strings, arbitrary argument values (passcode lists up to 6; dates with years beyond 9999 and before 0 as concrete samples), and a shutdown of the real socket-level Listen while one event is still being delivered to a slow callback and a second one waits at the pipe (timer-driven schedule; a send on the closed pipe would be a panic in a library goroutine)",
   note="rendering uses opaque text for numbers (only panics are checked); marshal/String methods of standard-library types (net.IP, netip.AddrPort) are trusted; fmt recovers panics in String methods it calls, so every returned value's String() and those of its exported fields are called directly; years outside 0..9999 are outside the time model. " + TRUST,
   ref="DESIGN.md section 6 C04"),
 "C05": dict(
   text="for each of the 65 message struct types a reflection-driven harness fills every field with a symbolic in-domain value, runs codec.Marshal then codec.Unmarshal and asserts field-wise equality; for 8 (quick) / 65 (thorough) types two symbolic buffers that agree on all field bytes are asserted to decode to equal values; UnmarshalRequest/UnmarshalResponse are run on a header with symbolic length, protocol id and function code (33-way case split decided by the solver)",
   note="zone = any fixed offset; years 1..9999 plus the zero values; SystemDate 2000..2068; dispatcher bodies are zero bytes with any serial number (body decoding is C02/C04; a known function code must decode); the field-byte mask is derived from the layout tags. " + TRUST,
   ref="DESIGN.md section 6 C05"),
 "C06": dict(
   text="routing decision executed symbolically over the device table (entry present or not, one unrelated entry), address validity, any IPv4 address and port, protocol strings of length 0,3,4 (1,2 thorough) with symbolic bytes, broadcast address valid or not: asserted which driver method is called, exactly once, with which endpoint",
   note="seam level for the routing decision (GetTime, OpenDoor, SetAddress, GetDevices over the full configuration space; all 30 reply-bearing operations with one protocol-string length); socket level (the four ut0311 methods over the socket script, natively a loopback peer) for: exactly one socket, bound to the configured bind address/port (not configured, 0.0.0.0:0, 0.0.0.0:P, 127.0.0.1:P with P in 20000..29999), exactly one write of the unchanged request to the requested endpoint, nothing to any other endpoint, socket closed; SendUDP uses a connected socket (a datagram from another port of the peer is not taken for the reply); routing is unchanged by an earlier successful SetAddress / discovery on the same client; IPv6 controller addresses are outside the property. " + TRUST,
   ref="DESIGN.md section 6 C06"),
 "C07": dict(
   text="one harness per operation with symbolic controller id and arguments; 'rejected' is observed as the transport call counter staying 0 and asserted equivalent to the documented rejection predicate (id 0; PutCard card/PIN/format rules incl. Wiegand-26 over all 2^32 numbers; SetListener over invalid/IPv4/16-byte address kinds; SetAddress over nil and length 0..16 IPs; SetDoorPasscodes doors; SetTimeProfile dates/segments)",
   note="bounds: format lists of length 0..2 (3 thorough) over all 256 CardFormat values; HH:mm fields -9..99; net.IP length 0..16; IPv6 zones not modelled. " + TRUST,
   ref="DESIGN.md section 6 C07"),
 "C09": dict(
   text="the real ut0311.SendUDP, SendTCP, BroadcastTo and Broadcast are executed symbolically over a socket script and a deterministic clock (time advances only by waiting: reads, TCP connects, sleeps; every goroutine has its own clock, synchronised at wake-ups): k datagrams of symbolic length and content arrive at symbolic instants; asserted: the call returns within timeout + slack measured on the clock, a (first acceptable) reply arriving before the deadline is the result however many stray datagrams precede it, no reply before the deadline is an error, every socket opened is closed and every goroutine started has ended at return, exactly one request is written and only to the addressed endpoint, and - with open/write/connect free to fail (including a bind address that is in use and a refused connect), and with a TCP connect that takes a symbolic time up to beyond the timeout - a failure is an error with nothing left open and the bind-port lock released; a read with no deadline and nothing to receive is reported as a deadlock. Counterexamples and, on every run, solver-chosen passing scenarios are replayed natively against a loopback peer that plays the same script with real sockets",
   note="reduced form (DESIGN 6 C09): timeout fixed at 600 ms, arrival instants kept 150 ms clear of the deadline and at most 3 timeouts out (so that the native replay is robust), returns-in-time allows 400 ms slack; k <= 2 datagrams quick (3 thorough) of length 0..96; one canonical goroutine schedule; calls queued behind the fixed-bind-port lock, kernel behaviour (ICMP refused, RST) and process-wide descriptor / goroutine counts over long call sequences are outside. " + TRUST,
   ref="DESIGN.md section 6 C09"),
 "C10": dict(
   text="the real Listen / listen / datagram handler / dispatch goroutine are executed symbolically against a transport that feeds k datagrams of symbolic length 0..2048 and content from a goroutine through one reused receive buffer; goroutines run as coroutines under a canonical run-to-block schedule (unbuffered rendezvous, single consumer), plus a lazy-start schedule for a burst of datagrams read back to back and a timer-driven schedule for quitting while an event is in flight; asserted: connected callback once, exactly one callback per datagram in arrival order, an event callback iff the datagram is a well-formed event (64 bytes, 0x17/0x19, function 0x20, serial != 0, fields in domain) with every status field equal to an independent protocol-table decoding, delivered statuses distinct and unchanged by later datagrams, Listen returns nil, no goroutine left, no deadlock",
   note="bounds: k <= 2 datagrams quick, 3 thorough; three canonical schedules (run-to-block; lazy start; sleepers woken in time order), not all interleavings; a datagram whose event timestamp is decimal but not a calendar date-time may be delivered with the zero timestamp or rejected (the codec's documented leniency); error callbacks are not ordered against event callbacks (they come from different goroutines; the property orders events only); re-binding the listen address, the closed-flag race in ut0311.Listen and multi-sender arrival order are outside (OS / schedules); seam level (k <= 2 / 3) plus socket level: the real ut0311.Listen receive loop (one reused buffer, truncation of oversize datagrams by the receive buffer, shutdown goroutine) over the socket script with datagrams of length 0..96, replayed natively against a loopback peer. " + TRUST,
   ref="DESIGN.md section 6 C10"),
 "C11": dict(
   text="GetDevices executed on k datagrams of symbolic length 0..2048 and content with a symbolic device table and broadcast port: the result is asserted to be, in arrival order, exactly one entry per well-formed get-device reply (each field from its protocol offset, address completed by the broadcast port, name from the table), nothing for the others, never an error",
   note="bounds: seam level k <= 2 quick, <= 3 thorough (datagram length 0..2048); socket level: the real ut0311.Broadcast (collector goroutine, per-datagram receive buffer and its truncation) over the socket script with k <= 2 (3 thorough) datagrams of length 0..96 arriving within the timeout, one canonical goroutine schedule, replayed natively against a loopback peer. " + TRUST,
   ref="DESIGN.md section 6 C11"),
 "C12": dict(
   text="bounded symbolic execution of bcd.Encode / bcd.Decode: every input byte is a solver variable, the property (exact digits, error iff non-digit / nibble > 9, both round trips) is asserted against an independent reference; unsat = holds for all 256^n inputs of each length n in the bound",
   note="bound: string length 0..14 / byte length 0..10 (quick), 0..32 / 0..16 (thorough); longer inputs outside the claim. " + TRUST,
   ref="DESIGN.md section 6 C12"),
 "C13": dict(
   text="ToDate, ParseDate, Date wire and JSON decoding, SystemDate and DateTime wire decoding and the encoders back are executed symbolically with the process zone a symbolic two-interval zone (offsets o1, o2 in +-14 h, transition anywhere within -14 h..+38 h of the date's 00:00 UTC), civil->instant resolution by Go's own time.Date algorithm transcribed into the model, all valid dates symbolic: the value must report and re-encode exactly the given year, month and day (date-times: exactly the transmitted fields whenever that civil time exists); the four Date entry points are also run under any fixed offset, where a counterexample counts as it is; a counterexample in the synthetic two-interval zone triggers a second run constrained to the real transitions of the installed tzdata and is replayed natively in that IANA zone before it is reported",
   note="bounds: years 1..9999; zones with one transition near the date (transitions >= 48 h apart), jumps < 24 h (a zone that skips a whole calendar day is exempt by the property); the tzdata table keeps the earliest and latest occurrence of each (o1, o2, tau) transition shape 1800..2040; DateTime harness uses the contract of bcd.Decode proved by C12 instead of its body (compositional); the status system date/time recombination is covered under Z2 for GetStatus and for events delivered by Listen (harness/uhppote/c13_status.go). " + TRUST,
   ref="DESIGN.md section 6 C13"),
 "C14": dict(
   text="for each scalar public type the encoder and the decoder are executed symbolically and composed: Date (JSON and String/ParseDate), DateTime JSON (zone abbreviation; fixed-offset zone and a day with a zone transition), HH:mm (String/HHmmFromString/JSON), SystemTime (TimeFromString/String), PIN JSON, door control state JSON, task type by name and by number (JSON and TSV), card format, the four address types (JSON, on the enumerated IPv4[:port] shapes of C15) and Weekdays JSON (all 128 day sets, decoded into an empty map and into a fresh nil map): decode(encode(v)) == v for every in-domain v, and every text of symbolic bytes up to a bounded length that is outside the domain is rejected while every text inside it yields exactly its value; composite types (Segments, Card, Task, TimeProfile): json.Marshal builds an abstract document (objects by tag name with omitempty, arrays, numbers, exact text for every leaf produced by the repository's MarshalJSON methods) and json.Unmarshal walks the target type calling the repository's UnmarshalJSON methods, so the shadow structs, defaults, map filling and nil checks the repository writes around encoding/json are executed as they are: decode(encode(v)) == v into a fresh zero value (nil maps), also for two values decoded one after the other",
   note="bounds: reject-side text length <= 11 (date), 6 (HH:mm), 9 (time of day), 8 (PIN), 17 (control state), 3 digits (task numbers); JSON strings restricted to printable ASCII without escapes (the encoders' own output is asserted to be in that class); zone = any fixed offset (Date, DateTime) or a two-interval zone refined against tzdata (DateTime on transition days); composites: segments 1..k (k = 0..3), four doors, PIN <= 999999, all 13 task types, three weekday sets; outside the claim: the text syntax of composite documents (encoding/json's), the reject side of composite types (documents not produced by json.Marshal are a havoc stub: any value of the static type, or an error - explored for panics only), Version (Sscanf), MAC (net.ParseMAC), free-text task names other than the 13 canonical ones. " + TRUST,
   ref="DESIGN.md section 6 C14"),
 "C15": dict(
   text="the four address parsers, String and the format/parse round trip are executed symbolically (the repo's regular expressions are taken from the call sites and simulated as NFAs over symbolic bytes; netip's parsers and formatters are interpreted from their SSA) on strings assembled from an enumerated shape (digit counts of the four octets and the port) with symbolic digit characters: accepted iff the role's port rule holds, with exactly the octets and port of the text or the role's default; every string of symbolic bytes that contains no dotted quad is rejected by all four roles; Set on a variable that already holds an address accepts exactly what the parser accepts and stores exactly what it returns; a text whose octet exceeds 255 or whose port exceeds 65535 is rejected",
   note="bounds: quick = 5 octet shapes x port of 0..5 digits per role and no-quad strings of length 0..9; thorough = all 81 x 6 shapes and no-quad strings up to 16 bytes; ports without leading zeros; strings with a dotted quad plus other text are not constrained by the property and not asserted on. " + TRUST,
   ref="DESIGN.md section 6 C15"),
 "C16": dict(
   text="Date and HHmm Before/After/Equals executed symbolically on pairs and triples: trichotomy, mirror image, transitivity, irreflexivity and agreement with lexicographic (y,m,d)/(h,m) order are assertions decided by the solver over all valid dates 0001..9999 (any fixed zone offset) and all int-valued HH:mm fields",
   note="DateTime.Before is covered under a symbolic fixed-offset zone (civil seconds, sub-second parts ignored) and across a zone transition (two instants on the transition day under zone view Z2, real-zone twin), with Time.UnixMilli modelled as order-constrained epoch seconds (years from 1970); the SetTimeProfile segment rule (end before start rejected, equal accepted) is asserted by VerifC16_SetTimeProfileSegments. " + TRUST,
   ref="DESIGN.md section 6 C16"),
 "C17": dict(
   text="havoc-after: after construction / the call / the clone, every settable cell reachable from the caller's data or from the transport buffer is overwritten with fresh solver variables and the routing decision, arguments or results are asserted unchanged; a shared cell shows up as a satisfiable difference",
   note="covers NewUHPPOTE + DeviceList, PutCard/SetTimeProfile/SetAddress/ActivateKeypads arguments, GetDevice/GetCardByIndex/GetListener results, Device.Clone and Card.Clone, the codec's batch entry points (UnmarshalArray / UnmarshalArrayElement), the replies of one discovery through the real ut0311.Broadcast (socket level), and the real ut0311.Listen receive loop: the bytes handed to a slow handler stay the same while it handles them, and a burst of two events read back to back (lazy-start schedule) is delivered as two distinct, correct statuses; door-name slices reachable through DeviceList are not part of the property (routing only). " + TRUST,
   ref="DESIGN.md section 6 C17"),
 "C18": dict(
   text="layouts are built at run time with reflect.StructOf (mapped to go/types structs by the engine): every single-field layout over 18 field kinds (8/16/32-bit integers, bool, IPv4, address:port, raw and typed MAC, serial number, PIN, version, date, date-time, system date/time, HH:mm, *Date, *HHmm) at the boundary offsets (quick) or every offset where the field fits (thorough); with symbolic field values Marshal must write exactly the field bytes and zero elsewhere, Unmarshal must return the value, no panic obligation may be feasible and havoc of the input buffer must leave the decoded value unchanged",
   note="multi-field layouts are covered by the 65 shipped message types in C05; hand-written samples cover an embedded struct followed by further fields, fixed-value tags on byte fields (decimal and 0x forms, encode and decode side) and the batch entry points UnmarshalArray / UnmarshalArrayElement (elements independent of each other and of the buffer). " + TRUST,
   ref="DESIGN.md section 6 C18"),
}

not_applicable = {
 "C08": "quantifies over goroutine interleavings and the Go memory model / kernel socket demultiplexing; not a bounded computation over values that the SSA-to-SMT engine can encode (DESIGN.md section 7)",
}
pending = "check under construction in this session (engine and harness not finished); not claimed yet"

allp = ["C%02d" % i for i in range(1, 19)]
checks = []
for p in allp:
    if p in claimed:
        c = claimed[p]
        checks.append({
            "property_id": p,
            "quick_cmd": "bin/vcheck run %s --tier quick" % p,
            "thorough_cmd": "bin/vcheck run %s --tier thorough" % p,
            "evidence_file": "evidence/%s.json" % p,
            "replay_cmd_template": "bin/vcheck replay {path}",
            "engine": "gosym",
            "level_claimed": {"category": "model_checking", "text": c["text"], "design_ref": c["ref"]},
            "level_note": c["note"],
            "technique": TECH,
        })
na = []
for p in allp:
    if p not in claimed:
        na.append({"property_id": p, "reason": not_applicable.get(p, pending)})

m = {
 "version": 1,
 "setup_cmd": "cd /verif/engine && GOFLAGS=-mod=mod GOPROXY=off GOSUMDB=off GOTOOLCHAIN=local go build -o /verif/bin/vcheck ./cmd/vcheck",
 "hooks": {
  "guard": "verif",
  "enable": "no source hooks: harnesses are in-package Go files injected with go/packages Overlay (engine) and go test -overlay (native replay); the build tag 'verif' is reserved and unused",
  "baseline_off_cmd": "cd /repo && go test -vet=off -count=1 ./...",
  "source_commits": [],
  "add_only": True,
 },
 "engines": [{
   "name": "gosym", "path": "engine", "serves_properties": sorted(claimed),
   "kind_free_text": "bounded symbolic executor for Go SSA (go/ssa of /repo's working tree) with shape-grouped state merging; obligations discharged by z3/cvc5 over SMT-LIB2 pipes; counterexamples replayed natively",
 }],
 "checks": checks,
 "not_applicable": na,
 "notes": "see DESIGN.md; known-findings.txt lists fixed defects and known findings",
}
json.dump(m, open("/verif/MANIFEST.json", "w"), indent=1)
print("claimed:", sorted(claimed))
