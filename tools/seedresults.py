#!/usr/bin/env python3
# seedresults.py <sweep.tsv>... : writes seeded/RESULTS.md and the "ran"/"result" fields of every seeded/<id>/meta.json
# from the output of tools/seedsweep.sh (one line per seed: id <TAB> "SEED <dir> <prop> <VERDICT> <secs>s: <first VIOLATION line>").
import json, re, sys, os, glob
rows = {}
for f in sys.argv[1:]:
    for line in open(f):
        line = line.rstrip("\n")
        if "\t" not in line:
            continue
        sid, rest = line.split("\t", 1)
        m = re.match(r"SEED \S+ (C\d\d) (\S+)(?: (\d+)s)?:? ?(.*)", rest)
        if not m:
            rows[sid] = ("?", rest, "")
            continue
        prop, verdict, secs, tail = m.groups()
        h = re.search(r"harness=(\S+)", tail)
        lab = re.search(r'label="([^"]*)', tail)
        kind = re.search(r"kind=(\S+)", tail)
        det = ""
        if h:
            det = h.group(1) + (" [" + kind.group(1) + "]" if kind else "") + (": " + lab.group(1) if lab else "")
        elif tail:
            det = tail[:200]
        rows[sid] = (verdict, det, secs or "")
rounds = {"ab": "Round 1", "cd": "Round 2 (sequences of calls, configuration / time zone, cooperating edits)",
          "ef": "Round 3 (order of effects, carried state, loop and buffer boundaries)",
          "gh": "Round 4 (alternative entry points and protocol variants, range ends, error paths, rare configuration, second use)",
          "ij": "Round 5 (configuration the tests never vary, helper methods, package-level state, integer widths, aliasing, defaulting rules)",
          "kl": "Round 6 (session 4: C13, C16, C18 only - transition days, values in two locations, a layout no shipped message uses)"}
out = ["# Seeded changes and the checks that catch them", "",
       "Every change was produced by an independent sub-agent that was given only the text of one property and its own scratch worktree of /repo, confirmed with `tools/seedconfirm.sh <seed-dir> <scratch worktree>` (demo passes on the clean tree; with the patch: builds, the 431 existing tests pass, the demo fails) and run with `tools/seedrun.sh <seed-dir> <property> quick` (patch applied to a scratch worktree of /repo HEAD, `VERIF_REPO` pointing the check at it; `tools/seedsweep.sh` runs them all). DETECTED = the property's quick check exits 1 with a VIOLATION line whose counterexample was replayed against the natively compiled patched code.", ""]
tot = det = 0
for key, title in rounds.items():
    ids = sorted(s for s in rows if s[-1] in key)
    if not ids:
        continue
    out += ["## " + title, "", "| seed | property | verdict of the quick check | detecting harness [kind]: assertion, or why not |", "|---|---|---|---|"]
    for sid in ids:
        verdict, d, secs = rows[sid]
        tot += 1
        det += verdict == "DETECTED"
        why = d
        mp = "/verif/seeded/%s/meta.json" % sid
        meta = json.load(open(mp)) if os.path.exists(mp) else {}
        if verdict != "DETECTED" and meta.get("why_not"):
            why = meta["why_not"]
        out.append("| %s | %s | %s | %s |" % (sid, sid[:3], verdict, why.replace("|", "/")))
        if meta:
            meta["ran"] = "tools/seedrun.sh seeded/%s %s quick" % (sid, sid[:3])
            meta["result"] = verdict + (": " + why if why else "")
            json.dump(meta, open(mp, "w"), indent=1)
    out.append("")
out.insert(3, "**%d of %d seeded changes are detected by the quick checks.**\n" % (det, tot))
open("/verif/seeded/RESULTS.md", "w").write("\n".join(out) + "\n")
print("%d/%d detected" % (det, tot))
for sid in sorted(rows):
    if rows[sid][0] != "DETECTED":
        print(sid, rows[sid][0], rows[sid][1][:160])
