#!/bin/bash
# seedconfirm.sh <seed-dir> <worktree> : confirms a seeded change in a scratch worktree of /repo.
#   demo passes on the clean tree; with the patch: builds, existing suite passes, demo fails.
export GOFLAGS=-mod=mod GOPROXY=off GOSUMDB=off GOTOOLCHAIN=local
seed=$1; wt=$2
cd $wt || exit 9
git checkout -q -- . && git clean -qfd
pkg=$(head -3 $seed/demo_test.go | grep -o 'place in: *[A-Za-z0-9_/.-]*' | sed 's/place in: *//' | sed 's:/*$::')
[ -z "$pkg" ] && { echo "RESULT $seed no-pkg"; exit 9; }
name=zz_seed_demo_test.go
cp $seed/demo_test.go $pkg/$name
if ! go test -vet=off -count=1 ./$pkg/ > /tmp/seedconfirm.log 2>&1; then echo "RESULT $seed demo-fails-on-clean"; tail -5 /tmp/seedconfirm.log; git checkout -q -- . ; git clean -qfd; exit 1; fi
rm $pkg/$name
if ! git apply $seed/patch.diff; then echo "RESULT $seed patch-does-not-apply"; exit 1; fi
if ! go build ./... > /tmp/seedconfirm.log 2>&1; then echo "RESULT $seed does-not-build"; git checkout -q -- .; exit 1; fi
ok=0
for try in 1 2 3; do
  if go test -vet=off -count=1 ./... > /tmp/seedconfirm.log 2>&1; then ok=1; break; fi
  grep -q "address already in use" /tmp/seedconfirm.log || break
  sleep 2
done
if [ $ok = 0 ]; then echo "RESULT $seed suite-fails-with-patch"; grep -E "^(--- FAIL|FAIL)" /tmp/seedconfirm.log | head -5; git checkout -q -- .; git clean -qfd; exit 1; fi
cp $seed/demo_test.go $pkg/$name
if go test -vet=off -count=1 ./$pkg/ > /tmp/seedconfirm.log 2>&1; then echo "RESULT $seed demo-passes-with-patch"; git checkout -q -- .; git clean -qfd; exit 1; fi
grep -E "^--- FAIL" /tmp/seedconfirm.log | head -3
git checkout -q -- . ; git clean -qfd
echo "RESULT $seed confirmed"
