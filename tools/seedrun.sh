#!/bin/bash
# seedrun.sh <seed-dir> <property> [tier] : applies a seeded change to a scratch worktree of /repo's HEAD, runs the
# property's check against it (VERIF_REPO), prints DETECTED / MISSED / INCONCLUSIVE, and restores the worktree.
export GOFLAGS=-mod=mod GOPROXY=off GOSUMDB=off GOTOOLCHAIN=local
seed=$1; prop=$2; tier=${3:-quick}
wt=${SEED_WT:-/tmp/wt/sweep}
if [ ! -d $wt ]; then git -C /repo worktree add --detach $wt HEAD >/dev/null 2>&1; fi
git -C $wt checkout -q --detach $(git -C /repo rev-parse HEAD) 2>/dev/null
git -C $wt reset -q --hard; git -C $wt clean -qfd
patch=$seed/patch.diff
[ -f $seed/patch.rebased.diff ] && patch=$seed/patch.rebased.diff
if ! git -C $wt apply $patch 2>/dev/null; then
  if ! git -C $wt apply --3way $patch >/dev/null 2>&1; then echo "SEED $seed $prop patch-does-not-apply"; git -C $wt reset -q --hard; exit 3; fi
  git -C $wt reset -q
fi
(cd $wt && go build ./... ) || { echo "SEED $seed $prop does-not-build"; git -C $wt checkout -q -- .; exit 3; }
log=$(mktemp)
s=$(date +%s)
(cd /verif && VERIF_OUT=${SEED_OUT:-/tmp/sweep-out} VERIF_REPO=$wt bin/vcheck run $prop --tier $tier > $log 2>&1); code=$?
t=$(( $(date +%s) - s ))
case $code in
 1) echo "SEED $seed $prop DETECTED ${t}s: $(grep -m1 VIOLATION $log | cut -c1-260)";;
 0) echo "SEED $seed $prop MISSED ${t}s";;
 *) echo "SEED $seed $prop INCONCLUSIVE($code) ${t}s: $(grep -m2 INCONCLUSIVE $log | cut -c1-300 | tr '\n' ' ')";;
esac
cp $log /tmp/seedrun_$(basename $(dirname $seed))_$(basename $seed)_$prop.log
rm -f $log
git -C $wt reset -q --hard; git -C $wt clean -qfd
