package gosym

// Direct evaluation of terms under a model (counterexample cache).  Variables missing from the model
// take the value 0 and are recorded in it, so that later evaluations stay consistent.

type evaluator struct {
	m    Model
	memo map[*Term]uint64
	ok   bool
}

func newEvaluator(m Model) *evaluator {
	return &evaluator{m: m, memo: map[*Term]uint64{}, ok: true}
}

func sx(v uint64, w int) int64 {
	if w < 64 && v&(uint64(1)<<uint(w-1)) != 0 {
		v |= ^mask(w)
	}
	return int64(v)
}

func (ev *evaluator) eval(t *Term) uint64 {
	if !ev.ok {
		return 0
	}
	switch t.Op {
	case OpConst:
		return t.C
	case OpVar:
		v, ok := ev.m[t.Name]
		if !ok {
			ev.m[t.Name] = 0
			return 0
		}
		if t.Sort.K == KBV {
			return v & mask(t.Sort.W)
		}
		return v
	}
	if v, ok := ev.memo[t]; ok {
		return v
	}
	var r uint64
	b2u := func(b bool) uint64 {
		if b {
			return 1
		}
		return 0
	}
	w := t.Sort.W
	switch t.Op {
	case OpNot:
		r = 1 - ev.eval(t.Args[0])
	case OpAnd:
		r = 1
		for _, a := range t.Args {
			if ev.eval(a) == 0 {
				r = 0
				break
			}
		}
	case OpOr:
		r = 0
		for _, a := range t.Args {
			if ev.eval(a) == 1 {
				r = 1
				break
			}
		}
	case OpIte:
		if ev.eval(t.Args[0]) == 1 {
			r = ev.eval(t.Args[1])
		} else {
			r = ev.eval(t.Args[2])
		}
	case OpEq:
		r = b2u(ev.eval(t.Args[0]) == ev.eval(t.Args[1]))
	case OpBVAdd:
		r = (ev.eval(t.Args[0]) + ev.eval(t.Args[1])) & mask(w)
	case OpBVSub:
		r = (ev.eval(t.Args[0]) - ev.eval(t.Args[1])) & mask(w)
	case OpBVMul:
		r = (ev.eval(t.Args[0]) * ev.eval(t.Args[1])) & mask(w)
	case OpBVUDiv:
		x, y := ev.eval(t.Args[0]), ev.eval(t.Args[1])
		if y == 0 {
			r = mask(w)
		} else {
			r = x / y
		}
	case OpBVURem:
		x, y := ev.eval(t.Args[0]), ev.eval(t.Args[1])
		if y == 0 {
			r = x
		} else {
			r = x % y
		}
	case OpBVSDiv:
		x, y := sx(ev.eval(t.Args[0]), w), sx(ev.eval(t.Args[1]), w)
		switch {
		case y == 0:
			if x < 0 {
				r = 1
			} else {
				r = mask(w)
			}
		case y == -1:
			r = uint64(-x) & mask(w)
		default:
			r = uint64(x/y) & mask(w)
		}
	case OpBVSRem:
		x, y := sx(ev.eval(t.Args[0]), w), sx(ev.eval(t.Args[1]), w)
		switch {
		case y == 0:
			r = uint64(x) & mask(w)
		case y == -1:
			r = 0
		default:
			r = uint64(x%y) & mask(w)
		}
	case OpBVAnd:
		r = ev.eval(t.Args[0]) & ev.eval(t.Args[1])
	case OpBVOr:
		r = ev.eval(t.Args[0]) | ev.eval(t.Args[1])
	case OpBVXor:
		r = ev.eval(t.Args[0]) ^ ev.eval(t.Args[1])
	case OpBVNot:
		r = ^ev.eval(t.Args[0]) & mask(w)
	case OpBVNeg:
		r = (-ev.eval(t.Args[0])) & mask(w)
	case OpBVShl:
		x, y := ev.eval(t.Args[0]), ev.eval(t.Args[1])
		if y >= uint64(w) {
			r = 0
		} else {
			r = (x << y) & mask(w)
		}
	case OpBVLshr:
		x, y := ev.eval(t.Args[0]), ev.eval(t.Args[1])
		if y >= uint64(w) {
			r = 0
		} else {
			r = x >> y
		}
	case OpBVAshr:
		x, y := sx(ev.eval(t.Args[0]), w), ev.eval(t.Args[1])
		if y >= uint64(w) {
			if x < 0 {
				r = mask(w)
			} else {
				r = 0
			}
		} else {
			r = uint64(x>>y) & mask(w)
		}
	case OpBVUlt:
		r = b2u(ev.eval(t.Args[0]) < ev.eval(t.Args[1]))
	case OpBVUle:
		r = b2u(ev.eval(t.Args[0]) <= ev.eval(t.Args[1]))
	case OpBVSlt:
		aw := t.Args[0].Sort.W
		r = b2u(sx(ev.eval(t.Args[0]), aw) < sx(ev.eval(t.Args[1]), aw))
	case OpBVSle:
		aw := t.Args[0].Sort.W
		r = b2u(sx(ev.eval(t.Args[0]), aw) <= sx(ev.eval(t.Args[1]), aw))
	case OpConcat:
		r = ev.eval(t.Args[0])<<uint(t.Args[1].Sort.W) | ev.eval(t.Args[1])
	case OpExtract:
		r = (ev.eval(t.Args[0]) >> uint(t.Lo)) & mask(t.Hi-t.Lo+1)
	case OpZeroExt:
		r = ev.eval(t.Args[0])
	case OpSignExt:
		r = uint64(sx(ev.eval(t.Args[0]), t.Args[0].Sort.W)) & mask(w)
	case OpIntAdd:
		var s int64
		for _, a := range t.Args {
			s += int64(ev.eval(a))
		}
		r = uint64(s)
	case OpIntSub:
		r = uint64(int64(ev.eval(t.Args[0])) - int64(ev.eval(t.Args[1])))
	case OpIntMul:
		r = uint64(int64(ev.eval(t.Args[0])) * int64(ev.eval(t.Args[1])))
	case OpIntLt:
		r = b2u(int64(ev.eval(t.Args[0])) < int64(ev.eval(t.Args[1])))
	case OpIntLe:
		r = b2u(int64(ev.eval(t.Args[0])) <= int64(ev.eval(t.Args[1])))
	case OpBV2Int:
		r = ev.eval(t.Args[0])
	case OpInt2BV:
		r = ev.eval(t.Args[0]) & mask(t.Hi)
	default:
		ev.ok = false
		return 0
	}
	ev.memo[t] = r
	return r
}

// holds: does the model satisfy the Bool term?  (false also when not evaluable)
func modelHolds(m Model, t *Term) bool {
	if m == nil {
		return false
	}
	ev := newEvaluator(m)
	v := ev.eval(t)
	return ev.ok && v == 1
}
