package gosym

// strconv number formatting on symbolic integers (base 10): the witness-digit model of fmtDecimal instead
// of the real division loops (64-bit division by constants stalls the solvers).  Concrete arguments and
// other bases run the real bodies.

import (
	"go/token"

	"golang.org/x/tools/go/ssa"
)

func (e *Engine) decimalExits(st *State, x *Term, signed bool, mk func(s2 *State, s StrV) Value) []exit {
	alts := e.fmtDecimal(st, x, signed, 0, false, false)
	var out []exit
	for i, a := range alts {
		s2 := st
		if i < len(alts)-1 {
			s2 = st.fork()
			e.stats.States++
		}
		s2.assume(a.cond)
		out = append(out, exit{st: s2, kind: exitReturn, val: mk(s2, a.s)})
	}
	return out
}

func init() {
	symbolicBase10 := func(v Value, base Value) (*Term, bool) {
		t, ok := v.(*Term)
		if !ok || t.IsConst() {
			return nil, false
		}
		if base != nil {
			b, ok := isConstTerm(base)
			if !ok || b.C != 10 {
				return nil, false
			}
		}
		return t, true
	}
	fall := func(e *Engine, st *State, fr *Frame, fn *ssa.Function, args []Value) []exit {
		depth := 0
		if fr != nil {
			depth = fr.depth + 1
		}
		return e.runFunction(st, fn, args, nil, depth)
	}
	format := func(signed bool, hasBase bool) stubFn {
		return func(e *Engine, st *State, fr *Frame, fn *ssa.Function, args []Value, pos token.Pos) []exit {
			var base Value
			if hasBase {
				base = args[1]
			}
			t, ok := symbolicBase10(args[0], base)
			if !ok {
				return fall(e, st, fr, fn, args)
			}
			return e.decimalExits(st, t, signed, func(s2 *State, s StrV) Value { return s })
		}
	}
	stubs["strconv.FormatUint"] = format(false, true)
	stubs["strconv.FormatInt"] = format(true, true)
	stubs["strconv.Itoa"] = format(true, false)
	appendN := func(signed bool) stubFn {
		return func(e *Engine, st *State, fr *Frame, fn *ssa.Function, args []Value, pos token.Pos) []exit {
			t, ok := symbolicBase10(args[1], args[2])
			if !ok {
				return fall(e, st, fr, fn, args)
			}
			dst := args[0].(SliceV)
			return e.decimalExits(st, t, signed, func(s2 *State, s StrV) Value {
				return e.appendOp(s2, dst, s, nil)
			})
		}
	}
	stubs["strconv.AppendUint"] = appendN(false)
	stubs["strconv.AppendInt"] = appendN(true)
}
