package gosym

import (
	"fmt"
	"go/token"
	"go/types"
	"strings"

	"golang.org/x/tools/go/ssa"
)

func init() {
	stubs["fmt.Errorf"] = stubErrorf
	stubs["errors.New"] = func(e *Engine, st *State, fr *Frame, fn *ssa.Function, args []Value, pos token.Pos) []exit {
		msg := args[0].(StrV)
		id := "errors.New@" + e.posString(pos)
		if s, ok := msg.Concrete(); ok {
			id += ":" + s
		}
		return retExit(st, e.errValue(id, msg))
	}
	stubs["fmt.Sprintf"] = func(e *Engine, st *State, fr *Frame, fn *ssa.Function, args []Value, pos token.Pos) []exit {
		format := concreteString(args[0], "fmt.Sprintf format")
		alts := e.sprintf(st, fr, format, e.variadic(st, args[1]), pos)
		var out []exit
		for _, a := range alts {
			if a.panicked {
				out = append(out, exit{st: a.st, kind: exitPanic, pmsg: "panic in formatting"})
				continue
			}
			out = append(out, exit{st: a.st, kind: exitReturn, val: a.s})
		}
		return out
	}
	noop := func(e *Engine, st *State, fr *Frame, fn *ssa.Function, args []Value, pos token.Pos) []exit {
		sig := fn.Signature.Results()
		if sig.Len() == 0 {
			return retExit(st, nil)
		}
		return retExit(st, e.zero(sig))
	}
	stubs["fmt.Printf"] = noop
	stubs["fmt.Println"] = noop
	stubs["fmt.Print"] = noop
	stubs["fmt.Fprintf"] = func(e *Engine, st *State, fr *Frame, fn *ssa.Function, args []Value, pos token.Pos) []exit {
		// only Fprintf(&strings.Builder, ...) is modelled exactly (codec.Dump); other writers: no-op
		w := args[0].(IfaceV)
		format := concreteString(args[1], "fmt.Fprintf format")
		if p, ok := w.V.(PtrV); ok && w.T != nil && strings.HasSuffix(w.T.String(), "strings.Builder") {
			alts := e.sprintf(st, fr, format, e.variadic(st, args[2]), pos)
			var out []exit
			for _, a := range alts {
				if a.panicked {
					out = append(out, exit{st: a.st, kind: exitPanic, pmsg: "panic in formatting"})
					continue
				}
				e.builderAppend(a.st, p, a.s)
				out = append(out, exit{st: a.st, kind: exitReturn, val: TupleV{e.tc.BV(0, 64), IfaceV{}}})
			}
			return out
		}
		return retExit(st, TupleV{e.tc.BV(0, 64), IfaceV{}})
	}
	stubs["fmt.Fprintln"] = func(e *Engine, st *State, fr *Frame, fn *ssa.Function, args []Value, pos token.Pos) []exit {
		w := args[0].(IfaceV)
		if p, ok := w.V.(PtrV); ok && w.T != nil && strings.HasSuffix(w.T.String(), "strings.Builder") {
			if len(e.variadic(st, args[1])) == 0 {
				e.builderAppend(st, p, e.strConst("\n"))
			} else {
				e.builderAppend(st, p, StrV{Opaque: true, Note: "Fprintln"})
			}
		}
		return retExit(st, TupleV{e.tc.BV(0, 64), IfaceV{}})
	}

	stubs["strings.Join"] = func(e *Engine, st *State, fr *Frame, fn *ssa.Function, args []Value, pos token.Pos) []exit {
		elems := e.variadic(st, args[0])
		sep := args[1].(StrV)
		out := StrV{}
		for i, x := range elems {
			if i > 0 {
				out = e.concat(out, sep)
			}
			out = e.concat(out, x.(StrV))
		}
		return retExit(st, out)
	}
	// strings.Builder: the content is kept as a StrV in the buf field (field 1)
	stubs["(*strings.Builder).Grow"] = func(e *Engine, st *State, fr *Frame, fn *ssa.Function, args []Value, pos token.Pos) []exit {
		return retExit(st, nil)
	}
	stubs["(*strings.Builder).WriteRune"] = func(e *Engine, st *State, fr *Frame, fn *ssa.Function, args []Value, pos token.Pos) []exit {
		r := args[1].(*Term)
		if !r.IsConst() {
			// ASCII symbolic rune
			if !e.mustHold(st, e.tc.BVUlt(r, e.tc.BV(0x80, 32)), "WriteRune of a symbolic non-ASCII rune (engine limit)", pos) {
				panic(unsupported("WriteRune: symbolic non-ASCII rune"))
			}
			e.builderAppend(st, args[0].(PtrV), StrV{B: []*Term{e.tc.Extract(r, 7, 0)}})
			return retExit(st, TupleV{e.tc.BV(1, 64), IfaceV{}})
		}
		s := string(rune(r.SVal()))
		e.builderAppend(st, args[0].(PtrV), e.strConst(s))
		return retExit(st, TupleV{e.tc.BV(uint64(len(s)), 64), IfaceV{}})
	}
	stubs["(*strings.Builder).WriteByte"] = func(e *Engine, st *State, fr *Frame, fn *ssa.Function, args []Value, pos token.Pos) []exit {
		e.builderAppend(st, args[0].(PtrV), StrV{B: []*Term{args[1].(*Term)}})
		return retExit(st, IfaceV{})
	}
	stubs["(*strings.Builder).WriteString"] = func(e *Engine, st *State, fr *Frame, fn *ssa.Function, args []Value, pos token.Pos) []exit {
		s := args[1].(StrV)
		e.builderAppend(st, args[0].(PtrV), s)
		return retExit(st, TupleV{e.tc.BV(uint64(len(s.B)), 64), IfaceV{}})
	}
	stubs["(*strings.Builder).Write"] = func(e *Engine, st *State, fr *Frame, fn *ssa.Function, args []Value, pos token.Pos) []exit {
		b := e.bytesOf(st, args[1].(SliceV))
		e.builderAppend(st, args[0].(PtrV), StrV{B: b})
		return retExit(st, TupleV{e.tc.BV(uint64(len(b)), 64), IfaceV{}})
	}
	stubs["(*strings.Builder).String"] = func(e *Engine, st *State, fr *Frame, fn *ssa.Function, args []Value, pos token.Pos) []exit {
		return retExit(st, e.builderGet(st, args[0].(PtrV)))
	}
	stubs["(*strings.Builder).Len"] = func(e *Engine, st *State, fr *Frame, fn *ssa.Function, args []Value, pos token.Pos) []exit {
		s := e.builderGet(st, args[0].(PtrV))
		if s.Opaque {
			panic(unsupported("Builder.Len of opaque content"))
		}
		return retExit(st, e.tc.BV(uint64(len(s.B)), 64))
	}
	stubs["(*strings.Builder).Reset"] = func(e *Engine, st *State, fr *Frame, fn *ssa.Function, args []Value, pos token.Pos) []exit {
		p := args[0].(PtrV)
		e.store(st, PtrV{Obj: p.Obj, Path: appendPath(p.Path, PathElem{I: 1})}, StrV{})
		return retExit(st, nil)
	}
}

func (e *Engine) builderGet(st *State, p PtrV) StrV {
	v := e.load(st, PtrV{Obj: p.Obj, Path: appendPath(p.Path, PathElem{I: 1})})
	if s, ok := v.(StrV); ok {
		return s
	}
	return StrV{}
}

func (e *Engine) builderAppend(st *State, p PtrV, s StrV) {
	cur := e.builderGet(st, p)
	var out StrV
	if cur.Opaque || s.Opaque {
		out = StrV{Opaque: true, Note: "builder"}
	} else {
		b := make([]*Term, 0, len(cur.B)+len(s.B))
		out = StrV{B: append(append(b, cur.B...), s.B...)}
	}
	e.store(st, PtrV{Obj: p.Obj, Path: appendPath(p.Path, PathElem{I: 1})}, out)
}

func (e *Engine) errValue(id string, msg StrV) Value {
	return IfaceV{T: e.errType(), V: ErrV{ID: id, Msg: msg, Sentinel: e.inInit}}
}

var errMarkerType types.Type

func (e *Engine) errType() types.Type {
	if errMarkerType == nil {
		// *errors.errorString
		if p := e.prog.ImportedPackage("errors"); p != nil {
			if o := p.Pkg.Scope().Lookup("errorString"); o != nil {
				errMarkerType = types.NewPointer(o.Type())
			}
		}
		if errMarkerType == nil {
			errMarkerType = types.Universe.Lookup("error").Type()
		}
	}
	return errMarkerType
}

func stubErrorf(e *Engine, st *State, fr *Frame, fn *ssa.Function, args []Value, pos token.Pos) []exit {
	format, _ := args[0].(StrV).Concrete()
	// the message is opaque: error texts are diagnostics, never inspected by the repo
	return retExit(st, e.errValue("Errorf:"+format+"@"+e.posString(pos), StrV{Opaque: true, Note: "error text"}))
}

func (e *Engine) variadic(st *State, v Value) []Value {
	sl, ok := v.(SliceV)
	if !ok || sl.Nil {
		return nil
	}
	return e.sliceElems(st, sl)
}

// ---------------------------------------------------------------- Sprintf

type fmtAlt struct {
	st       *State
	s        StrV
	panicked bool
}

type strAlt struct {
	cond *Term
	s    StrV
}

func (e *Engine) sprintf(st *State, fr *Frame, format string, args []Value, pos token.Pos) []fmtAlt {
	alts := []fmtAlt{{st: st, s: StrV{}}}
	argi := 0
	appendAll := func(s StrV) {
		for i := range alts {
			alts[i].s = e.concat(alts[i].s, s)
		}
	}
	i := 0
	for i < len(format) {
		ch := format[i]
		if ch != '%' {
			j := i
			for j < len(format) && format[j] != '%' {
				j++
			}
			appendAll(e.strConst(format[i:j]))
			i = j
			continue
		}
		i++
		if i >= len(format) {
			appendAll(e.strConst("%!(NOVERB)"))
			break
		}
		if format[i] == '%' {
			appendAll(e.strConst("%"))
			i++
			continue
		}
		// flags
		var zero, minus, plus, sharp, space bool
		for i < len(format) {
			switch format[i] {
			case '0':
				zero = true
			case '-':
				minus = true
			case '+':
				plus = true
			case '#':
				sharp = true
			case ' ':
				space = true
			default:
				goto width
			}
			i++
		}
	width:
		width := -1
		for i < len(format) && format[i] >= '0' && format[i] <= '9' {
			if width < 0 {
				width = 0
			}
			width = width*10 + int(format[i]-'0')
			i++
		}
		prec := -1
		if i < len(format) && format[i] == '.' {
			i++
			prec = 0
			for i < len(format) && format[i] >= '0' && format[i] <= '9' {
				prec = prec*10 + int(format[i]-'0')
				i++
			}
		}
		if i >= len(format) {
			appendAll(StrV{Opaque: true, Note: "bad format"})
			break
		}
		verb := format[i]
		i++
		if argi >= len(args) {
			appendAll(e.strConst("%!" + string(verb) + "(MISSING)"))
			continue
		}
		arg := args[argi]
		argi++
		if plus || sharp || space || prec >= 0 {
			appendAll(StrV{Opaque: true, Note: "unsupported flags"})
			continue
		}
		var next []fmtAlt
		for _, a := range alts {
			pieces := e.formatArg(a.st, fr, verb, arg, width, zero, minus, pos)
			for _, p := range pieces {
				if p.panicked {
					next = append(next, fmtAlt{st: p.st, panicked: true})
					continue
				}
				next = append(next, fmtAlt{st: p.st, s: e.concat(a.s, p.s)})
			}
		}
		alts = next
	}
	return alts
}

func (e *Engine) concat(a, b StrV) StrV {
	if !a.Opaque && len(a.B) == 0 {
		return b
	}
	if !b.Opaque && len(b.B) == 0 {
		return a
	}
	if a.Opaque || b.Opaque {
		la, lb := a.MinLen, b.MinLen
		if !a.Opaque {
			la = len(a.B)
		}
		if !b.Opaque {
			lb = len(b.B)
		}
		return StrV{Opaque: true, Note: "formatted", MinLen: la + lb}
	}
	out := make([]*Term, 0, len(a.B)+len(b.B))
	return StrV{B: append(append(out, a.B...), b.B...)}
}

func (e *Engine) pad(s StrV, width int, zero, minus bool) StrV {
	if s.Opaque || width < 0 || len(s.B) >= width {
		return s
	}
	n := width - len(s.B)
	padc := byte(' ')
	if zero && !minus {
		padc = '0'
	}
	p := e.strConst(strings.Repeat(string(padc), n))
	if minus {
		return e.concat(s, p)
	}
	return e.concat(p, s)
}

// formatArg renders one operand.  It may fork the state (digit counts) and may call String methods.
func (e *Engine) formatArg(st *State, fr *Frame, verb byte, arg Value, width int, zero, minus bool, pos token.Pos) []fmtAlt {
	opaque := func(note string) []fmtAlt {
		return []fmtAlt{{st: st, s: StrV{Opaque: true, Note: note}}}
	}
	iv, ok := arg.(IfaceV)
	if !ok {
		return opaque("non-interface operand")
	}
	if iv.T == nil {
		return []fmtAlt{{st: st, s: e.pad(e.strConst("<nil>"), width, zero, minus)}}
	}
	// network addresses: opaque text that remembers the address it was formatted from (for Dial)
	if ts := iv.T.String(); ts == "*net.UDPAddr" || ts == "*net.TCPAddr" {
		if p, ok := iv.V.(PtrV); ok && !p.IsNil() {
			return []fmtAlt{{st: st, s: StrV{Opaque: true, Note: "text of " + ts, MinLen: 1, Ref: p}}}
		}
	}
	// error / Stringer take precedence for %v %s
	if verb == 'v' || verb == 's' || verb == 'q' {
		if ev, ok := iv.V.(ErrV); ok {
			_ = ev
			return opaque("error text")
		}
		if m := e.stringMethod(iv.T); m != nil && verb != 'q' && e.opt.OpaqueNumbers && !e.isRepoFn(m) {
			// rendering mode: String methods of standard-library types are trusted not to panic
			return []fmtAlt{{st: st, s: StrV{Opaque: true, Note: "stdlib Stringer"}}}
		} else if m != nil && verb != 'q' {
			// a nil pointer receiver prints <nil>; fmt recovers panics in String methods
			if p, ok := iv.V.(PtrV); ok && p.IsNil() {
				return []fmtAlt{{st: st, s: e.pad(e.strConst("<nil>"), width, zero, minus)}}
			}
			before := len(e.findings)
			res := e.callFunction(st, fr, m, []Value{iv.V}, nil, pos)
			// panics inside String() are recovered by fmt: they do not count here
			e.findings = e.findings[:before]
			var out []fmtAlt
			for _, r := range res {
				if r.kind == exitPanic {
					out = append(out, fmtAlt{st: r.st, s: StrV{Opaque: true, Note: "%!v(PANIC=String method)"}})
					continue
				}
				out = append(out, fmtAlt{st: r.st, s: e.pad(r.val.(StrV), width, zero, minus)})
			}
			return out
		}
	}
	switch v := iv.V.(type) {
	case StrV:
		if verb == 's' || verb == 'v' {
			return []fmtAlt{{st: st, s: e.pad(v, width, zero, minus)}}
		}
		return opaque("string with verb " + string(verb))
	case *Term:
		if e.opt.OpaqueNumbers && !v.IsConst() {
			// rendering mode: the text of numbers is not inspected, only known to be non-empty
			return []fmtAlt{{st: st, s: StrV{Opaque: true, Note: "number", MinLen: 1}}}
		}
		if v.Sort.K == KBool {
			if verb != 'v' && verb != 't' {
				return opaque("bool verb")
			}
			if v.IsConst() {
				return []fmtAlt{{st: st, s: e.pad(e.strConst(fmt.Sprint(v.C == 1)), width, zero, minus)}}
			}
			if width >= 5 {
				// "true" and "false" pad to the same length: no fork
				tt, ff := e.pad(e.strConst("true"), width, zero, minus), e.pad(e.strConst("false"), width, zero, minus)
				m, _ := e.mergeVal(v, tt, ff)
				return []fmtAlt{{st: st, s: m.(StrV)}}
			}
			var out []fmtAlt
			for _, val := range []bool{true, false} {
				cond := v
				if !val {
					cond = e.tc.Not(v)
				}
				if !e.feasible(st, cond, "fmt bool") {
					continue
				}
				s2 := st.fork()
				s2.assume(cond)
				out = append(out, fmtAlt{st: s2, s: e.pad(e.strConst(fmt.Sprint(val)), width, zero, minus)})
			}
			return out
		}
		signed := isSigned(iv.T)
		var salts []strAlt
		switch verb {
		case 'd', 'v':
			salts = e.fmtDecimal(st, v, signed, width, zero, minus)
		case 'x', 'X':
			salts = e.fmtHex(st, v, width, zero, minus, verb == 'X')
		default:
			return opaque("integer verb " + string(verb))
		}
		if len(salts) == 1 {
			st.assume(salts[0].cond)
			return []fmtAlt{{st: st, s: salts[0].s}}
		}
		var out []fmtAlt
		for _, sa := range salts {
			s2 := st.fork()
			e.stats.States++
			s2.assume(sa.cond)
			out = append(out, fmtAlt{st: s2, s: sa.s})
		}
		return out
	}
	return opaque(fmt.Sprintf("operand %T", iv.V))
}

func (e *Engine) isRepoFn(fn *ssa.Function) bool {
	if fn.Pkg != nil {
		return e.isRepoPkg(fn.Pkg)
	}
	if o := fn.Origin(); o != nil && o.Pkg != nil {
		return e.isRepoPkg(o.Pkg)
	}
	// wrappers / bound methods: decide by the receiver's package
	if fn.Signature.Recv() != nil {
		t := fn.Signature.Recv().Type()
		if p, ok := t.(*types.Pointer); ok {
			t = p.Elem()
		}
		if n, ok := t.(*types.Named); ok && n.Obj().Pkg() != nil {
			return strings.HasPrefix(n.Obj().Pkg().Path(), e.repoPrefix)
		}
	}
	return false
}

func (e *Engine) stringMethod(t types.Type) *ssa.Function {
	ms := e.prog.MethodSets.MethodSet(t)
	for _, name := range []string{"Error", "String"} {
		sel := ms.Lookup(nil, name)
		if sel == nil {
			continue
		}
		sig := sel.Type().(*types.Signature)
		if sig.Params().Len() != 0 || sig.Results().Len() != 1 {
			continue
		}
		if b, ok := sig.Results().At(0).Type().Underlying().(*types.Basic); !ok || b.Info()&types.IsString == 0 {
			continue
		}
		return e.prog.MethodValue(sel)
	}
	return nil
}

var pow10tab = func() [20]uint64 {
	var t [20]uint64
	p := uint64(1)
	for i := range t {
		t[i] = p
		p *= 10
	}
	return t
}()

// fmtDecimal returns the alternatives (grouped by resulting length, conditions mutually exclusive and
// feasible under the path condition) of formatting x in decimal.
func (e *Engine) fmtDecimal(st *State, x *Term, signed bool, width int, zero, minus bool) []strAlt {
	c := e.tc
	if x.IsConst() {
		var s string
		if signed {
			s = fmt.Sprintf("%d", x.SVal())
		} else {
			s = fmt.Sprintf("%d", x.C)
		}
		neg := strings.HasPrefix(s, "-")
		if zero && !minus && width > len(s) {
			digits := strings.TrimPrefix(s, "-")
			digits = strings.Repeat("0", width-len(s)) + digits
			if neg {
				s = "-" + digits
			} else {
				s = digits
			}
		}
		return []strAlt{{c.True, e.pad(e.strConst(s), width, false, minus)}}
	}
	w := x.Sort.W
	x64 := c.Resize(x, 64, signed)
	type raw struct {
		cond *Term
		s    StrV
	}
	var raws []raw
	gen := func(neg bool) {
		mag := x64
		signCond := c.True
		if signed {
			isNeg := c.BVSlt(x64, c.BV(0, 64))
			if neg {
				signCond = isNeg
				mag = c.BVNeg(x64)
			} else {
				signCond = c.Not(isNeg)
			}
		} else if neg {
			return
		}
		if !e.feasible(st, signCond, "fmt sign") {
			return
		}
		maxDigits := 20
		switch {
		case w <= 8:
			maxDigits = 3
		case w <= 16:
			maxDigits = 5
		case w <= 32:
			maxDigits = 10
		}
		signLen := 0
		if neg {
			signLen = 1
		}
		// zero padded up to `width`: all digit counts k <= width-signLen share one alternative
		lowK := 1
		if zero && !minus && width-signLen > 1 {
			lowK = width - signLen
			if lowK > maxDigits {
				lowK = maxDigits
			}
		}
		for k := lowK; k <= maxDigits; k++ {
			var cond *Term
			if k == lowK {
				if k <= 19 {
					cond = c.BVUlt(mag, c.BV(pow10tab[k], 64))
				} else {
					cond = c.True
				}
			} else {
				lo := c.BVUle(c.BV(pow10tab[k-1], 64), mag)
				if k <= 19 {
					cond = c.And(lo, c.BVUlt(mag, c.BV(pow10tab[k], 64)))
				} else {
					cond = lo
				}
			}
			cond = c.And(signCond, cond)
			if !e.feasible(st, cond, "fmt digits") {
				continue
			}
			if k > 18 {
				panic(unsupported("decimal formatting of a symbolic integer that may need more than 18 digits"))
			}
			// witness digits
			sum := c.BV(0, 64)
			digits := make([]*Term, k)
			var side []*Term
			for i := 0; i < k; i++ {
				d := c.Fresh("digit", SBV(4))
				digits[i] = d
				side = append(side, c.BVUle(d, c.BV(9, 4)))
				sum = c.BVAdd(sum, c.BVMul(c.ZeroExt(d, 60), c.BV(pow10tab[i], 64)))
			}
			side = append(side, c.Eq(mag, sum))
			cond = c.And(append([]*Term{cond}, side...)...)
			var b []*Term
			if neg {
				b = append(b, c.BV('-', 8))
			}
			for i := k - 1; i >= 0; i-- {
				b = append(b, c.Concat(c.BV(3, 4), digits[i]))
			}
			s := StrV{B: b}
			if !(zero && !minus) {
				s = e.pad(s, width, false, minus)
			}
			raws = append(raws, raw{cond, s})
		}
	}
	gen(false)
	gen(true)
	// group by length
	var out []strAlt
	for _, r := range raws {
		merged := false
		for i := range out {
			if len(out[i].s.B) == len(r.s.B) {
				m, _ := e.mergeVal(r.cond, r.s, out[i].s)
				out[i].s = m.(StrV)
				out[i].cond = c.Or(out[i].cond, r.cond)
				merged = true
				break
			}
		}
		if !merged {
			out = append(out, strAlt{r.cond, r.s})
		}
	}
	if len(out) == 0 {
		panic(unsupported("fmtDecimal: no feasible alternative (dead path)"))
	}
	return out
}

func (e *Engine) fmtHex(st *State, x *Term, width int, zero, minus, upper bool) []strAlt {
	c := e.tc
	if x.IsConst() {
		s := fmt.Sprintf("%x", x.C)
		if upper {
			s = strings.ToUpper(s)
		}
		return []strAlt{{c.True, e.pad(e.strConst(s), width, zero, minus)}}
	}
	w := x.Sort.W
	nn := (w + 3) / 4
	hexch := func(n *Term) *Term { // n: BV4
		n8 := c.ZeroExt(n, 4)
		a := byte('a')
		if upper {
			a = 'A'
		}
		return c.Ite(c.BVUlt(n8, c.BV(10, 8)), c.BVAdd(n8, c.BV('0', 8)), c.BVAdd(n8, c.BV(uint64(a-10), 8)))
	}
	nib := make([]*Term, nn) // nib[0] least significant
	for i := 0; i < nn; i++ {
		hi := i*4 + 3
		if hi >= w {
			hi = w - 1
		}
		t := c.Extract(x, hi, i*4)
		if t.Sort.W < 4 {
			t = c.ZeroExt(t, 4-t.Sort.W)
		}
		nib[i] = t
	}
	lowK := 1
	if zero && !minus && width > 1 {
		lowK = width
		if lowK > nn {
			lowK = nn
		}
	}
	var out []strAlt
	for k := lowK; k <= nn; k++ {
		// k significant nibbles: all nibbles >= k are zero, and (k == lowK or nibble k-1 != 0)
		cond := c.True
		for i := k; i < nn; i++ {
			cond = c.And(cond, c.Eq(nib[i], c.BV(0, 4)))
		}
		if k > lowK {
			cond = c.And(cond, c.Ne(nib[k-1], c.BV(0, 4)))
		}
		if !e.feasible(st, cond, "fmt hex digits") {
			continue
		}
		var b []*Term
		for i := k - 1; i >= 0; i-- {
			b = append(b, hexch(nib[i]))
		}
		s := StrV{B: b}
		if !(zero && !minus) {
			s = e.pad(s, width, false, minus)
		} else {
			s = e.pad(s, width, true, false)
		}
		merged := false
		for i := range out {
			if len(out[i].s.B) == len(s.B) {
				m, _ := e.mergeVal(cond, s, out[i].s)
				out[i].s = m.(StrV)
				out[i].cond = c.Or(out[i].cond, cond)
				merged = true
				break
			}
		}
		if !merged {
			out = append(out, strAlt{cond, s})
		}
	}
	return out
}
