package gosym

// unicode predicates on symbolic runes: the condition is built from the real range tables of the Go
// distribution the engine is compiled with (static tables, read natively).

import (
	"go/token"
	"unicode"

	"golang.org/x/tools/go/ssa"
)

func (e *Engine) inRangeTable(r *Term, tab *unicode.RangeTable) *Term {
	c := e.tc
	w := r.Sort.W
	res := c.False
	one := func(lo, hi, stride uint32) {
		in := c.And(c.BVUle(c.BV(uint64(lo), w), r), c.BVUle(r, c.BV(uint64(hi), w)))
		if stride > 1 {
			in = c.And(in, c.Eq(c.BVURem(c.BVSub(r, c.BV(uint64(lo), w)), c.BV(uint64(stride), w)), c.BV(0, w)))
		}
		res = c.Or(res, in)
	}
	for _, x := range tab.R16 {
		one(uint32(x.Lo), uint32(x.Hi), uint32(x.Stride))
	}
	for _, x := range tab.R32 {
		one(x.Lo, x.Hi, x.Stride)
	}
	return c.And(res, c.BVSle(c.BV(0, w), r))
}

func init() {
	pred := func(tab *unicode.RangeTable, native func(rune) bool) stubFn {
		return func(e *Engine, st *State, fr *Frame, fn *ssa.Function, args []Value, pos token.Pos) []exit {
			r := args[0].(*Term)
			if r.IsConst() {
				return retExit(st, e.tc.Bool(native(rune(int32(r.C)))))
			}
			return retExit(st, e.inRangeTable(r, tab))
		}
	}
	stubs["unicode.IsDigit"] = pred(unicode.Digit, unicode.IsDigit)
	stubs["unicode.IsNumber"] = pred(unicode.Number, unicode.IsNumber)
	stubs["unicode.IsLetter"] = pred(unicode.Letter, unicode.IsLetter)
	stubs["unicode.IsUpper"] = pred(unicode.Upper, unicode.IsUpper)
	stubs["unicode.IsLower"] = pred(unicode.Lower, unicode.IsLower)
	stubs["unicode.IsSpace"] = pred(unicode.White_Space, unicode.IsSpace)
	stubs["unicode.IsPunct"] = pred(unicode.Punct, unicode.IsPunct)
}
