package gosym

// Structured JSON documents.  encoding/json itself (reflection over arbitrary types, text scanning) is not
// interpreted; instead json.Marshal of a composite value builds an abstract document - objects by field name,
// arrays, numbers, booleans, null, and *exact text* for every leaf that a MarshalJSON method of the repository
// (or a plain string) produces - calling the marshal methods encoding/json would call, with its tag rules
// (names, "-", omitempty).  The returned []byte is a reference to that document.  json.Unmarshal of such a
// reference walks the target type the way encoding/json does: UnmarshalJSON methods of the repository are
// called (with the leaf's exact text, or the sub-document's reference), struct fields are matched by tag name,
// absent fields keep their old value, maps are allocated when nil, map values and slice elements start from the
// zero value, pointers are allocated.  What this does not cover: the text syntax of composite documents (which
// is encoding/json's, not the repository's), documents that were not produced by json.Marshal (they remain a
// havoc stub), embedded structs, the ",string" option, interface targets.

import (
	"go/token"
	"go/types"
	"reflect"
	"strconv"
	"strings"

	"golang.org/x/tools/go/ssa"
)

type jdoc struct {
	kind   byte // 'o' object, 'a' array, 't' exact JSON text, 'n' number, 'b' bool, 'z' null, 'x' opaque
	fields []jfield
	elems  []*jdoc
	text   []*Term
	num    *Term
	signed bool
	b      *Term
}

type jfield struct {
	name    string
	present *Term
	d       *jdoc
}

type jbAlt struct {
	st       *State
	d        *jdoc
	panicked bool
	pmsg     string
	err      Value // marshal method returned an error
}

func (e *Engine) jsonRefBytes(st *State, d *jdoc) Value {
	e.jdocs = append(e.jdocs, d)
	id := len(e.jdocs) // 1-based; the length of the reference encodes the id, so that states holding
	// different documents have different heap shapes and are never merged into an ambiguous reference
	b := make([]*Term, 2+id)
	b[0] = e.tc.BV(0, 8)
	b[1] = e.tc.BV('J', 8)
	for i := 2; i < len(b); i++ {
		b[i] = e.tc.BV(0, 8)
	}
	e.stubsUsed["encoding/json: composite documents are abstract (structure and leaf text exact, composite text syntax not modelled)"] = true
	return e.newByteSlice(st, b)
}

// jsonDocOf: the document a byte slice refers to (nil when it is ordinary bytes).
func (e *Engine) jsonDocOf(st *State, data SliceV) *jdoc {
	if data.Nil || data.Obj == 0 {
		return nil
	}
	n, ok := e.sliceLenConst(data)
	if !ok || n < 3 {
		return nil
	}
	bs := e.bytesOf(st, data)
	if !bs[0].IsConst() || bs[0].C != 0 || !bs[1].IsConst() || bs[1].C != 'J' {
		return nil
	}
	id := n - 2
	if id < 1 || id > len(e.jdocs) {
		return nil
	}
	return e.jdocs[id-1]
}

func (e *Engine) jsonDocBytes(st *State, d *jdoc) Value {
	switch d.kind {
	case 't':
		return e.newByteSlice(st, d.text)
	case 'z':
		return e.newByteSlice(st, e.constBytes("null"))
	case 'x':
		return e.opaqueBytes(st)
	}
	return e.jsonRefBytes(st, d)
}

func (e *Engine) constBytes(s string) []*Term {
	out := make([]*Term, len(s))
	for i := 0; i < len(s); i++ {
		out[i] = e.tc.BV(uint64(s[i]), 8)
	}
	return out
}

type jsonTag struct {
	name      string
	omitempty bool
	skip      bool
	asString  bool
}

func jsonFieldTag(f *types.Var, tag string) jsonTag {
	t := jsonTag{name: f.Name()}
	if !f.Exported() {
		t.skip = true
		return t
	}
	v, ok := reflect.StructTag(tag).Lookup("json")
	if !ok {
		return t
	}
	if v == "-" {
		t.skip = true
		return t
	}
	parts := strings.Split(v, ",")
	if parts[0] != "" {
		t.name = parts[0]
	}
	for _, o := range parts[1:] {
		switch o {
		case "omitempty":
			t.omitempty = true
		case "string":
			t.asString = true
		}
	}
	return t
}

// jsonEmpty: the condition under which omitempty drops v (nil when never).
func (e *Engine) jsonEmpty(st *State, v Value, t types.Type) *Term {
	c := e.tc
	switch u := t.Underlying().(type) {
	case *types.Basic:
		switch {
		case u.Info()&types.IsBoolean != 0:
			return c.Not(v.(*Term))
		case u.Info()&types.IsInteger != 0:
			x := v.(*Term)
			return c.Eq(x, c.BV(0, x.Sort.W))
		case u.Info()&types.IsString != 0:
			if s, ok := v.(StrV); ok && !s.Opaque {
				if len(s.B) == 0 {
					return c.True
				}
				return c.False
			}
		}
	case *types.Pointer:
		if p, ok := v.(PtrV); ok {
			return e.ptrNilTerm(p)
		}
	case *types.Map:
		if m, ok := v.(MapV); ok {
			if m.Obj == 0 {
				return c.True
			}
			return c.Eq(e.mapLen(st, m), c.BV(0, 64))
		}
	case *types.Slice:
		if sl, ok := v.(SliceV); ok {
			if sl.Nil {
				return c.True
			}
			return c.Eq(sl.Len, c.BV(0, 64))
		}
	case *types.Interface:
		if iv, ok := v.(IfaceV); ok {
			if iv.T == nil {
				return c.True
			}
			return c.False
		}
	case *types.Array:
		if u.Len() == 0 {
			return c.True
		}
		return c.False
	case *types.Struct:
		return c.False
	}
	return nil
}

var jOpaque = &jdoc{kind: 'x'}
var jNull = &jdoc{kind: 'z'}

// jsonBuild: the document json.Marshal produces for v of static type t.
func (e *Engine) jsonBuild(st *State, fr *Frame, v Value, t types.Type, pos token.Pos, depth int) []jbAlt {
	c := e.tc
	one := func(d *jdoc) []jbAlt { return []jbAlt{{st: st, d: d}} }
	if depth > 12 {
		return one(jOpaque)
	}
	if p, ok := v.(PtrV); ok && p.IsNil() {
		return one(jNull)
	}
	if iv, ok := v.(IfaceV); ok {
		if iv.T == nil {
			return one(jNull)
		}
		return e.jsonBuild(st, fr, iv.V, iv.T, pos, depth+1)
	}
	for _, name := range []string{"MarshalJSON", "MarshalText"} {
		ms := e.prog.MethodSets.MethodSet(t)
		sel := ms.Lookup(nil, name)
		if sel == nil {
			continue
		}
		sig, ok := sel.Type().(*types.Signature)
		if !ok || sig.Params().Len() != 0 || sig.Results().Len() != 2 {
			continue
		}
		m := e.prog.MethodValue(sel)
		if m == nil {
			continue
		}
		if !e.isRepoFn(m) {
			// marshal methods of standard-library types are trusted not to panic; their text is not modelled
			return one(jOpaque)
		}
		var out []jbAlt
		for _, r := range e.callFunction(st, fr, m, []Value{v}, nil, pos) {
			if r.kind == exitPanic {
				out = append(out, jbAlt{st: r.st, panicked: true, pmsg: r.pmsg})
				continue
			}
			tv, ok := r.val.(TupleV)
			if !ok || len(tv) != 2 {
				out = append(out, jbAlt{st: r.st, d: jOpaque})
				continue
			}
			if ev, ok := tv[1].(IfaceV); ok && ev.T != nil {
				out = append(out, jbAlt{st: r.st, err: ev})
				continue
			}
			sl, ok := tv[0].(SliceV)
			if !ok || name == "MarshalText" {
				out = append(out, jbAlt{st: r.st, d: jOpaque})
				continue
			}
			if d := e.jsonDocOf(r.st, sl); d != nil {
				out = append(out, jbAlt{st: r.st, d: d})
				continue
			}
			if n, ok := e.sliceLenConst(sl); ok && n >= 1 && !sl.Nil {
				bs := e.bytesOf(r.st, sl)
				if len(bs) == 2 && bs[0].Op == OpVar && strings.HasPrefix(bs[0].Name, "jsontext") {
					out = append(out, jbAlt{st: r.st, d: jOpaque})
					continue
				}
				out = append(out, jbAlt{st: r.st, d: &jdoc{kind: 't', text: append([]*Term{}, bs...)}})
				continue
			}
			out = append(out, jbAlt{st: r.st, d: jOpaque})
		}
		return out
	}
	if e.isTimeType(t) {
		return one(jOpaque)
	}
	// sequence helper: build the documents of several values in order, threading the state
	type part struct {
		v Value
		t types.Type
	}
	seq := func(parts []part, done func(st *State, ds []*jdoc) *jdoc) []jbAlt {
		type acc struct {
			st *State
			ds []*jdoc
		}
		cur := []acc{{st: st}}
		var fin []jbAlt
		for _, p := range parts {
			var next []acc
			for _, a := range cur {
				for _, r := range e.jsonBuild(a.st, fr, p.v, p.t, pos, depth+1) {
					if r.panicked || r.err != nil {
						fin = append(fin, r)
						continue
					}
					next = append(next, acc{st: r.st, ds: append(append([]*jdoc{}, a.ds...), r.d)})
				}
			}
			cur = next
		}
		for _, a := range cur {
			fin = append(fin, jbAlt{st: a.st, d: done(a.st, a.ds)})
		}
		return fin
	}
	switch u := t.Underlying().(type) {
	case *types.Basic:
		switch {
		case u.Info()&types.IsBoolean != 0:
			return one(&jdoc{kind: 'b', b: v.(*Term)})
		case u.Info()&types.IsInteger != 0:
			_, signed := intWidth(u)
			return one(&jdoc{kind: 'n', num: v.(*Term), signed: signed})
		case u.Info()&types.IsString != 0:
			if s, ok := v.(StrV); ok && !s.Opaque {
				safe := c.True
				for _, ch := range s.B {
					safe = c.And(safe, e.jsonSafe(ch))
				}
				if safe.IsTrue() || !e.feasible(st, c.Not(safe), "json string needs escaping") {
					txt := make([]*Term, 0, len(s.B)+2)
					txt = append(txt, c.BV('"', 8))
					txt = append(txt, s.B...)
					txt = append(txt, c.BV('"', 8))
					return one(&jdoc{kind: 't', text: txt})
				}
			}
		}
		return one(jOpaque)
	case *types.Struct:
		sv, ok := v.(StructV)
		if !ok {
			return one(jOpaque)
		}
		var parts []part
		var tags []jsonTag
		var pres []*Term
		for i := 0; i < u.NumFields(); i++ {
			f := u.Field(i)
			tg := jsonFieldTag(f, u.Tag(i))
			if tg.skip {
				continue
			}
			if f.Embedded() || tg.asString {
				// outside the model: still call the marshal methods below it, the document is opaque
				alts := e.jsonWalk(st, fr, v, t, pos, depth)
				var out []jbAlt
				for _, a := range alts {
					out = append(out, jbAlt{st: a.st, d: jOpaque, panicked: a.panicked, pmsg: a.pmsg})
				}
				return out
			}
			p := c.True
			if tg.omitempty {
				em := e.jsonEmpty(st, sv.F[i], f.Type())
				if em == nil {
					return one(jOpaque)
				}
				p = c.Not(em)
			}
			if p.IsFalse() {
				continue
			}
			parts = append(parts, part{sv.F[i], f.Type()})
			tags = append(tags, tg)
			pres = append(pres, p)
		}
		return seq(parts, func(_ *State, ds []*jdoc) *jdoc {
			d := &jdoc{kind: 'o'}
			for i, x := range ds {
				d.fields = append(d.fields, jfield{name: tags[i].name, present: pres[i], d: x})
			}
			return d
		})
	case *types.Pointer:
		p, ok := v.(PtrV)
		if !ok || p.NilIf != nil {
			return one(jOpaque)
		}
		return e.jsonBuild(st, fr, e.load(st, p), u.Elem(), pos, depth+1)
	case *types.Slice:
		sl, ok := v.(SliceV)
		if !ok {
			return one(jOpaque)
		}
		if sl.Nil {
			return one(jNull)
		}
		if b, ok := u.Elem().Underlying().(*types.Basic); ok && b.Kind() == types.Uint8 {
			return one(jOpaque)
		}
		n, ok := e.resolveLen(st, sl.Len)
		if !ok {
			return one(jOpaque)
		}
		arr := e.getPath(st, e.obj(st, sl.Obj), sl.Path).(ArrayV)
		var parts []part
		for _, x := range arr.E[sl.Off : sl.Off+n] {
			parts = append(parts, part{x, u.Elem()})
		}
		return seq(parts, func(_ *State, ds []*jdoc) *jdoc { return &jdoc{kind: 'a', elems: ds} })
	case *types.Array:
		av, ok := v.(ArrayV)
		if !ok {
			return one(jOpaque)
		}
		var parts []part
		for _, x := range av.E {
			parts = append(parts, part{x, u.Elem()})
		}
		return seq(parts, func(_ *State, ds []*jdoc) *jdoc { return &jdoc{kind: 'a', elems: ds} })
	case *types.Map:
		m, ok := v.(MapV)
		if !ok {
			return one(jOpaque)
		}
		if m.Obj == 0 {
			return one(jNull)
		}
		mo := e.mapObj(st, m)
		var parts []part
		var names []string
		var pres []*Term
		exact := true
		for _, en := range mo.E {
			if en.Present.IsFalse() {
				continue
			}
			switch k := en.K.(type) {
			case *Term:
				kb, isInt := mo.KeyT.Underlying().(*types.Basic)
				if !k.IsConst() || !isInt || kb.Info()&types.IsInteger == 0 {
					exact = false
				} else if _, signed := intWidth(kb); signed {
					names = append(names, strconv.FormatInt(k.SVal(), 10))
				} else {
					names = append(names, strconv.FormatUint(k.C, 10))
				}
			case StrV:
				s, ok := e.concreteString(k)
				if !ok {
					exact = false
				}
				names = append(names, s)
			default:
				exact = false
			}
			parts = append(parts, part{en.V, mo.ValT})
			pres = append(pres, en.Present)
		}
		return seq(parts, func(_ *State, ds []*jdoc) *jdoc {
			if !exact {
				return jOpaque
			}
			d := &jdoc{kind: 'o'}
			for i, x := range ds {
				d.fields = append(d.fields, jfield{name: names[i], present: pres[i], d: x})
			}
			return d
		})
	}
	return one(jOpaque)
}

func (e *Engine) concreteString(s StrV) (string, bool) {
	if s.Opaque {
		return "", false
	}
	b := make([]byte, len(s.B))
	for i, t := range s.B {
		if !t.IsConst() {
			return "", false
		}
		b[i] = byte(t.C)
	}
	return string(b), true
}

type juAlt struct {
	st       *State
	err      bool
	panicked bool
	pmsg     string
}

// jsonDecode: json.Unmarshal of document d into the variable of type t that p points to.
func (e *Engine) jsonDecode(st *State, fr *Frame, d *jdoc, p PtrV, t types.Type, pos token.Pos, depth int) []juAlt {
	c := e.tc
	ok1 := func(s *State) []juAlt { return []juAlt{{st: s}} }
	bad := func(s *State) []juAlt { return []juAlt{{st: s, err: true}} }
	havoc := func() []juAlt {
		s2 := st.fork()
		e.stats.States++
		e.store(st, p, e.arbitrary(st, t, "json", 0))
		return []juAlt{{st: st}, {st: s2, err: true}}
	}
	if depth > 12 || d.kind == 'x' {
		return havoc()
	}
	// a pointer target: null makes it nil; otherwise it is allocated when nil and decoding goes on below it
	// (encoding/json looks for Unmarshalers at every level of indirection)
	if pt, isPtr := t.Underlying().(*types.Pointer); isPtr {
		if d.kind == 'z' {
			e.store(st, p, e.zero(t))
			return ok1(st)
		}
		cur, _ := e.load(st, p).(PtrV)
		if cur.NilIf != nil {
			return havoc()
		}
		if cur.IsNil() {
			id := e.alloc(st, e.zero(pt.Elem()))
			cur = PtrV{Obj: id}
			e.store(st, p, cur)
		}
		return e.jsonDecode(st, fr, d, cur, pt.Elem(), pos, depth+1)
	}
	// Unmarshaler on *T
	ms := e.prog.MethodSets.MethodSet(types.NewPointer(t))
	if sel := ms.Lookup(nil, "UnmarshalJSON"); sel != nil {
		if sig, ok := sel.Type().(*types.Signature); ok && sig.Params().Len() == 1 && sig.Results().Len() == 1 {
			m := e.prog.MethodValue(sel)
			if m == nil || !e.isRepoFn(m) {
				return havoc()
			}
			var out []juAlt
			arg := e.jsonDocBytes(st, d)
			for _, r := range e.callFunction(st, fr, m, []Value{p, arg}, nil, pos) {
				if r.kind == exitPanic {
					out = append(out, juAlt{st: r.st, panicked: true, pmsg: r.pmsg})
					continue
				}
				if ev, ok := r.val.(IfaceV); ok && ev.T != nil {
					out = append(out, juAlt{st: r.st, err: true})
					continue
				}
				out = append(out, juAlt{st: r.st})
			}
			return out
		}
	}
	if sel := ms.Lookup(nil, "UnmarshalText"); sel != nil && d.kind == 't' {
		return havoc()
	}
	if d.kind == 'z' {
		// null: maps, slices and interfaces become nil; anything else is left alone
		switch t.Underlying().(type) {
		case *types.Map, *types.Slice, *types.Interface:
			e.store(st, p, e.zero(t))
		}
		return ok1(st)
	}
	if e.isTimeType(t) {
		return havoc()
	}
	// helper: run a list of steps, each of which may fork or fail
	type step func(s *State) []juAlt
	run := func(steps []step) []juAlt {
		cur := []*State{st}
		var fin []juAlt
		for _, f := range steps {
			var next []*State
			for _, s := range cur {
				for _, r := range f(s) {
					if r.err || r.panicked {
						fin = append(fin, r)
					} else {
						next = append(next, r.st)
					}
				}
			}
			cur = next
		}
		for _, s := range cur {
			fin = append(fin, juAlt{st: s})
		}
		return fin
	}
	// present: perform f only when the field is present (forks when that is symbolic)
	whenPresent := func(pr *Term, f step) step {
		return func(s *State) []juAlt {
			if pr.IsTrue() {
				return f(s)
			}
			yes, no := e.forkOn(s, pr, "json field present")
			var out []juAlt
			if yes != nil {
				out = append(out, f(yes)...)
			}
			if no != nil {
				out = append(out, juAlt{st: no})
			}
			return out
		}
	}
	switch u := t.Underlying().(type) {
	case *types.Basic:
		switch {
		case u.Info()&types.IsBoolean != 0:
			if d.kind != 'b' {
				return bad(st)
			}
			e.store(st, p, d.b)
			return ok1(st)
		case u.Info()&types.IsInteger != 0:
			if d.kind != 'n' {
				return bad(st)
			}
			w, signed := intWidth(u)
			// the number widened to 64 bits, then the target's range
			wide := c.Resize(d.num, 64, d.signed)
			fits := c.True
			switch {
			case !d.signed && !signed:
				if w < 64 {
					fits = c.BVUle(wide, c.BV(1<<uint(w)-1, 64))
				}
			case !d.signed && signed:
				fits = c.BVUle(wide, c.BV(1<<uint(w-1)-1, 64))
			case d.signed && signed:
				if w < 64 {
					fits = c.And(c.BVSle(c.BVNeg(c.BV(1<<uint(w-1), 64)), wide), c.BVSle(wide, c.BV(1<<uint(w-1)-1, 64)))
				}
			default:
				fits = c.BVSle(c.BV(0, 64), wide)
				if w < 64 {
					fits = c.And(fits, c.BVSle(wide, c.BV(1<<uint(w)-1, 64)))
				}
			}
			yes, no := e.forkOn(st, fits, "json number fits the target type")
			var out []juAlt
			if yes != nil {
				e.store(yes, p, c.Resize(wide, w, false))
				out = append(out, juAlt{st: yes})
			}
			if no != nil {
				out = append(out, juAlt{st: no, err: true})
			}
			return out
		case u.Info()&types.IsString != 0:
			if d.kind != 't' {
				return bad(st)
			}
			s, ok := e.jsonTextString(st, d.text)
			if !ok {
				return havoc()
			}
			e.store(st, p, s)
			return ok1(st)
		}
		return havoc()
	case *types.Struct:
		if d.kind != 'o' {
			return bad(st)
		}
		var steps []step
		for _, f := range d.fields {
			f := f
			idx := -1
			for pass := 0; pass < 2 && idx < 0; pass++ {
				for i := 0; i < u.NumFields(); i++ {
					tg := jsonFieldTag(u.Field(i), u.Tag(i))
					if tg.skip {
						continue
					}
					if u.Field(i).Embedded() || tg.asString {
						return havoc()
					}
					if (pass == 0 && tg.name == f.name) || (pass == 1 && strings.EqualFold(tg.name, f.name)) {
						idx = i
						break
					}
				}
			}
			if idx < 0 {
				continue
			}
			fp := PtrV{Obj: p.Obj, Path: appendPath(p.Path, PathElem{I: idx})}
			ft := u.Field(idx).Type()
			steps = append(steps, whenPresent(f.present, func(s *State) []juAlt {
				return e.jsonDecode(s, fr, f.d, fp, ft, pos, depth+1)
			}))
		}
		return run(steps)
	case *types.Slice:
		if d.kind != 'a' {
			return bad(st)
		}
		if b, ok := u.Elem().Underlying().(*types.Basic); ok && b.Kind() == types.Uint8 {
			return havoc()
		}
		cur, _ := e.load(st, p).(SliceV)
		if !cur.Nil && cur.Obj != 0 {
			if n, ok := e.resolveLen(st, cur.Len); !ok || n != 0 {
				panic(unsupported("json.Unmarshal into a non-empty slice (element reuse is outside the model)"))
			}
		}
		n := len(d.elems)
		el := make([]Value, n)
		for i := range el {
			el[i] = e.zero(u.Elem())
		}
		nsl := e.newSlice(st, el, n, e.zero(u.Elem()))
		e.store(st, p, nsl)
		var steps []step
		for i, x := range d.elems {
			i, x := i, x
			steps = append(steps, func(s *State) []juAlt {
				return e.jsonDecode(s, fr, x, PtrV{Obj: nsl.Obj, Path: []PathElem{{I: i}}}, u.Elem(), pos, depth+1)
			})
		}
		return run(steps)
	case *types.Array:
		if d.kind != 'a' {
			return bad(st)
		}
		var steps []step
		for i := 0; i < int(u.Len()); i++ {
			i := i
			ep := PtrV{Obj: p.Obj, Path: appendPath(p.Path, PathElem{I: i})}
			if i >= len(d.elems) {
				steps = append(steps, func(s *State) []juAlt { e.store(s, ep, e.zero(u.Elem())); return ok1(s) })
				continue
			}
			x := d.elems[i]
			steps = append(steps, func(s *State) []juAlt { return e.jsonDecode(s, fr, x, ep, u.Elem(), pos, depth+1) })
		}
		return run(steps)
	case *types.Map:
		if d.kind != 'o' {
			return bad(st)
		}
		cur, _ := e.load(st, p).(MapV)
		if cur.Obj == 0 {
			id := e.alloc(st, &MapObj{KeyT: u.Key(), ValT: u.Elem()})
			cur = MapV{Obj: id}
			e.store(st, p, cur)
		}
		var steps []step
		for _, f := range d.fields {
			f := f
			var key Value
			switch kb := u.Key().Underlying().(type) {
			case *types.Basic:
				switch {
				case kb.Info()&types.IsString != 0:
					key = StrV{B: e.constBytes(f.name)}
				case kb.Info()&types.IsInteger != 0:
					w, signed := intWidth(kb)
					if signed {
						v, err := strconv.ParseInt(f.name, 10, w)
						if err != nil {
							steps = append(steps, whenPresent(f.present, func(s *State) []juAlt { return bad(s) }))
							continue
						}
						key = c.BV(uint64(v), w)
					} else {
						v, err := strconv.ParseUint(f.name, 10, w)
						if err != nil {
							steps = append(steps, whenPresent(f.present, func(s *State) []juAlt { return bad(s) }))
							continue
						}
						key = c.BV(v, w)
					}
				}
			}
			if key == nil {
				return havoc()
			}
			steps = append(steps, whenPresent(f.present, func(s *State) []juAlt {
				tmp := e.alloc(s, e.zero(u.Elem()))
				var out []juAlt
				for _, r := range e.jsonDecode(s, fr, f.d, PtrV{Obj: tmp}, u.Elem(), pos, depth+1) {
					if !r.err && !r.panicked {
						e.mapUpdate(r.st, cur, key, e.load(r.st, PtrV{Obj: tmp}))
					}
					out = append(out, r)
				}
				return out
			}))
		}
		return run(steps)
	}
	return havoc()
}

// jsonTextString: the Go string a JSON text leaf denotes (plain quoted strings of safe characters only).
func (e *Engine) jsonTextString(st *State, bs []*Term) (StrV, bool) {
	c := e.tc
	n := len(bs)
	if n < 2 {
		return StrV{}, false
	}
	form := c.And(c.Eq(bs[0], c.BV('"', 8)), c.Eq(bs[n-1], c.BV('"', 8)))
	for _, ch := range bs[1 : n-1] {
		form = c.And(form, e.jsonSafe(ch))
	}
	if !form.IsTrue() && e.feasible(st, c.Not(form), "json string form") {
		return StrV{}, false
	}
	return StrV{B: append([]*Term{}, bs[1:n-1]...)}, true
}

var _ = ssa.Function{}
