package gosym

// A light interval domain used only to avoid solver calls: unsigned ranges of terms are collected from the
// atomic comparisons a state assumes, propagated structurally, and consulted before a feasibility query.
// Sound by construction (a verdict is returned only when the interval evaluation is definite); everything
// it cannot decide goes to the solver as before.

import "math/bits"

type urange struct{ lo, hi uint64 }

func maskW(w int) uint64 {
	if w >= 64 {
		return ^uint64(0)
	}
	return (uint64(1) << uint(w)) - 1
}

// noteAssume records ranges implied by an assumed condition.
func (s *State) noteAssume(t *Term) {
	switch t.Op {
	case OpAnd:
		for _, a := range t.Args {
			s.noteAssume(a)
		}
	case OpBVUle:
		a, b := t.Args[0], t.Args[1]
		if a.Op == OpConst && b.Op != OpConst {
			s.narrow(b, a.C, maskW(b.Sort.W))
		} else if b.Op == OpConst && a.Op != OpConst {
			s.narrow(a, 0, b.C)
		}
	case OpBVUlt:
		a, b := t.Args[0], t.Args[1]
		if a.Op == OpConst && b.Op != OpConst && a.C < maskW(b.Sort.W) {
			s.narrow(b, a.C+1, maskW(b.Sort.W))
		} else if b.Op == OpConst && a.Op != OpConst && b.C > 0 {
			s.narrow(a, 0, b.C-1)
		}
	case OpEq:
		a, b := t.Args[0], t.Args[1]
		if a.Sort.K != KBV {
			return
		}
		if a.Op == OpConst && b.Op != OpConst {
			s.narrow(b, a.C, a.C)
		} else if b.Op == OpConst && a.Op != OpConst {
			s.narrow(a, b.C, b.C)
		}
	case OpNot:
		x := t.Args[0]
		switch x.Op {
		case OpBVUle: // not (a <= b)  ==  b < a
			a, b := x.Args[0], x.Args[1]
			if a.Op == OpConst && b.Op != OpConst && a.C > 0 {
				s.narrow(b, 0, a.C-1)
			} else if b.Op == OpConst && a.Op != OpConst && b.C < maskW(a.Sort.W) {
				s.narrow(a, b.C+1, maskW(a.Sort.W))
			}
		case OpBVUlt: // not (a < b) == b <= a
			a, b := x.Args[0], x.Args[1]
			if a.Op == OpConst && b.Op != OpConst {
				s.narrow(b, 0, a.C)
			} else if b.Op == OpConst && a.Op != OpConst {
				s.narrow(a, b.C, maskW(a.Sort.W))
			}
		}
	}
}

func (s *State) narrow(t *Term, lo, hi uint64) {
	if t.Sort.K != KBV {
		return
	}
	r, ok := s.ranges[t]
	if !ok {
		r = urange{0, maskW(t.Sort.W)}
	}
	if lo > r.lo {
		r.lo = lo
	}
	if hi < r.hi {
		r.hi = hi
	}
	if r.lo > r.hi {
		return // contradictory: leave it to the solver
	}
	if s.rangesShared {
		n := make(map[*Term]urange, len(s.ranges)+4)
		for k, v := range s.ranges {
			n[k] = v
		}
		s.ranges = n
		s.rangesShared = false
	}
	if s.ranges == nil {
		s.ranges = map[*Term]urange{}
	}
	s.ranges[t] = r
}

type rangeEval struct {
	st   *State
	memo map[*Term]urange
	n    int
}

// rng returns an unsigned range of a BV term (always sound; the full range when nothing is known).
func (ev *rangeEval) rng(t *Term) urange {
	if r, ok := ev.memo[t]; ok {
		return r
	}
	ev.n++
	w := t.Sort.W
	full := urange{0, maskW(w)}
	r := full
	if ev.n < 4000 {
		switch t.Op {
		case OpConst:
			r = urange{t.C, t.C}
		case OpZeroExt:
			r = ev.rng(t.Args[0])
		case OpExtract:
			if t.Lo == 0 {
				a := ev.rng(t.Args[0])
				if a.hi <= maskW(t.Hi+1) {
					r = a
				}
			}
		case OpBVAdd:
			a, b := ev.rng(t.Args[0]), ev.rng(t.Args[1])
			hi, carry := bits.Add64(a.hi, b.hi, 0)
			if carry == 0 && hi <= maskW(w) {
				r = urange{a.lo + b.lo, hi}
			}
		case OpBVSub:
			a, b := ev.rng(t.Args[0]), ev.rng(t.Args[1])
			if a.lo >= b.hi {
				r = urange{a.lo - b.hi, a.hi - b.lo}
			}
		case OpBVMul:
			a, b := ev.rng(t.Args[0]), ev.rng(t.Args[1])
			h, l := bits.Mul64(a.hi, b.hi)
			if h == 0 && l <= maskW(w) {
				r = urange{a.lo * b.lo, l}
			}
		case OpIte:
			switch ev.tri(t.Args[0]) {
			case 1:
				r = ev.rng(t.Args[1])
			case 0:
				r = ev.rng(t.Args[2])
			default:
				a, b := ev.rng(t.Args[1]), ev.rng(t.Args[2])
				r = urange{min(a.lo, b.lo), max(a.hi, b.hi)}
			}
		case OpBVAnd:
			a, b := ev.rng(t.Args[0]), ev.rng(t.Args[1])
			r = urange{0, min(a.hi, b.hi)}
		case OpBVLshr:
			if t.Args[1].Op == OpConst && t.Args[1].C < 64 {
				a := ev.rng(t.Args[0])
				r = urange{a.lo >> t.Args[1].C, a.hi >> t.Args[1].C}
			}
		case OpBVURem:
			if b := ev.rng(t.Args[1]); b.lo > 0 {
				r = urange{0, b.hi - 1}
			}
		case OpBVUDiv:
			a, b := ev.rng(t.Args[0]), ev.rng(t.Args[1])
			if b.lo > 0 {
				r = urange{a.lo / b.hi, a.hi / b.lo}
			}
		}
	}
	if k, ok := ev.st.ranges[t]; ok {
		if k.lo > r.lo {
			r.lo = k.lo
		}
		if k.hi < r.hi {
			r.hi = k.hi
		}
		if r.lo > r.hi {
			r = full
		}
	}
	ev.memo[t] = r
	return r
}

// tri: 1 definitely true, 0 definitely false, -1 unknown.
func (ev *rangeEval) tri(t *Term) int {
	switch t.Op {
	case OpConst:
		if t.Sort.K == KBool {
			return int(t.C)
		}
	case OpNot:
		if v := ev.tri(t.Args[0]); v >= 0 {
			return 1 - v
		}
	case OpAnd:
		all := 1
		for _, a := range t.Args {
			switch ev.tri(a) {
			case 0:
				return 0
			case -1:
				all = -1
			}
		}
		return all
	case OpOr:
		any := 0
		for _, a := range t.Args {
			switch ev.tri(a) {
			case 1:
				return 1
			case -1:
				any = -1
			}
		}
		return any
	case OpBVUle, OpBVUlt, OpBVSle, OpBVSlt:
		a, b := ev.rng(t.Args[0]), ev.rng(t.Args[1])
		if t.Op == OpBVSle || t.Op == OpBVSlt {
			sign := uint64(1) << uint(t.Args[0].Sort.W-1)
			if a.hi >= sign || b.hi >= sign {
				return -1
			}
		}
		strict := t.Op == OpBVUlt || t.Op == OpBVSlt
		if strict {
			if a.hi < b.lo {
				return 1
			}
			if a.lo >= b.hi {
				return 0
			}
		} else {
			if a.hi <= b.lo {
				return 1
			}
			if a.lo > b.hi {
				return 0
			}
		}
	case OpEq:
		if t.Args[0].Sort.K == KBV {
			a, b := ev.rng(t.Args[0]), ev.rng(t.Args[1])
			if a.hi < b.lo || b.hi < a.lo {
				return 0
			}
			if a.lo == a.hi && b.lo == b.hi && a.lo == b.lo {
				return 1
			}
		}
	}
	return -1
}

// quickDecide evaluates cond under the state's recorded ranges.
func (e *Engine) quickDecide(st *State, cond *Term) int {
	if len(st.ranges) == 0 {
		return -1
	}
	ev := &rangeEval{st: st, memo: map[*Term]urange{}}
	return ev.tri(cond)
}
