package gosym

import (
	"go/token"
)

func (e *Engine) rtypeMethod(st *State, fr *Frame, t RType, name string, args []Value, pos token.Pos) []exit {
	panic(unsupported("reflect.Type." + name))
}
