package gosym

// reflect modelled on the engine's typed values (DESIGN 4.2).

import (
	"fmt"
	"go/token"
	"go/types"
	"reflect"

	"golang.org/x/tools/go/ssa"
)

func (e *Engine) rtypeIface(t types.Type) Value {
	return IfaceV{T: e.rtypeMarker(), V: RType{T: t}}
}

var rtypeMarkerT types.Type

func (e *Engine) rtypeMarker() types.Type {
	if rtypeMarkerT == nil {
		if p := e.prog.ImportedPackage("reflect"); p != nil {
			if o := p.Pkg.Scope().Lookup("rtype"); o != nil {
				rtypeMarkerT = types.NewPointer(o.Type())
			}
		}
		if rtypeMarkerT == nil {
			rtypeMarkerT = types.Typ[types.UnsafePointer]
		}
	}
	return rtypeMarkerT
}

func kindOf(t types.Type) reflect.Kind {
	switch u := t.Underlying().(type) {
	case *types.Basic:
		switch u.Kind() {
		case types.Bool:
			return reflect.Bool
		case types.Int:
			return reflect.Int
		case types.Int8:
			return reflect.Int8
		case types.Int16:
			return reflect.Int16
		case types.Int32:
			return reflect.Int32
		case types.Int64:
			return reflect.Int64
		case types.Uint:
			return reflect.Uint
		case types.Uint8:
			return reflect.Uint8
		case types.Uint16:
			return reflect.Uint16
		case types.Uint32:
			return reflect.Uint32
		case types.Uint64:
			return reflect.Uint64
		case types.Uintptr:
			return reflect.Uintptr
		case types.Float32:
			return reflect.Float32
		case types.Float64:
			return reflect.Float64
		case types.String:
			return reflect.String
		case types.UnsafePointer:
			return reflect.UnsafePointer
		}
	case *types.Array:
		return reflect.Array
	case *types.Chan:
		return reflect.Chan
	case *types.Signature:
		return reflect.Func
	case *types.Interface:
		return reflect.Interface
	case *types.Map:
		return reflect.Map
	case *types.Pointer:
		return reflect.Ptr
	case *types.Slice:
		return reflect.Slice
	case *types.Struct:
		return reflect.Struct
	}
	return reflect.Invalid
}

func (e *Engine) rvGet(st *State, v RVal) Value {
	if v.Ref != nil {
		return e.load(st, *v.Ref)
	}
	return v.V
}

func (e *Engine) reflectPanic(st *State, msg string, pos token.Pos) []exit {
	e.reportPanic(st, e.tc.True, "reflect: "+msg, pos)
	return []exit{{st: st, kind: exitPanic, pmsg: "reflect: " + msg}}
}

type boundMethod struct {
	Fn   *ssa.Function
	Recv Value
}

func (e *Engine) rvalsSlice(st *State, vs []Value) Value {
	return e.newSlice(st, vs, len(vs), RVal{})
}

func (e *Engine) structFieldValue(st *State, t *types.Struct, i int) Value {
	f := t.Field(i)
	pkgPath := ""
	if !f.Exported() && f.Pkg() != nil {
		pkgPath = f.Pkg().Path()
	}
	idx := e.newSlice(st, []Value{e.tc.BV(uint64(i), 64)}, 1, e.tc.BV(0, 64))
	// reflect.StructField{Name, PkgPath, Type, Tag, Offset, Index, Anonymous}
	return StructV{F: []Value{
		e.strConst(f.Name()),
		e.strConst(pkgPath),
		e.rtypeIface(f.Type()),
		e.strConst(t.Tag(i)),
		e.tc.BV(0, 64),
		idx,
		e.tc.Bool(f.Embedded()),
	}}
}

func (e *Engine) rtypeMethod(st *State, fr *Frame, t RType, name string, args []Value, pos token.Pos) []exit {
	c := e.tc
	switch name {
	case "Kind":
		return retExit(st, c.BV(uint64(kindOf(t.T)), 64))
	case "Elem":
		switch u := t.T.Underlying().(type) {
		case *types.Pointer:
			return retExit(st, e.rtypeIface(u.Elem()))
		case *types.Slice:
			return retExit(st, e.rtypeIface(u.Elem()))
		case *types.Array:
			return retExit(st, e.rtypeIface(u.Elem()))
		case *types.Map:
			return retExit(st, e.rtypeIface(u.Elem()))
		}
		return e.reflectPanic(st, "Elem of invalid type "+t.T.String(), pos)
	case "NumField":
		s, ok := t.T.Underlying().(*types.Struct)
		if !ok {
			return e.reflectPanic(st, "NumField of non-struct type", pos)
		}
		return retExit(st, c.BV(uint64(s.NumFields()), 64))
	case "Field":
		s, ok := t.T.Underlying().(*types.Struct)
		if !ok {
			return e.reflectPanic(st, "Field of non-struct type", pos)
		}
		i := concreteInt(args[0], "reflect.Type.Field index")
		if i < 0 || i >= s.NumFields() {
			return e.reflectPanic(st, "Field index out of bounds", pos)
		}
		return retExit(st, e.structFieldValue(st, s, i))
	case "String", "Name":
		return retExit(st, e.strConst(types.TypeString(t.T, func(p *types.Package) string { return p.Name() })))
	}
	panic(unsupported("reflect.Type." + name))
}

func rv(args []Value) RVal {
	v, ok := args[0].(RVal)
	if !ok {
		panic(unsupported(fmt.Sprintf("reflect.Value receiver is %T", args[0])))
	}
	return v
}

func init() {
	type sf = func(e *Engine, st *State, fr *Frame, fn *ssa.Function, args []Value, pos token.Pos) []exit
	stubs["reflect.TypeOf"] = func(e *Engine, st *State, fr *Frame, fn *ssa.Function, args []Value, pos token.Pos) []exit {
		iv := args[0].(IfaceV)
		if iv.T == nil {
			return retExit(st, IfaceV{})
		}
		return retExit(st, e.rtypeIface(iv.T))
	}
	stubs["reflect.ValueOf"] = func(e *Engine, st *State, fr *Frame, fn *ssa.Function, args []Value, pos token.Pos) []exit {
		iv := args[0].(IfaceV)
		if iv.T == nil {
			return retExit(st, RVal{})
		}
		return retExit(st, RVal{T: iv.T, V: iv.V, Valid: true})
	}
	elem := func(e *Engine, st *State, v RVal, pos token.Pos) ([]exit, RVal, bool) {
		switch kindOf(v.T) {
		case reflect.Ptr:
			p, ok := e.rvGet(st, v).(PtrV)
			if !ok {
				panic(unsupported(fmt.Sprintf("reflect Elem of pointer represented as %T", e.rvGet(st, v))))
			}
			if p.IsNil() {
				return nil, RVal{}, true
			}
			if p.NilIf != nil {
				panic(unsupported("reflect Elem of a pointer whose nil-ness is symbolic"))
			}
			et := v.T.Underlying().(*types.Pointer).Elem()
			pp := p
			return nil, RVal{T: et, Ref: &pp, Valid: true, RO: v.RO}, true
		case reflect.Interface:
			iv := e.rvGet(st, v).(IfaceV)
			if iv.T == nil {
				return nil, RVal{}, true
			}
			return nil, RVal{T: iv.T, V: iv.V, Valid: true, RO: v.RO}, true
		}
		return e.reflectPanic(st, "call of reflect.Value.Elem on "+kindOf(v.T).String()+" Value", pos), RVal{}, false
	}
	stubs["reflect.Indirect"] = func(e *Engine, st *State, fr *Frame, fn *ssa.Function, args []Value, pos token.Pos) []exit {
		v := rv(args)
		if !v.Valid || kindOf(v.T) != reflect.Ptr {
			return retExit(st, v)
		}
		ex, r, ok := elem(e, st, v, pos)
		if !ok {
			return ex
		}
		return retExit(st, r)
	}
	stubs["(reflect.Value).Elem"] = func(e *Engine, st *State, fr *Frame, fn *ssa.Function, args []Value, pos token.Pos) []exit {
		v := rv(args)
		if !v.Valid {
			return e.reflectPanic(st, "call of reflect.Value.Elem on zero Value", pos)
		}
		ex, r, ok := elem(e, st, v, pos)
		if !ok {
			return ex
		}
		return retExit(st, r)
	}
	stubs["reflect.New"] = func(e *Engine, st *State, fr *Frame, fn *ssa.Function, args []Value, pos token.Pos) []exit {
		t := args[0].(IfaceV).V.(RType).T
		id := e.alloc(st, e.zero(t))
		return retExit(st, RVal{T: types.NewPointer(t), V: PtrV{Obj: id}, Valid: true})
	}
	stubs["reflect.SliceOf"] = func(e *Engine, st *State, fr *Frame, fn *ssa.Function, args []Value, pos token.Pos) []exit {
		t := args[0].(IfaceV).V.(RType).T
		return retExit(st, e.rtypeIface(types.NewSlice(t)))
	}
	stubs["reflect.MakeSlice"] = func(e *Engine, st *State, fr *Frame, fn *ssa.Function, args []Value, pos token.Pos) []exit {
		t := args[0].(IfaceV).V.(RType).T
		n, cp := concreteInt(args[1], "MakeSlice len"), concreteInt(args[2], "MakeSlice cap")
		et := t.Underlying().(*types.Slice).Elem()
		el := make([]Value, n)
		z := e.zero(et)
		for i := range el {
			el[i] = z
		}
		return retExit(st, RVal{T: t, V: e.newSlice(st, el, cp, z), Valid: true})
	}
	stubs["reflect.Append"] = func(e *Engine, st *State, fr *Frame, fn *ssa.Function, args []Value, pos token.Pos) []exit {
		s := rv(args)
		more := e.variadic(st, args[1])
		var add []Value
		for _, m := range more {
			add = append(add, e.rvGet(st, m.(RVal)))
		}
		sl := e.rvGet(st, s).(SliceV)
		et := s.T.Underlying().(*types.Slice).Elem()
		tmp := e.newSlice(st, add, len(add), e.zero(et))
		res := e.appendOp(st, sl, tmp, nil)
		return retExit(st, RVal{T: s.T, V: res, Valid: true})
	}
	stubs["(reflect.Value).Kind"] = func(e *Engine, st *State, fr *Frame, fn *ssa.Function, args []Value, pos token.Pos) []exit {
		v := rv(args)
		if !v.Valid {
			return retExit(st, e.tc.BV(0, 64))
		}
		return retExit(st, e.tc.BV(uint64(kindOf(v.T)), 64))
	}
	stubs["(reflect.Value).IsValid"] = func(e *Engine, st *State, fr *Frame, fn *ssa.Function, args []Value, pos token.Pos) []exit {
		return retExit(st, e.tc.Bool(rv(args).Valid))
	}
	stubs["(reflect.Value).Type"] = func(e *Engine, st *State, fr *Frame, fn *ssa.Function, args []Value, pos token.Pos) []exit {
		v := rv(args)
		if !v.Valid {
			return e.reflectPanic(st, "call of reflect.Value.Type on zero Value", pos)
		}
		return retExit(st, e.rtypeIface(v.T))
	}
	stubs["(reflect.Value).NumField"] = func(e *Engine, st *State, fr *Frame, fn *ssa.Function, args []Value, pos token.Pos) []exit {
		v := rv(args)
		s, ok := v.T.Underlying().(*types.Struct)
		if !v.Valid || !ok {
			return e.reflectPanic(st, "call of reflect.Value.NumField on non-struct Value", pos)
		}
		return retExit(st, e.tc.BV(uint64(s.NumFields()), 64))
	}
	stubs["(reflect.Value).Field"] = func(e *Engine, st *State, fr *Frame, fn *ssa.Function, args []Value, pos token.Pos) []exit {
		v := rv(args)
		s, ok := v.T.Underlying().(*types.Struct)
		if !v.Valid || !ok {
			return e.reflectPanic(st, "call of reflect.Value.Field on non-struct Value", pos)
		}
		i := concreteInt(args[1], "reflect.Value.Field index")
		if i < 0 || i >= s.NumFields() {
			return e.reflectPanic(st, "Field index out of range", pos)
		}
		f := s.Field(i)
		ro := v.RO || !f.Exported()
		if e.isTimeType(v.T) {
			panic(unsupported("reflection into time.Time"))
		}
		if v.Ref != nil {
			p := PtrV{Obj: v.Ref.Obj, Path: appendPath(v.Ref.Path, PathElem{I: i})}
			return retExit(st, RVal{T: f.Type(), Ref: &p, Valid: true, RO: ro})
		}
		return retExit(st, RVal{T: f.Type(), V: v.V.(StructV).F[i], Valid: true, RO: ro})
	}
	stubs["(reflect.Value).CanSet"] = func(e *Engine, st *State, fr *Frame, fn *ssa.Function, args []Value, pos token.Pos) []exit {
		v := rv(args)
		return retExit(st, e.tc.Bool(v.Valid && v.Ref != nil && !v.RO))
	}
	stubs["(reflect.Value).CanAddr"] = func(e *Engine, st *State, fr *Frame, fn *ssa.Function, args []Value, pos token.Pos) []exit {
		v := rv(args)
		return retExit(st, e.tc.Bool(v.Valid && v.Ref != nil))
	}
	stubs["(reflect.Value).CanInterface"] = func(e *Engine, st *State, fr *Frame, fn *ssa.Function, args []Value, pos token.Pos) []exit {
		v := rv(args)
		return retExit(st, e.tc.Bool(v.Valid && !v.RO))
	}
	stubs["(reflect.Value).Addr"] = func(e *Engine, st *State, fr *Frame, fn *ssa.Function, args []Value, pos token.Pos) []exit {
		v := rv(args)
		if !v.Valid || v.Ref == nil {
			return e.reflectPanic(st, "reflect.Value.Addr of unaddressable value", pos)
		}
		return retExit(st, RVal{T: types.NewPointer(v.T), V: *v.Ref, Valid: true, RO: v.RO})
	}
	stubs["(reflect.Value).Interface"] = func(e *Engine, st *State, fr *Frame, fn *ssa.Function, args []Value, pos token.Pos) []exit {
		v := rv(args)
		if !v.Valid {
			return e.reflectPanic(st, "call of reflect.Value.Interface on zero Value", pos)
		}
		if v.RO {
			return e.reflectPanic(st, "reflect.Value.Interface: cannot return value obtained from unexported field or method", pos)
		}
		val := e.rvGet(st, v)
		if _, isI := v.T.Underlying().(*types.Interface); isI {
			return retExit(st, val)
		}
		return retExit(st, IfaceV{T: v.T, V: val})
	}
	stubs["(reflect.Value).IsNil"] = func(e *Engine, st *State, fr *Frame, fn *ssa.Function, args []Value, pos token.Pos) []exit {
		v := rv(args)
		if !v.Valid {
			return e.reflectPanic(st, "call of reflect.Value.IsNil on zero Value", pos)
		}
		switch x := e.rvGet(st, v).(type) {
		case PtrV:
			return retExit(st, e.ptrNilTerm(x))
		case LocV:
			return retExit(st, e.tc.Bool(x.Kind == 0))
		case SliceV:
			return retExit(st, e.tc.Bool(x.Nil))
		case MapV:
			return retExit(st, e.tc.Bool(x.Obj == 0))
		case IfaceV:
			return retExit(st, e.tc.Bool(x.T == nil))
		case FuncV:
			return retExit(st, e.tc.Bool(x.IsNil()))
		case ChanV:
			return retExit(st, e.tc.Bool(x.Obj == 0))
		}
		return e.reflectPanic(st, "call of reflect.Value.IsNil on "+kindOf(v.T).String()+" Value", pos)
	}
	stubs["(reflect.Value).IsZero"] = func(e *Engine, st *State, fr *Frame, fn *ssa.Function, args []Value, pos token.Pos) []exit {
		v := rv(args)
		val := e.rvGet(st, v)
		return retExit(st, e.eqVal(val, e.zero(v.T)))
	}
	stubs["(reflect.Value).Uint"] = func(e *Engine, st *State, fr *Frame, fn *ssa.Function, args []Value, pos token.Pos) []exit {
		v := rv(args)
		k := kindOf(v.T)
		if !v.Valid || k < reflect.Uint || k > reflect.Uintptr {
			return e.reflectPanic(st, "call of reflect.Value.Uint on "+k.String()+" Value", pos)
		}
		return retExit(st, e.tc.Resize(e.rvGet(st, v).(*Term), 64, false))
	}
	stubs["(reflect.Value).Int"] = func(e *Engine, st *State, fr *Frame, fn *ssa.Function, args []Value, pos token.Pos) []exit {
		v := rv(args)
		k := kindOf(v.T)
		if !v.Valid || k < reflect.Int || k > reflect.Int64 {
			return e.reflectPanic(st, "call of reflect.Value.Int on "+k.String()+" Value", pos)
		}
		return retExit(st, e.tc.Resize(e.rvGet(st, v).(*Term), 64, true))
	}
	stubs["(reflect.Value).Bool"] = func(e *Engine, st *State, fr *Frame, fn *ssa.Function, args []Value, pos token.Pos) []exit {
		v := rv(args)
		if !v.Valid || kindOf(v.T) != reflect.Bool {
			return e.reflectPanic(st, "call of reflect.Value.Bool on non-bool Value", pos)
		}
		return retExit(st, e.rvGet(st, v))
	}
	stubs["(reflect.Value).Len"] = func(e *Engine, st *State, fr *Frame, fn *ssa.Function, args []Value, pos token.Pos) []exit {
		v := rv(args)
		switch x := e.rvGet(st, v).(type) {
		case SliceV:
			return retExit(st, x.Len)
		case StrV:
			return retExit(st, e.tc.BV(uint64(len(x.B)), 64))
		case ArrayV:
			return retExit(st, e.tc.BV(uint64(len(x.E)), 64))
		case MapV:
			return retExit(st, e.mapLen(st, x))
		}
		return e.reflectPanic(st, "call of reflect.Value.Len on "+kindOf(v.T).String()+" Value", pos)
	}
	stubs["(reflect.Value).Bytes"] = func(e *Engine, st *State, fr *Frame, fn *ssa.Function, args []Value, pos token.Pos) []exit {
		v := rv(args)
		if !v.Valid {
			return e.reflectPanic(st, "call of reflect.Value.Bytes on zero Value", pos)
		}
		sl, ok := e.rvGet(st, v).(SliceV)
		if !ok {
			return e.reflectPanic(st, "reflect.Value.Bytes of non-byte slice", pos)
		}
		if u, ok := v.T.Underlying().(*types.Slice); !ok || kindOf(u.Elem()) != reflect.Uint8 {
			return e.reflectPanic(st, "reflect.Value.Bytes of non-byte slice", pos)
		}
		return retExit(st, sl)
	}
	setCheck := func(e *Engine, st *State, v RVal, what string, pos token.Pos) []exit {
		if !v.Valid {
			return e.reflectPanic(st, "call of reflect.Value."+what+" on zero Value", pos)
		}
		if v.Ref == nil {
			return e.reflectPanic(st, "reflect.Value."+what+" using unaddressable value", pos)
		}
		if v.RO {
			return e.reflectPanic(st, "reflect.Value."+what+" using value obtained using unexported field", pos)
		}
		return nil
	}
	stubs["(reflect.Value).Set"] = func(e *Engine, st *State, fr *Frame, fn *ssa.Function, args []Value, pos token.Pos) []exit {
		v := rv(args)
		x := args[1].(RVal)
		if ex := setCheck(e, st, v, "Set", pos); ex != nil {
			return ex
		}
		if !x.Valid {
			return e.reflectPanic(st, "call of reflect.Value.Set on zero Value", pos)
		}
		if x.RO {
			return e.reflectPanic(st, "reflect.Value.Set using value obtained using unexported field", pos)
		}
		val := e.rvGet(st, x)
		if _, isI := v.T.Underlying().(*types.Interface); isI {
			if _, srcI := x.T.Underlying().(*types.Interface); !srcI {
				val = IfaceV{T: x.T, V: val}
			}
		} else if !types.AssignableTo(x.T, v.T) {
			return e.reflectPanic(st, fmt.Sprintf("reflect.Set: value of type %s is not assignable to type %s", x.T, v.T), pos)
		}
		e.store(st, *v.Ref, val)
		return retExit(st, nil)
	}
	stubs["(reflect.Value).SetUint"] = func(e *Engine, st *State, fr *Frame, fn *ssa.Function, args []Value, pos token.Pos) []exit {
		v := rv(args)
		if ex := setCheck(e, st, v, "SetUint", pos); ex != nil {
			return ex
		}
		k := kindOf(v.T)
		if k < reflect.Uint || k > reflect.Uintptr {
			return e.reflectPanic(st, "reflect.Value.SetUint of "+k.String()+" Value", pos)
		}
		w, _ := intWidth(v.T.Underlying().(*types.Basic))
		e.store(st, *v.Ref, e.tc.Resize(args[1].(*Term), w, false))
		return retExit(st, nil)
	}
	stubs["(reflect.Value).SetInt"] = func(e *Engine, st *State, fr *Frame, fn *ssa.Function, args []Value, pos token.Pos) []exit {
		v := rv(args)
		if ex := setCheck(e, st, v, "SetInt", pos); ex != nil {
			return ex
		}
		k := kindOf(v.T)
		if k < reflect.Int || k > reflect.Int64 {
			return e.reflectPanic(st, "reflect.Value.SetInt of "+k.String()+" Value", pos)
		}
		w, _ := intWidth(v.T.Underlying().(*types.Basic))
		e.store(st, *v.Ref, e.tc.Resize(args[1].(*Term), w, true))
		return retExit(st, nil)
	}
	stubs["(reflect.Value).SetBool"] = func(e *Engine, st *State, fr *Frame, fn *ssa.Function, args []Value, pos token.Pos) []exit {
		v := rv(args)
		if ex := setCheck(e, st, v, "SetBool", pos); ex != nil {
			return ex
		}
		if kindOf(v.T) != reflect.Bool {
			return e.reflectPanic(st, "reflect.Value.SetBool of non-bool Value", pos)
		}
		e.store(st, *v.Ref, args[1])
		return retExit(st, nil)
	}
	stubs["(reflect.Value).SetBytes"] = func(e *Engine, st *State, fr *Frame, fn *ssa.Function, args []Value, pos token.Pos) []exit {
		v := rv(args)
		if ex := setCheck(e, st, v, "SetBytes", pos); ex != nil {
			return ex
		}
		if u, ok := v.T.Underlying().(*types.Slice); !ok || kindOf(u.Elem()) != reflect.Uint8 {
			return e.reflectPanic(st, "reflect.Value.SetBytes of non-byte slice", pos)
		}
		e.store(st, *v.Ref, args[1])
		return retExit(st, nil)
	}
	stubs["(reflect.Value).SetString"] = func(e *Engine, st *State, fr *Frame, fn *ssa.Function, args []Value, pos token.Pos) []exit {
		v := rv(args)
		if ex := setCheck(e, st, v, "SetString", pos); ex != nil {
			return ex
		}
		e.store(st, *v.Ref, args[1])
		return retExit(st, nil)
	}
	stubs["(reflect.Value).MethodByName"] = func(e *Engine, st *State, fr *Frame, fn *ssa.Function, args []Value, pos token.Pos) []exit {
		v := rv(args)
		name := concreteString(args[1], "MethodByName")
		if !v.Valid {
			return e.reflectPanic(st, "call of reflect.Value.MethodByName on zero Value", pos)
		}
		ms := e.prog.MethodSets.MethodSet(v.T)
		sel := ms.Lookup(nil, name)
		if sel == nil || !token.IsExported(name) {
			return retExit(st, RVal{})
		}
		m := e.prog.MethodValue(sel)
		if m == nil {
			panic(unsupported("MethodByName on interface type"))
		}
		return retExit(st, RVal{T: sel.Type(), V: boundMethod{Fn: m, Recv: e.rvGet(st, v)}, Valid: true})
	}
	stubs["(reflect.Value).Call"] = func(e *Engine, st *State, fr *Frame, fn *ssa.Function, args []Value, pos token.Pos) []exit {
		v := rv(args)
		if !v.Valid {
			return e.reflectPanic(st, "call of reflect.Value.Call on zero Value", pos)
		}
		bm, ok := v.V.(boundMethod)
		if !ok {
			panic(unsupported("reflect.Value.Call on a non-method value"))
		}
		in := e.variadic(st, args[1])
		call := []Value{bm.Recv}
		for _, a := range in {
			call = append(call, e.rvGet(st, a.(RVal)))
		}
		res := e.callFunction(st, fr, bm.Fn, call, nil, pos)
		sig := bm.Fn.Signature.Results()
		var out []exit
		for _, r := range res {
			if r.kind == exitPanic {
				out = append(out, r)
				continue
			}
			var vals []Value
			switch sig.Len() {
			case 0:
			case 1:
				vals = []Value{RVal{T: sig.At(0).Type(), V: r.val, Valid: true}}
			default:
				for i, x := range r.val.(TupleV) {
					vals = append(vals, RVal{T: sig.At(i).Type(), V: x, Valid: true})
				}
			}
			out = append(out, exit{st: r.st, kind: exitReturn, val: e.rvalsSlice(r.st, vals)})
		}
		return out
	}
	stubs["(reflect.StructTag).Get"] = func(e *Engine, st *State, fr *Frame, fn *ssa.Function, args []Value, pos token.Pos) []exit {
		tag := concreteString(args[0], "StructTag")
		key := concreteString(args[1], "StructTag key")
		return retExit(st, e.strConst(reflect.StructTag(tag).Get(key)))
	}
	stubs["(reflect.StructTag).Lookup"] = func(e *Engine, st *State, fr *Frame, fn *ssa.Function, args []Value, pos token.Pos) []exit {
		tag := concreteString(args[0], "StructTag")
		key := concreteString(args[1], "StructTag key")
		v, ok := reflect.StructTag(tag).Lookup(key)
		return retExit(st, TupleV{e.strConst(v), e.tc.Bool(ok)})
	}
	stubs["(reflect.Kind).String"] = func(e *Engine, st *State, fr *Frame, fn *ssa.Function, args []Value, pos token.Pos) []exit {
		if t, ok := isConstTerm(args[0]); ok {
			return retExit(st, e.strConst(reflect.Kind(t.C).String()))
		}
		return retExit(st, StrV{Opaque: true, Note: "kind"})
	}
	_ = sf(nil)
}

func init() {
	// reflect.StructOf: struct types built at run time become go/types structs
	stubs["reflect.StructOf"] = func(e *Engine, st *State, fr *Frame, fn *ssa.Function, args []Value, pos token.Pos) []exit {
		fields := e.sliceElems(st, args[0].(SliceV))
		var vars []*types.Var
		var tags []string
		for _, f := range fields {
			sf := f.(StructV)
			name := concreteString(sf.F[0], "StructField.Name")
			ti, ok := sf.F[2].(IfaceV)
			if !ok || ti.T == nil {
				return e.reflectPanic(st, "StructOf: field has no type", pos)
			}
			ft := ti.V.(RType).T
			tag := concreteString(sf.F[3], "StructField.Tag")
			anon, _ := isConstTerm(sf.F[6])
			if name == "" || !token.IsExported(name) {
				return e.reflectPanic(st, "StructOf: field \""+name+"\" is unexported but missing PkgPath", pos)
			}
			vars = append(vars, types.NewField(token.NoPos, nil, name, ft, anon != nil && anon.C == 1))
			tags = append(tags, tag)
		}
		return retExit(st, e.rtypeIface(types.NewStruct(vars, tags)))
	}
	stubs["reflect.PointerTo"] = func(e *Engine, st *State, fr *Frame, fn *ssa.Function, args []Value, pos token.Pos) []exit {
		return retExit(st, e.rtypeIface(types.NewPointer(args[0].(IfaceV).V.(RType).T)))
	}
	stubs["reflect.PtrTo"] = stubs["reflect.PointerTo"]
	stubs["reflect.Zero"] = func(e *Engine, st *State, fr *Frame, fn *ssa.Function, args []Value, pos token.Pos) []exit {
		t := args[0].(IfaceV).V.(RType).T
		return retExit(st, RVal{T: t, V: e.zero(t), Valid: true})
	}
}
