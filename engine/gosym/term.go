package gosym

// SMT terms: hash-consed DAG with constant folding and light algebraic
// simplification.  Sorts: Bool, (_ BitVec n) for n <= 64, Int.

import (
	"fmt"
	"math/bits"
	"sort"
	"strconv"
	"strings"
)

type SortKind uint8

const (
	KBool SortKind = iota
	KBV
	KInt
)

type Sort struct {
	K SortKind
	W int
}

var SBool = Sort{KBool, 0}
var SInt = Sort{KInt, 0}

func SBV(w int) Sort { return Sort{KBV, w} }

func (s Sort) String() string {
	switch s.K {
	case KBool:
		return "Bool"
	case KInt:
		return "Int"
	}
	return fmt.Sprintf("(_ BitVec %d)", s.W)
}

type Op uint8

const (
	OpConst Op = iota
	OpVar
	OpNot
	OpAnd
	OpOr
	OpIte
	OpEq
	OpBVAdd
	OpBVSub
	OpBVMul
	OpBVUDiv
	OpBVURem
	OpBVSDiv
	OpBVSRem
	OpBVAnd
	OpBVOr
	OpBVXor
	OpBVNot
	OpBVNeg
	OpBVShl
	OpBVLshr
	OpBVAshr
	OpBVUlt
	OpBVUle
	OpBVSlt
	OpBVSle
	OpConcat
	OpExtract
	OpZeroExt
	OpSignExt
	OpIntAdd
	OpIntSub
	OpIntMul
	OpIntLt
	OpIntLe
	OpIntNeg
	OpBV2Int
	OpInt2BV
	OpApp
)

var opNames = map[Op]string{
	OpNot: "not", OpAnd: "and", OpOr: "or", OpIte: "ite", OpEq: "=",
	OpBVAdd: "bvadd", OpBVSub: "bvsub", OpBVMul: "bvmul", OpBVUDiv: "bvudiv", OpBVURem: "bvurem",
	OpBVSDiv: "bvsdiv", OpBVSRem: "bvsrem", OpBVAnd: "bvand", OpBVOr: "bvor", OpBVXor: "bvxor",
	OpBVNot: "bvnot", OpBVNeg: "bvneg", OpBVShl: "bvshl", OpBVLshr: "bvlshr", OpBVAshr: "bvashr",
	OpBVUlt: "bvult", OpBVUle: "bvule", OpBVSlt: "bvslt", OpBVSle: "bvsle", OpConcat: "concat",
	OpIntAdd: "+", OpIntSub: "-", OpIntMul: "*", OpIntLt: "<", OpIntLe: "<=", OpIntNeg: "-",
	OpBV2Int: "bv2nat",
}

type Term struct {
	Op   Op
	Sort Sort
	Args []*Term
	C    uint64 // constant (BV: value masked to width; Bool: 0/1; Int: int64 bits)
	Name string // OpVar / OpApp
	Hi   int    // OpExtract hi / OpZeroExt,OpSignExt extra bits / OpInt2BV width
	Lo   int
	id   uint32
}

func (t *Term) ID() uint32 { return t.id }

// TermCtx owns the hash-consing table.  One per harness run (not shared
// between goroutines).
type TermCtx struct {
	tab    map[string]*Term
	nextID uint32
	vars   []*Term            // declaration order
	funs   map[string]funDecl // uninterpreted functions
	funOrd []string
	fresh  int
	True   *Term
	False  *Term
	// statistics
	NFolded int // operations folded to constants at build time
	NBuilt  int // nodes created
}

type funDecl struct {
	args []Sort
	ret  Sort
}

func NewTermCtx() *TermCtx {
	c := &TermCtx{tab: map[string]*Term{}, funs: map[string]funDecl{}}
	c.True = c.mk(&Term{Op: OpConst, Sort: SBool, C: 1})
	c.False = c.mk(&Term{Op: OpConst, Sort: SBool, C: 0})
	return c
}

func (c *TermCtx) key(t *Term) string {
	var b strings.Builder
	b.WriteString(strconv.Itoa(int(t.Op)))
	b.WriteByte('|')
	b.WriteString(strconv.Itoa(int(t.Sort.K)))
	b.WriteByte(':')
	b.WriteString(strconv.Itoa(t.Sort.W))
	switch t.Op {
	case OpConst:
		b.WriteByte('|')
		b.WriteString(strconv.FormatUint(t.C, 16))
	case OpVar, OpApp:
		b.WriteByte('|')
		b.WriteString(t.Name)
	case OpExtract, OpZeroExt, OpSignExt, OpInt2BV:
		b.WriteByte('|')
		b.WriteString(strconv.Itoa(t.Hi))
		b.WriteByte(',')
		b.WriteString(strconv.Itoa(t.Lo))
	}
	for _, a := range t.Args {
		b.WriteByte(' ')
		b.WriteString(strconv.FormatUint(uint64(a.id), 36))
	}
	return b.String()
}

func (c *TermCtx) mk(t *Term) *Term {
	k := c.key(t)
	if x, ok := c.tab[k]; ok {
		return x
	}
	c.nextID++
	t.id = c.nextID
	c.tab[k] = t
	c.NBuilt++
	if t.Op == OpVar {
		c.vars = append(c.vars, t)
	}
	return t
}

func mask(w int) uint64 {
	if w >= 64 {
		return ^uint64(0)
	}
	return (uint64(1) << uint(w)) - 1
}

func (t *Term) IsConst() bool { return t.Op == OpConst }
func (t *Term) IsTrue() bool  { return t.Op == OpConst && t.Sort.K == KBool && t.C == 1 }
func (t *Term) IsFalse() bool { return t.Op == OpConst && t.Sort.K == KBool && t.C == 0 }

// Signed value of a BV constant.
func (t *Term) SVal() int64 {
	if t.Sort.K == KInt {
		return int64(t.C)
	}
	w := t.Sort.W
	v := t.C
	if w < 64 && v&(uint64(1)<<uint(w-1)) != 0 {
		v |= ^mask(w)
	}
	return int64(v)
}

func (c *TermCtx) Bool(b bool) *Term {
	if b {
		return c.True
	}
	return c.False
}

func (c *TermCtx) BV(v uint64, w int) *Term {
	return c.mk(&Term{Op: OpConst, Sort: SBV(w), C: v & mask(w)})
}

func (c *TermCtx) Int(v int64) *Term {
	return c.mk(&Term{Op: OpConst, Sort: SInt, C: uint64(v)})
}

func (c *TermCtx) Var(name string, s Sort) *Term {
	return c.mk(&Term{Op: OpVar, Sort: s, Name: name})
}

func (c *TermCtx) Fresh(prefix string, s Sort) *Term {
	c.fresh++
	return c.Var(fmt.Sprintf("%s!%d", prefix, c.fresh), s)
}

func (c *TermCtx) App(name string, ret Sort, args ...*Term) *Term {
	if _, ok := c.funs[name]; !ok {
		d := funDecl{ret: ret}
		for _, a := range args {
			d.args = append(d.args, a.Sort)
		}
		c.funs[name] = d
		c.funOrd = append(c.funOrd, name)
	}
	return c.mk(&Term{Op: OpApp, Sort: ret, Name: name, Args: args})
}

// ---------------------------------------------------------------- Bool

func (c *TermCtx) Not(a *Term) *Term {
	if a.Sort.K != KBool {
		panic("Not: non-bool")
	}
	if a.IsConst() {
		c.NFolded++
		return c.Bool(a.C == 0)
	}
	if a.Op == OpNot {
		return a.Args[0]
	}
	return c.mk(&Term{Op: OpNot, Sort: SBool, Args: []*Term{a}})
}

func (c *TermCtx) And(xs ...*Term) *Term {
	var out []*Term
	seen := map[uint32]bool{}
	var add func(x *Term) bool
	add = func(x *Term) bool {
		if x.Sort.K != KBool {
			panic("And: non-bool")
		}
		if x.IsTrue() {
			return true
		}
		if x.IsFalse() {
			return false
		}
		if x.Op == OpAnd {
			for _, y := range x.Args {
				if !add(y) {
					return false
				}
			}
			return true
		}
		if seen[x.id] {
			return true
		}
		seen[x.id] = true
		out = append(out, x)
		return true
	}
	for _, x := range xs {
		if !add(x) {
			return c.False
		}
	}
	for _, x := range out {
		if x.Op == OpNot && seen[x.Args[0].id] {
			return c.False
		}
	}
	switch len(out) {
	case 0:
		return c.True
	case 1:
		return out[0]
	}
	sort.Slice(out, func(i, j int) bool { return out[i].id < out[j].id })
	return c.mk(&Term{Op: OpAnd, Sort: SBool, Args: out})
}

func (c *TermCtx) Or(xs ...*Term) *Term {
	var out []*Term
	seen := map[uint32]bool{}
	var add func(x *Term) bool
	add = func(x *Term) bool {
		if x.Sort.K != KBool {
			panic("Or: non-bool")
		}
		if x.IsFalse() {
			return true
		}
		if x.IsTrue() {
			return false
		}
		if x.Op == OpOr {
			for _, y := range x.Args {
				if !add(y) {
					return false
				}
			}
			return true
		}
		if seen[x.id] {
			return true
		}
		seen[x.id] = true
		out = append(out, x)
		return true
	}
	for _, x := range xs {
		if !add(x) {
			return c.True
		}
	}
	for _, x := range out {
		if x.Op == OpNot && seen[x.Args[0].id] {
			return c.True
		}
	}
	// absorption: or(a, and(not a, b)) = or(a, b); or(not a, and(a, b)) = or(not a, b)
	if len(out) > 1 {
		changed := false
		for i, x := range out {
			if x.Op != OpAnd {
				continue
			}
			var keep []*Term
			for _, y := range x.Args {
				neg := c.Not(y)
				if seen[neg.id] && neg != x {
					continue
				}
				keep = append(keep, y)
			}
			if len(keep) != len(x.Args) {
				out[i] = c.And(keep...)
				changed = true
			}
		}
		if changed {
			return c.Or(out...)
		}
	}
	switch len(out) {
	case 0:
		return c.False
	case 1:
		return out[0]
	}
	sort.Slice(out, func(i, j int) bool { return out[i].id < out[j].id })
	return c.mk(&Term{Op: OpOr, Sort: SBool, Args: out})
}

func (c *TermCtx) Implies(a, b *Term) *Term { return c.Or(c.Not(a), b) }

func (c *TermCtx) Ite(g, a, b *Term) *Term {
	if a.Sort != b.Sort {
		panic(fmt.Sprintf("Ite: sort mismatch %v %v", a.Sort, b.Sort))
	}
	if g.IsTrue() {
		return a
	}
	if g.IsFalse() {
		return b
	}
	if a == b {
		return a
	}
	if a.Sort.K == KBool {
		if a.IsTrue() && b.IsFalse() {
			return g
		}
		if a.IsFalse() && b.IsTrue() {
			return c.Not(g)
		}
		if a.IsTrue() {
			return c.Or(g, b)
		}
		if a.IsFalse() {
			return c.And(c.Not(g), b)
		}
		if b.IsTrue() {
			return c.Or(c.Not(g), a)
		}
		if b.IsFalse() {
			return c.And(g, a)
		}
	}
	if g.Op == OpNot {
		return c.Ite(g.Args[0], b, a)
	}
	// ite(g, a, ite(g, x, y)) = ite(g, a, y)
	if b.Op == OpIte && b.Args[0] == g {
		return c.Ite(g, a, b.Args[2])
	}
	if a.Op == OpIte && a.Args[0] == g {
		return c.Ite(g, a.Args[1], b)
	}
	return c.mk(&Term{Op: OpIte, Sort: a.Sort, Args: []*Term{g, a, b}})
}

func (c *TermCtx) Eq(a, b *Term) *Term {
	if a.Sort != b.Sort {
		panic(fmt.Sprintf("Eq: sort mismatch %v %v (%s, %s)", a.Sort, b.Sort, a.SMT(), b.SMT()))
	}
	if a == b {
		return c.True
	}
	if a.IsConst() && b.IsConst() {
		c.NFolded++
		return c.Bool(a.C == b.C)
	}
	if a.Sort.K == KBool {
		if a.IsTrue() {
			return b
		}
		if b.IsTrue() {
			return a
		}
		if a.IsFalse() {
			return c.Not(b)
		}
		if b.IsFalse() {
			return c.Not(a)
		}
	}
	if a.IsConst() {
		a, b = b, a
	}
	if a.Sort.K == KBV && a.Sort.W > 8 && !b.IsConst() {
		ea, eb := effWidth(a), effWidth(b)
		n := ea
		if eb > n {
			n = eb
		}
		if n < 1 {
			n = 1
		}
		if n < a.Sort.W {
			return c.Eq(c.narrow(a, n), c.narrow(b, n))
		}
	}
	// eq(ite(g, x, y), K) with constant leaves
	if b.IsConst() && a.Op == OpIte {
		x, y := a.Args[1], a.Args[2]
		if x.IsConst() || y.IsConst() {
			return c.Ite(a.Args[0], c.Eq(x, b), c.Eq(y, b))
		}
	}
	// eq(concat(Khi, x), K)
	if b.IsConst() && a.Op == OpConcat && a.Args[0].IsConst() {
		lw := a.Args[1].Sort.W
		if b.C>>uint(lw) != a.Args[0].C {
			return c.False
		}
		return c.Eq(a.Args[1], c.BV(b.C, lw))
	}
	// eq(zero_extend(x), K)
	if b.IsConst() && a.Op == OpZeroExt {
		x := a.Args[0]
		if b.C > mask(x.Sort.W) {
			return c.False
		}
		return c.Eq(x, c.BV(b.C, x.Sort.W))
	}
	if a.id > b.id && !b.IsConst() {
		a, b = b, a
	}
	return c.mk(&Term{Op: OpEq, Sort: SBool, Args: []*Term{a, b}})
}

func (c *TermCtx) Ne(a, b *Term) *Term { return c.Not(c.Eq(a, b)) }

// ---------------------------------------------------------------- BV

func (c *TermCtx) bvbin(op Op, a, b *Term) *Term {
	if a.Sort != b.Sort || a.Sort.K != KBV {
		panic(fmt.Sprintf("bvbin %s: sort mismatch %v %v", opNames[op], a.Sort, b.Sort))
	}
	w := a.Sort.W
	m := mask(w)
	if a.IsConst() && b.IsConst() {
		x, y := a.C, b.C
		var r uint64
		ok := true
		switch op {
		case OpBVAdd:
			r = x + y
		case OpBVSub:
			r = x - y
		case OpBVMul:
			r = x * y
		case OpBVUDiv:
			if y == 0 {
				r = m
			} else {
				r = x / y
			}
		case OpBVURem:
			if y == 0 {
				r = x
			} else {
				r = x % y
			}
		case OpBVSDiv:
			sx, sy := a.SVal(), b.SVal()
			if sy == 0 {
				if sx < 0 {
					r = 1
				} else {
					r = m
				}
			} else if sy == -1 {
				r = uint64(-sx)
			} else {
				r = uint64(sx / sy)
			}
		case OpBVSRem:
			sx, sy := a.SVal(), b.SVal()
			if sy == 0 {
				r = x
			} else if sy == -1 {
				r = 0
			} else {
				r = uint64(sx % sy)
			}
		case OpBVAnd:
			r = x & y
		case OpBVOr:
			r = x | y
		case OpBVXor:
			r = x ^ y
		case OpBVShl:
			if y >= uint64(w) {
				r = 0
			} else {
				r = x << y
			}
		case OpBVLshr:
			if y >= uint64(w) {
				r = 0
			} else {
				r = x >> y
			}
		case OpBVAshr:
			sx := a.SVal()
			if y >= uint64(w) {
				if sx < 0 {
					r = m
				} else {
					r = 0
				}
			} else {
				r = uint64(sx >> y)
			}
		default:
			ok = false
		}
		if ok {
			c.NFolded++
			return c.BV(r, w)
		}
	}
	// width reduction: sums and products of zero-extended operands are computed at the width they need
	if (op == OpBVAdd || op == OpBVMul) && w > 8 {
		ea, eb := effWidth(a), effWidth(b)
		n := ea + eb
		if op == OpBVAdd {
			n = ea + 1
			if eb > ea {
				n = eb + 1
			}
		}
		if n < 1 {
			n = 1
		}
		if n < w && !(a.IsConst() && b.IsConst()) {
			return c.ZeroExt(c.bvbin(op, c.narrow(a, n), c.narrow(b, n)), w-n)
		}
	}
	switch op {
	case OpBVAdd:
		if a.IsConst() && a.C == 0 {
			return b
		}
		if b.IsConst() && b.C == 0 {
			return a
		}
		if a.IsConst() {
			a, b = b, a
		}
		// (x + k1) + k2
		if b.IsConst() && a.Op == OpBVAdd && a.Args[1].IsConst() {
			return c.bvbin(OpBVAdd, a.Args[0], c.BV(a.Args[1].C+b.C, w))
		}
	case OpBVSub:
		if b.IsConst() && b.C == 0 {
			return a
		}
		// concat(Khi, x) - (Khi << lw) = zero_extend(x)
		if b.IsConst() && a.Op == OpConcat && a.Args[0].IsConst() {
			lw := a.Args[1].Sort.W
			if b.C == a.Args[0].C<<uint(lw) {
				return c.ZeroExt(a.Args[1], a.Args[0].Sort.W)
			}
		}
		if a == b {
			return c.BV(0, w)
		}
		if b.IsConst() {
			return c.bvbin(OpBVAdd, a, c.BV(-b.C, w))
		}
	case OpBVMul:
		if a.IsConst() {
			a, b = b, a
		}
		if b.IsConst() {
			if b.C == 0 {
				return c.BV(0, w)
			}
			if b.C == 1 {
				return a
			}
		}
	case OpBVAnd:
		if a.IsConst() {
			a, b = b, a
		}
		if b.IsConst() {
			if b.C == 0 {
				return c.BV(0, w)
			}
			if b.C == m {
				return a
			}
		}
		if a == b {
			return a
		}
	case OpBVOr:
		if a.IsConst() {
			a, b = b, a
		}
		if b.IsConst() {
			if b.C == 0 {
				return a
			}
			if b.C == m {
				return c.BV(m, w)
			}
		}
		if a == b {
			return a
		}
	case OpBVXor:
		if a.IsConst() {
			a, b = b, a
		}
		if b.IsConst() && b.C == 0 {
			return a
		}
		if a == b {
			return c.BV(0, w)
		}
	case OpBVShl, OpBVLshr, OpBVAshr:
		if b.IsConst() && b.C == 0 {
			return a
		}
		if b.IsConst() && b.C >= uint64(w) && op != OpBVAshr {
			return c.BV(0, w)
		}
		// shifts of zero-extended bytes by multiples of 8 stay as they are; the solver copes.
	case OpBVUDiv:
		if b.IsConst() && b.C == 1 {
			return a
		}
	}
	// push operations through ite with constant branches when the other operand is constant
	if b.IsConst() && a.Op == OpIte && (a.Args[1].IsConst() || a.Args[2].IsConst()) && iteDepth(a) <= 12 {
		return c.Ite(a.Args[0], c.bvbin(op, a.Args[1], b), c.bvbin(op, a.Args[2], b))
	}
	return c.mk(&Term{Op: op, Sort: a.Sort, Args: []*Term{a, b}})
}

// effective width: number of low bits that can be non-zero (syntactic)
func effWidth(t *Term) int {
	switch t.Op {
	case OpConst:
		return bits.Len64(t.C)
	case OpZeroExt:
		return effWidth(t.Args[0])
	case OpIte:
		a, b := effWidth(t.Args[1]), effWidth(t.Args[2])
		if a > b {
			return a
		}
		return b
	case OpBVAnd:
		a, b := effWidth(t.Args[0]), effWidth(t.Args[1])
		if a < b {
			return a
		}
		return b
	}
	return t.Sort.W
}

// narrow returns t (whose effective width is <= n) as a term of width n.
func (c *TermCtx) narrow(t *Term, n int) *Term {
	if t.Sort.W == n {
		return t
	}
	if t.Sort.W < n {
		return c.ZeroExt(t, n-t.Sort.W)
	}
	return c.Extract(t, n-1, 0)
}

func iteDepth(t *Term) int {
	d := 0
	for t.Op == OpIte {
		d++
		if t.Args[2].Op == OpIte {
			t = t.Args[2]
		} else {
			t = t.Args[1]
		}
	}
	return d
}

func (c *TermCtx) BVAdd(a, b *Term) *Term  { return c.bvbin(OpBVAdd, a, b) }
func (c *TermCtx) BVSub(a, b *Term) *Term  { return c.bvbin(OpBVSub, a, b) }
func (c *TermCtx) BVMul(a, b *Term) *Term  { return c.bvbin(OpBVMul, a, b) }
func (c *TermCtx) BVUDiv(a, b *Term) *Term { return c.bvbin(OpBVUDiv, a, b) }
func (c *TermCtx) BVURem(a, b *Term) *Term { return c.bvbin(OpBVURem, a, b) }
func (c *TermCtx) BVSDiv(a, b *Term) *Term { return c.bvbin(OpBVSDiv, a, b) }
func (c *TermCtx) BVSRem(a, b *Term) *Term { return c.bvbin(OpBVSRem, a, b) }
func (c *TermCtx) BVAnd(a, b *Term) *Term  { return c.bvbin(OpBVAnd, a, b) }
func (c *TermCtx) BVOr(a, b *Term) *Term   { return c.bvbin(OpBVOr, a, b) }
func (c *TermCtx) BVXor(a, b *Term) *Term  { return c.bvbin(OpBVXor, a, b) }
func (c *TermCtx) BVShl(a, b *Term) *Term  { return c.bvbin(OpBVShl, a, b) }
func (c *TermCtx) BVLshr(a, b *Term) *Term { return c.bvbin(OpBVLshr, a, b) }
func (c *TermCtx) BVAshr(a, b *Term) *Term { return c.bvbin(OpBVAshr, a, b) }

func (c *TermCtx) BVNot(a *Term) *Term {
	if a.IsConst() {
		c.NFolded++
		return c.BV(^a.C, a.Sort.W)
	}
	if a.Op == OpBVNot {
		return a.Args[0]
	}
	return c.mk(&Term{Op: OpBVNot, Sort: a.Sort, Args: []*Term{a}})
}

func (c *TermCtx) BVNeg(a *Term) *Term {
	if a.IsConst() {
		c.NFolded++
		return c.BV(-a.C, a.Sort.W)
	}
	return c.mk(&Term{Op: OpBVNeg, Sort: a.Sort, Args: []*Term{a}})
}

func (c *TermCtx) bvcmp(op Op, a, b *Term) *Term {
	if a.Sort != b.Sort || a.Sort.K != KBV {
		panic(fmt.Sprintf("bvcmp: sort mismatch %v %v", a.Sort, b.Sort))
	}
	if a.IsConst() && b.IsConst() {
		c.NFolded++
		switch op {
		case OpBVUlt:
			return c.Bool(a.C < b.C)
		case OpBVUle:
			return c.Bool(a.C <= b.C)
		case OpBVSlt:
			return c.Bool(a.SVal() < b.SVal())
		case OpBVSle:
			return c.Bool(a.SVal() <= b.SVal())
		}
	}
	if a == b {
		return c.Bool(op == OpBVUle || op == OpBVSle)
	}
	if w := a.Sort.W; w > 8 {
		ea, eb := effWidth(a), effWidth(b)
		n := ea
		if eb > n {
			n = eb
		}
		if n < 1 {
			n = 1
		}
		if n < w {
			// both operands are non-negative and fit in n bits: signed and unsigned orders coincide
			uop := op
			if op == OpBVSlt {
				uop = OpBVUlt
			} else if op == OpBVSle {
				uop = OpBVUle
			}
			return c.bvcmp(uop, c.narrow(a, n), c.narrow(b, n))
		}
	}
	m := mask(a.Sort.W)
	switch op {
	case OpBVUlt:
		if b.IsConst() && b.C == 0 {
			return c.False
		}
		if a.IsConst() && a.C == m {
			return c.False
		}
	case OpBVUle:
		if a.IsConst() && a.C == 0 {
			return c.True
		}
		if b.IsConst() && b.C == m {
			return c.True
		}
	}
	// comparisons of ite-of-constants against constants
	if b.IsConst() && a.Op == OpIte && (a.Args[1].IsConst() || a.Args[2].IsConst()) && iteDepth(a) <= 12 {
		return c.Ite(a.Args[0], c.bvcmp(op, a.Args[1], b), c.bvcmp(op, a.Args[2], b))
	}
	if a.IsConst() && b.Op == OpIte && (b.Args[1].IsConst() || b.Args[2].IsConst()) && iteDepth(b) <= 12 {
		return c.Ite(b.Args[0], c.bvcmp(op, a, b.Args[1]), c.bvcmp(op, a, b.Args[2]))
	}
	// concat(Khi, x) compared unsigned with a constant: decided by the high part when it differs
	if (op == OpBVUlt || op == OpBVUle) && a.Op == OpConcat && a.Args[0].IsConst() && b.IsConst() {
		lw := a.Args[1].Sort.W
		bh := b.C >> uint(lw)
		if a.Args[0].C != bh {
			return c.Bool(a.Args[0].C < bh)
		}
		return c.bvcmp(op, a.Args[1], c.BV(b.C, lw))
	}
	if (op == OpBVUlt || op == OpBVUle) && b.Op == OpConcat && b.Args[0].IsConst() && a.IsConst() {
		lw := b.Args[1].Sort.W
		ah := a.C >> uint(lw)
		if b.Args[0].C != ah {
			return c.Bool(ah < b.Args[0].C)
		}
		return c.bvcmp(op, c.BV(a.C, lw), b.Args[1])
	}
	// zero-extended operands compared unsigned with small constants
	if (op == OpBVUlt || op == OpBVUle) && a.Op == OpZeroExt && b.IsConst() {
		x := a.Args[0]
		if b.C > mask(x.Sort.W) {
			return c.True
		}
		return c.bvcmp(op, x, c.BV(b.C, x.Sort.W))
	}
	if (op == OpBVUlt || op == OpBVUle) && b.Op == OpZeroExt && a.IsConst() {
		x := b.Args[0]
		if a.C > mask(x.Sort.W) {
			return c.False
		}
		return c.bvcmp(op, c.BV(a.C, x.Sort.W), x)
	}
	return c.mk(&Term{Op: op, Sort: SBool, Args: []*Term{a, b}})
}

func (c *TermCtx) BVUlt(a, b *Term) *Term { return c.bvcmp(OpBVUlt, a, b) }
func (c *TermCtx) BVUle(a, b *Term) *Term { return c.bvcmp(OpBVUle, a, b) }
func (c *TermCtx) BVSlt(a, b *Term) *Term { return c.bvcmp(OpBVSlt, a, b) }
func (c *TermCtx) BVSle(a, b *Term) *Term { return c.bvcmp(OpBVSle, a, b) }

func (c *TermCtx) Concat(hi, lo *Term) *Term {
	w := hi.Sort.W + lo.Sort.W
	if w > 64 {
		panic("Concat: width > 64")
	}
	if hi.IsConst() && lo.IsConst() {
		c.NFolded++
		return c.BV(hi.C<<uint(lo.Sort.W)|lo.C, w)
	}
	if hi.IsConst() && hi.C == 0 {
		return c.ZeroExt(lo, hi.Sort.W)
	}
	return c.mk(&Term{Op: OpConcat, Sort: SBV(w), Args: []*Term{hi, lo}})
}

func (c *TermCtx) Extract(a *Term, hi, lo int) *Term {
	if a.Sort.K != KBV || hi >= a.Sort.W || lo < 0 || hi < lo {
		panic(fmt.Sprintf("Extract[%d:%d] of %v", hi, lo, a.Sort))
	}
	w := hi - lo + 1
	if w == a.Sort.W {
		return a
	}
	if a.IsConst() {
		c.NFolded++
		return c.BV(a.C>>uint(lo), w)
	}
	switch a.Op {
	case OpZeroExt:
		x := a.Args[0]
		if hi < x.Sort.W {
			return c.Extract(x, hi, lo)
		}
		if lo >= x.Sort.W {
			return c.BV(0, w)
		}
		return c.ZeroExt(c.Extract(x, x.Sort.W-1, lo), hi-x.Sort.W+1)
	case OpSignExt:
		x := a.Args[0]
		if hi < x.Sort.W {
			return c.Extract(x, hi, lo)
		}
	case OpConcat:
		h, l := a.Args[0], a.Args[1]
		if hi < l.Sort.W {
			return c.Extract(l, hi, lo)
		}
		if lo >= l.Sort.W {
			return c.Extract(h, hi-l.Sort.W, lo-l.Sort.W)
		}
	case OpExtract:
		return c.Extract(a.Args[0], a.Lo+hi, a.Lo+lo)
	case OpIte:
		if a.Args[1].IsConst() || a.Args[2].IsConst() {
			return c.Ite(a.Args[0], c.Extract(a.Args[1], hi, lo), c.Extract(a.Args[2], hi, lo))
		}
	case OpBVAnd, OpBVOr, OpBVXor:
		if lo == 0 {
			return c.bvbin(a.Op, c.Extract(a.Args[0], hi, lo), c.Extract(a.Args[1], hi, lo))
		}
	case OpBVAdd, OpBVSub, OpBVMul:
		if lo == 0 {
			return c.bvbin(a.Op, c.Extract(a.Args[0], hi, 0), c.Extract(a.Args[1], hi, 0))
		}
	case OpBVLshr:
		// extract low bits of (x >> k) where x is zero-extended narrow: common in PutUint32
		if a.Args[1].IsConst() {
			k := int(a.Args[1].C)
			if hi+k < a.Sort.W {
				return c.Extract(a.Args[0], hi+k, lo+k)
			}
		}
	case OpBVShl:
		if a.Args[1].IsConst() {
			k := int(a.Args[1].C)
			if lo >= k {
				return c.Extract(a.Args[0], hi-k, lo-k)
			}
			if hi < k {
				return c.BV(0, w)
			}
		}
	}
	return c.mk(&Term{Op: OpExtract, Sort: SBV(w), Args: []*Term{a}, Hi: hi, Lo: lo})
}

func (c *TermCtx) ZeroExt(a *Term, extra int) *Term {
	if extra == 0 {
		return a
	}
	if a.IsConst() {
		c.NFolded++
		return c.BV(a.C, a.Sort.W+extra)
	}
	if a.Op == OpZeroExt {
		return c.ZeroExt(a.Args[0], a.Hi+extra)
	}
	if a.Op == OpIte && (a.Args[1].IsConst() || a.Args[2].IsConst()) && iteDepth(a) <= 12 {
		return c.Ite(a.Args[0], c.ZeroExt(a.Args[1], extra), c.ZeroExt(a.Args[2], extra))
	}
	return c.mk(&Term{Op: OpZeroExt, Sort: SBV(a.Sort.W + extra), Args: []*Term{a}, Hi: extra})
}

func (c *TermCtx) SignExt(a *Term, extra int) *Term {
	if extra == 0 {
		return a
	}
	if a.IsConst() {
		c.NFolded++
		return c.BV(uint64(a.SVal()), a.Sort.W+extra)
	}
	if a.Op == OpZeroExt {
		// sign bit is zero
		return c.ZeroExt(a.Args[0], a.Hi+extra)
	}
	if a.Op == OpIte && (a.Args[1].IsConst() || a.Args[2].IsConst()) && iteDepth(a) <= 12 {
		return c.Ite(a.Args[0], c.SignExt(a.Args[1], extra), c.SignExt(a.Args[2], extra))
	}
	return c.mk(&Term{Op: OpSignExt, Sort: SBV(a.Sort.W + extra), Args: []*Term{a}, Hi: extra})
}

// Resize converts a BV to width w (truncate / extend by signedness of the source).
func (c *TermCtx) Resize(a *Term, w int, signed bool) *Term {
	switch {
	case a.Sort.W == w:
		return a
	case a.Sort.W > w:
		return c.Extract(a, w-1, 0)
	case signed:
		return c.SignExt(a, w-a.Sort.W)
	default:
		return c.ZeroExt(a, w-a.Sort.W)
	}
}

// ---------------------------------------------------------------- Int

func (c *TermCtx) IntAdd(xs ...*Term) *Term {
	var k int64
	var out []*Term
	for _, x := range xs {
		if x.Sort.K != KInt {
			panic("IntAdd: non-int")
		}
		if x.IsConst() {
			k += int64(x.C)
		} else if x.Op == OpIntAdd {
			for _, y := range x.Args {
				if y.IsConst() {
					k += int64(y.C)
				} else {
					out = append(out, y)
				}
			}
		} else {
			out = append(out, x)
		}
	}
	if k != 0 || len(out) == 0 {
		out = append(out, c.Int(k))
	}
	if len(out) == 1 {
		return out[0]
	}
	return c.mk(&Term{Op: OpIntAdd, Sort: SInt, Args: out})
}

func (c *TermCtx) IntSub(a, b *Term) *Term {
	if b.IsConst() {
		return c.IntAdd(a, c.Int(-int64(b.C)))
	}
	if a == b {
		return c.Int(0)
	}
	return c.mk(&Term{Op: OpIntSub, Sort: SInt, Args: []*Term{a, b}})
}

func (c *TermCtx) IntMulC(a *Term, k int64) *Term {
	if a.IsConst() {
		return c.Int(int64(a.C) * k)
	}
	if k == 1 {
		return a
	}
	if k == 0 {
		return c.Int(0)
	}
	return c.mk(&Term{Op: OpIntMul, Sort: SInt, Args: []*Term{c.Int(k), a}})
}

func (c *TermCtx) IntLt(a, b *Term) *Term {
	if a.IsConst() && b.IsConst() {
		return c.Bool(int64(a.C) < int64(b.C))
	}
	if a == b {
		return c.False
	}
	return c.mk(&Term{Op: OpIntLt, Sort: SBool, Args: []*Term{a, b}})
}

func (c *TermCtx) IntLe(a, b *Term) *Term {
	if a.IsConst() && b.IsConst() {
		return c.Bool(int64(a.C) <= int64(b.C))
	}
	if a == b {
		return c.True
	}
	return c.mk(&Term{Op: OpIntLe, Sort: SBool, Args: []*Term{a, b}})
}

// BV2Int: unsigned value of a bit-vector as Int.
func (c *TermCtx) BV2Int(a *Term) *Term {
	if a.IsConst() {
		return c.Int(int64(a.C))
	}
	return c.mk(&Term{Op: OpBV2Int, Sort: SInt, Args: []*Term{a}})
}

// SBV2Int: signed value of a bit-vector as Int.
func (c *TermCtx) SBV2Int(a *Term) *Term {
	if a.IsConst() {
		return c.Int(a.SVal())
	}
	w := a.Sort.W
	if a.Op == OpZeroExt {
		return c.BV2Int(a.Args[0])
	}
	u := c.BV2Int(a)
	neg := c.BVSlt(a, c.BV(0, w))
	var pow int64
	if w >= 63 {
		// 2^64 does not fit; use two additions of 2^63
		h := c.Int(int64(1) << 62)
		return c.Ite(neg, c.IntSub(c.IntSub(c.IntSub(c.IntSub(u, h), h), h), h), u)
	}
	pow = int64(1) << uint(w)
	return c.Ite(neg, c.IntAdd(u, c.Int(-pow)), u)
}

func (c *TermCtx) Int2BV(a *Term, w int) *Term {
	if a.IsConst() {
		return c.BV(a.C, w)
	}
	return c.mk(&Term{Op: OpInt2BV, Sort: SBV(w), Args: []*Term{a}, Hi: w})
}

// ---------------------------------------------------------------- printing

func bvLit(v uint64, w int) string {
	if w%4 == 0 {
		return fmt.Sprintf("#x%0*x", w/4, v)
	}
	return fmt.Sprintf("#b%0*b", w, v)
}

func intLit(v int64) string {
	if v < 0 {
		if v == -v { // MinInt64
			return "(- 9223372036854775808)"
		}
		return fmt.Sprintf("(- %d)", -v)
	}
	return strconv.FormatInt(v, 10)
}

func smtName(n string) string {
	return "|" + strings.NewReplacer("|", "_", "\\", "_").Replace(n) + "|"
}

// head returns the operator text for non-leaf nodes.
func (t *Term) head() string {
	switch t.Op {
	case OpExtract:
		return fmt.Sprintf("(_ extract %d %d)", t.Hi, t.Lo)
	case OpZeroExt:
		return fmt.Sprintf("(_ zero_extend %d)", t.Hi)
	case OpSignExt:
		return fmt.Sprintf("(_ sign_extend %d)", t.Hi)
	case OpInt2BV:
		return fmt.Sprintf("(_ int2bv %d)", t.Hi)
	case OpApp:
		return smtName(t.Name)
	}
	return opNames[t.Op]
}

func (t *Term) leaf() (string, bool) {
	switch t.Op {
	case OpConst:
		switch t.Sort.K {
		case KBool:
			if t.C == 1 {
				return "true", true
			}
			return "false", true
		case KInt:
			return intLit(int64(t.C)), true
		}
		return bvLit(t.C, t.Sort.W), true
	case OpVar:
		return smtName(t.Name), true
	}
	if t.Op == OpApp && len(t.Args) == 0 {
		return smtName(t.Name), true
	}
	return "", false
}

// SMT renders the term as a closed SMT-LIB2 expression, sharing repeated
// sub-terms with nested lets.
func (t *Term) SMT() string {
	refs := map[*Term]int{}
	var order []*Term
	var count func(x *Term)
	count = func(x *Term) {
		refs[x]++
		if refs[x] > 1 {
			return
		}
		for _, a := range x.Args {
			count(a)
		}
		order = append(order, x) // post-order: children first
	}
	count(t)
	names := map[*Term]string{}
	var render func(x *Term) string
	render = func(x *Term) string {
		if n, ok := names[x]; ok {
			return n
		}
		if s, ok := x.leaf(); ok {
			return s
		}
		var b strings.Builder
		b.WriteByte('(')
		b.WriteString(x.head())
		for _, a := range x.Args {
			b.WriteByte(' ')
			b.WriteString(render(a))
		}
		b.WriteByte(')')
		return b.String()
	}
	var b strings.Builder
	nlets := 0
	for _, x := range order {
		if x == t || refs[x] < 2 {
			continue
		}
		if _, ok := x.leaf(); ok {
			continue
		}
		body := render(x)
		n := fmt.Sprintf("?t%d", x.id)
		b.WriteString("(let ((")
		b.WriteString(n)
		b.WriteByte(' ')
		b.WriteString(body)
		b.WriteString(")) ")
		names[x] = n
		nlets++
	}
	b.WriteString(render(t))
	for i := 0; i < nlets; i++ {
		b.WriteByte(')')
	}
	return b.String()
}

func (t *Term) String() string {
	s := t.SMT()
	if len(s) > 200 {
		return s[:200] + "..."
	}
	return s
}

// Vars collects the free variables and applications' function names of t.
func CollectVars(ts []*Term, into map[*Term]bool) {
	seen := map[*Term]bool{}
	var walk func(x *Term)
	walk = func(x *Term) {
		if seen[x] {
			return
		}
		seen[x] = true
		if x.Op == OpVar {
			into[x] = true
		}
		for _, a := range x.Args {
			walk(a)
		}
	}
	for _, t := range ts {
		walk(t)
	}
}

// Subst replaces variables by terms (memoised DAG walk).
type Subst struct {
	c    *TermCtx
	m    map[*Term]*Term
	memo map[*Term]*Term
}

func (c *TermCtx) NewSubst(m map[*Term]*Term) *Subst {
	return &Subst{c: c, m: m, memo: map[*Term]*Term{}}
}

func (s *Subst) Apply(t *Term) *Term {
	if r, ok := s.m[t]; ok {
		return r
	}
	if len(t.Args) == 0 {
		return t
	}
	if r, ok := s.memo[t]; ok {
		return r
	}
	args := make([]*Term, len(t.Args))
	changed := false
	for i, a := range t.Args {
		args[i] = s.Apply(a)
		if args[i] != a {
			changed = true
		}
	}
	r := t
	if changed {
		r = s.c.Rebuild(t, args)
	}
	s.memo[t] = r
	return r
}

// Rebuild constructs the node t with new arguments through the simplifying constructors.
func (c *TermCtx) Rebuild(t *Term, a []*Term) *Term {
	switch t.Op {
	case OpNot:
		return c.Not(a[0])
	case OpAnd:
		return c.And(a...)
	case OpOr:
		return c.Or(a...)
	case OpIte:
		return c.Ite(a[0], a[1], a[2])
	case OpEq:
		return c.Eq(a[0], a[1])
	case OpBVAdd, OpBVSub, OpBVMul, OpBVUDiv, OpBVURem, OpBVSDiv, OpBVSRem, OpBVAnd, OpBVOr, OpBVXor, OpBVShl, OpBVLshr, OpBVAshr:
		return c.bvbin(t.Op, a[0], a[1])
	case OpBVNot:
		return c.BVNot(a[0])
	case OpBVNeg:
		return c.BVNeg(a[0])
	case OpBVUlt, OpBVUle, OpBVSlt, OpBVSle:
		return c.bvcmp(t.Op, a[0], a[1])
	case OpConcat:
		return c.Concat(a[0], a[1])
	case OpExtract:
		return c.Extract(a[0], t.Hi, t.Lo)
	case OpZeroExt:
		return c.ZeroExt(a[0], t.Hi)
	case OpSignExt:
		return c.SignExt(a[0], t.Hi)
	case OpIntAdd:
		return c.IntAdd(a...)
	case OpIntSub:
		return c.IntSub(a[0], a[1])
	case OpIntMul:
		if a[0].IsConst() {
			return c.IntMulC(a[1], int64(a[0].C))
		}
		return c.mk(&Term{Op: OpIntMul, Sort: SInt, Args: a})
	case OpIntLt:
		return c.IntLt(a[0], a[1])
	case OpIntLe:
		return c.IntLe(a[0], a[1])
	case OpBV2Int:
		return c.BV2Int(a[0])
	case OpInt2BV:
		return c.Int2BV(a[0], t.Hi)
	case OpApp:
		return c.App(t.Name, t.Sort, a...)
	}
	panic("Rebuild: op " + strconv.Itoa(int(t.Op)))
}

// Eval evaluates a term under a total assignment of its variables
// (no uninterpreted functions, no Int<->BV conversions of non-constants needed
// beyond what is implemented here).  ok=false if something is not evaluable.
func (c *TermCtx) Eval(t *Term, model map[string]uint64) (*Term, bool) {
	m := map[*Term]*Term{}
	missing := false
	vs := map[*Term]bool{}
	CollectVars([]*Term{t}, vs)
	for v := range vs {
		val, ok := model[v.Name]
		if !ok {
			missing = true
			continue
		}
		switch v.Sort.K {
		case KBool:
			m[v] = c.Bool(val != 0)
		case KInt:
			m[v] = c.Int(int64(val))
		default:
			m[v] = c.BV(val, v.Sort.W)
		}
	}
	r := c.NewSubst(m).Apply(t)
	return r, r.IsConst() && !missing
}

var _ = bits.Len
