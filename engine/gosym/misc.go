package gosym

import (
	"go/token"
	"go/types"

	"golang.org/x/tools/go/ssa"
)

// invokeAbstract dispatches interface method calls whose receiver is an engine-native abstract value.
func (e *Engine) invokeAbstract(st *State, fr *Frame, recv IfaceV, m *types.Func, args []Value, pos token.Pos) ([]exit, bool) {
	switch v := recv.V.(type) {
	case ErrV:
		if m.Name() == "Error" {
			return retExit(st, v.Msg), true
		}
	case RType:
		return e.rtypeMethod(st, fr, v, m.Name(), args, pos), true
	}
	return nil, false
}

func (e *Engine) callNative(st *State, fr *Frame, name string, args []Value, pos token.Pos) []exit {
	panic(unsupported("native function value " + name))
}

func (e *Engine) intrinsic2(st *State, fr *Frame, fn *ssa.Function, args []Value, pos token.Pos) ([]exit, bool) {
	c := e.tc
	switch fn.Name() {
	case "verifValidDate":
		y, m, d := args[0].(*Term), args[1].(*Term), args[2].(*Term)
		rng := c.And(e.inRange(y, 0, 9999), e.inRange(m, 1, 12), e.inRange(d, 1, 31))
		return retExit(st, c.And(rng, c.BVSle(d, e.daysIn(st, m, y)))), true
	}
	return nil, false
}

func (e *Engine) schedSleep(st *State, fr *Frame, d *Term, pos token.Pos) []exit {
	if e.timedSleeps && st.gdepth > 0 && d.IsConst() && d.SVal() > 0 {
		// a goroutine that sleeps lets the others run: it is parked until the main thread has nothing else to
		// do before that instant (virtual time, concrete durations only)
		return []exit{{st: st, kind: exitPark, timer: st.vnow + d.SVal(), pmsg: "sleep"}}
	}
	if st.clock != nil {
		// deterministic clock: sleeping is the only thing that takes time besides waiting on the network
		pos := e.tc.Ite(e.tc.BVSlt(d, e.bv64(0)), e.bv64(0), d)
		st.clock = e.tc.BVAdd(st.clock, pos)
	}
	return retExit(st, nil)
}

func init() {
	// sync.Mutex: a held flag per mutex object (one thread runs at a time under the canonical schedule)
	stubs["(*sync.Mutex).Lock"] = func(e *Engine, st *State, fr *Frame, fn *ssa.Function, args []Value, pos token.Pos) []exit {
		p := args[0].(PtrV)
		if st.mutexes[p.Obj] {
			// held by another thread: wait for its Unlock (the call is re-executed on wake-up); a main thread
			// that waits lets sleepers and not-yet-started goroutines run
			return []exit{{st: st, kind: exitPark, wait: p.Obj, pmsg: "sync.Mutex.Lock"}}
		}
		st.mutexes[p.Obj] = true
		return retExit(st, nil)
	}
	stubs["(*sync.Mutex).Unlock"] = func(e *Engine, st *State, fr *Frame, fn *ssa.Function, args []Value, pos token.Pos) []exit {
		p := args[0].(PtrV)
		if !st.mutexes[p.Obj] {
			e.reportPanic(st, e.tc.True, "sync: unlock of unlocked mutex", pos)
			return []exit{{st: st, kind: exitPanic, pmsg: "sync: unlock of unlocked mutex"}}
		}
		delete(st.mutexes, p.Obj)
		var px []exit
		var out []exit
		for _, s2 := range e.wake(st, p.Obj, &px) {
			out = append(out, exit{st: s2, kind: exitReturn})
		}
		return append(out, px...)
	}
	stubs["(*sync.Mutex).TryLock"] = func(e *Engine, st *State, fr *Frame, fn *ssa.Function, args []Value, pos token.Pos) []exit {
		p := args[0].(PtrV)
		if st.mutexes[p.Obj] {
			return retExit(st, e.tc.False)
		}
		st.mutexes[p.Obj] = true
		return retExit(st, e.tc.True)
	}
	// sync/atomic: one thread runs at a time (coroutines), so the primitives are plain loads and stores; the
	// typed wrappers (atomic.Uint32 ...) are interpreted from their source and end up here
	for _, ty := range []string{"Int32", "Uint32", "Int64", "Uint64", "Uintptr"} {
		stubs["sync/atomic.Load"+ty] = func(e *Engine, st *State, fr *Frame, fn *ssa.Function, args []Value, pos token.Pos) []exit {
			return retExit(st, e.load(st, args[0].(PtrV)))
		}
		stubs["sync/atomic.Store"+ty] = func(e *Engine, st *State, fr *Frame, fn *ssa.Function, args []Value, pos token.Pos) []exit {
			e.store(st, args[0].(PtrV), args[1])
			return retExit(st, nil)
		}
		stubs["sync/atomic.Add"+ty] = func(e *Engine, st *State, fr *Frame, fn *ssa.Function, args []Value, pos token.Pos) []exit {
			p := args[0].(PtrV)
			n := e.tc.BVAdd(e.load(st, p).(*Term), args[1].(*Term))
			e.store(st, p, n)
			return retExit(st, n)
		}
		stubs["sync/atomic.Swap"+ty] = func(e *Engine, st *State, fr *Frame, fn *ssa.Function, args []Value, pos token.Pos) []exit {
			p := args[0].(PtrV)
			old := e.load(st, p)
			e.store(st, p, args[1])
			return retExit(st, old)
		}
		stubs["sync/atomic.CompareAndSwap"+ty] = func(e *Engine, st *State, fr *Frame, fn *ssa.Function, args []Value, pos token.Pos) []exit {
			p := args[0].(PtrV)
			cur := e.load(st, p).(*Term)
			eq := e.tc.Eq(cur, args[1].(*Term))
			e.store(st, p, e.tc.Ite(eq, args[2].(*Term), cur))
			return retExit(st, eq)
		}
	}
	// sync.WaitGroup: the counter lives in the struct's sema field (uint32); Wait parks until it is zero
	wgCount := func(e *Engine, st *State, p PtrV) (PtrV, int64) {
		f := PtrV{Obj: p.Obj, Path: appendPath(p.Path, PathElem{I: 2})}
		if t, ok := e.load(st, f).(*Term); ok && t.IsConst() {
			return f, t.SVal()
		}
		return f, 0
	}
	stubs["(*sync.WaitGroup).Add"] = func(e *Engine, st *State, fr *Frame, fn *ssa.Function, args []Value, pos token.Pos) []exit {
		p := args[0].(PtrV)
		d, ok := isConstTerm(args[1])
		if !ok {
			panic(unsupported("sync.WaitGroup.Add with a symbolic delta"))
		}
		f, n := wgCount(e, st, p)
		n += d.SVal()
		if n < 0 {
			e.reportPanic(st, e.tc.True, "sync: negative WaitGroup counter", pos)
			return []exit{{st: st, kind: exitPanic, pmsg: "sync: negative WaitGroup counter"}}
		}
		e.store(st, f, e.tc.BV(uint64(n), 32))
		if n == 0 {
			var px []exit
			var out []exit
			for _, s2 := range e.wake(st, p.Obj, &px) {
				out = append(out, exit{st: s2, kind: exitReturn})
			}
			return append(out, px...)
		}
		return retExit(st, nil)
	}
	stubs["(*sync.WaitGroup).Done"] = func(e *Engine, st *State, fr *Frame, fn *ssa.Function, args []Value, pos token.Pos) []exit {
		return stubs["(*sync.WaitGroup).Add"](e, st, fr, fn, []Value{args[0], e.bv64(-1)}, pos)
	}
	stubs["(*sync.WaitGroup).Wait"] = func(e *Engine, st *State, fr *Frame, fn *ssa.Function, args []Value, pos token.Pos) []exit {
		p := args[0].(PtrV)
		if _, n := wgCount(e, st, p); n > 0 {
			return []exit{{st: st, kind: exitPark, wait: p.Obj, pmsg: "sync.WaitGroup.Wait"}}
		}
		return retExit(st, nil)
	}
	// sync.Once: the done flag lives in the struct's first field
	stubs["(*sync.Once).Do"] = func(e *Engine, st *State, fr *Frame, fn *ssa.Function, args []Value, pos token.Pos) []exit {
		p := args[0].(PtrV)
		flag := PtrV{Obj: p.Obj, Path: appendPath(p.Path, PathElem{I: 0})}
		if _, done := e.load(st, flag).(*Term); done {
			return retExit(st, nil)
		}
		e.store(st, flag, e.tc.True)
		var out []exit
		for _, r := range e.callValue(st, fr, args[1], nil, nil, nil) {
			if r.kind == exitPanic {
				out = append(out, r)
				continue
			}
			out = append(out, exit{st: r.st, kind: exitReturn})
		}
		return out
	}
	// sync.Pool: the pooled items live in the struct's `local` field; Get may return any pooled item or a
	// new one (both are explored: the runtime is free to drop pooled items at any time)
	poolField := func(e *Engine, p PtrV, name string) PtrV {
		pt := e.prog.ImportedPackage("sync").Pkg.Scope().Lookup("Pool").Type().Underlying().(*types.Struct)
		for i := 0; i < pt.NumFields(); i++ {
			if pt.Field(i).Name() == name {
				return PtrV{Obj: p.Obj, Path: appendPath(p.Path, PathElem{I: i})}
			}
		}
		panic(unsupported("sync.Pool field " + name))
	}
	stubs["(*sync.Pool).Put"] = func(e *Engine, st *State, fr *Frame, fn *ssa.Function, args []Value, pos token.Pos) []exit {
		p := args[0].(PtrV)
		f := poolField(e, p, "local")
		items, _ := e.load(st, f).(TupleV)
		e.store(st, f, append(append(TupleV{}, items...), args[1]))
		return retExit(st, nil)
	}
	stubs["(*sync.Pool).Get"] = func(e *Engine, st *State, fr *Frame, fn *ssa.Function, args []Value, pos token.Pos) []exit {
		p := args[0].(PtrV)
		f := poolField(e, p, "local")
		items, _ := e.load(st, f).(TupleV)
		var out []exit
		fresh := st
		if len(items) > 0 {
			s2 := st.fork()
			e.stats.States++
			e.store(s2, f, append(TupleV{}, items[:len(items)-1]...))
			out = append(out, exit{st: s2, kind: exitReturn, val: items[len(items)-1]})
		}
		nf := e.load(fresh, poolField(e, p, "New"))
		if fv, ok := nf.(FuncV); ok && (fv.Fn != nil) {
			for _, r := range e.callValue(fresh, fr, fv, nil, nil, nil) {
				out = append(out, r)
			}
		} else {
			out = append(out, exit{st: fresh, kind: exitReturn, val: IfaceV{}})
		}
		return out
	}
	// sync.Map: an engine map kept in the struct's `dirty` field (keys compared as interface values)
	mapField := func(e *Engine, st *State, p PtrV) (PtrV, MapV) {
		mt := e.prog.ImportedPackage("sync").Pkg.Scope().Lookup("Map").Type().Underlying().(*types.Struct)
		for i := 0; i < mt.NumFields(); i++ {
			if mt.Field(i).Name() == "dirty" {
				f := PtrV{Obj: p.Obj, Path: appendPath(p.Path, PathElem{I: i})}
				m, _ := e.load(st, f).(MapV)
				if m.Obj == 0 {
					any := types.NewInterfaceType(nil, nil)
					m = MapV{Obj: e.alloc(st, &MapObj{KeyT: any, ValT: any})}
					e.store(st, f, m)
				}
				return f, m
			}
		}
		panic(unsupported("sync.Map layout"))
	}
	stubs["(*sync.Map).Store"] = func(e *Engine, st *State, fr *Frame, fn *ssa.Function, args []Value, pos token.Pos) []exit {
		_, m := mapField(e, st, args[0].(PtrV))
		e.mapUpdate(st, m, args[1], args[2])
		return retExit(st, nil)
	}
	stubs["(*sync.Map).Load"] = func(e *Engine, st *State, fr *Frame, fn *ssa.Function, args []Value, pos token.Pos) []exit {
		_, m := mapField(e, st, args[0].(PtrV))
		var out []exit
		alts := e.mapLookupAlts(st, m, args[1], types.NewInterfaceType(nil, nil))
		for i, a := range alts {
			s2 := st
			if i < len(alts)-1 {
				s2 = st.fork()
				e.stats.States++
			}
			if !a.cond.IsTrue() {
				if !e.feasible(s2, a.cond, "sync.Map.Load") {
					continue
				}
				s2.assume(a.cond)
			}
			out = append(out, exit{st: s2, kind: exitReturn, val: TupleV{a.val, a.found}})
		}
		return out
	}
	stubs["(*sync.Map).LoadOrStore"] = func(e *Engine, st *State, fr *Frame, fn *ssa.Function, args []Value, pos token.Pos) []exit {
		_, m := mapField(e, st, args[0].(PtrV))
		var out []exit
		alts := e.mapLookupAlts(st, m, args[1], types.NewInterfaceType(nil, nil))
		for i, a := range alts {
			s2 := st
			if i < len(alts)-1 {
				s2 = st.fork()
				e.stats.States++
			}
			if !a.cond.IsTrue() {
				if !e.feasible(s2, a.cond, "sync.Map.LoadOrStore") {
					continue
				}
				s2.assume(a.cond)
			}
			yes, no := e.forkOn(s2, a.found, "sync.Map.LoadOrStore found")
			if yes != nil {
				out = append(out, exit{st: yes, kind: exitReturn, val: TupleV{a.val, e.tc.True}})
			}
			if no != nil {
				_, m2 := mapField(e, no, args[0].(PtrV))
				e.mapUpdate(no, m2, args[1], args[2])
				out = append(out, exit{st: no, kind: exitReturn, val: TupleV{args[2], e.tc.False}})
			}
		}
		return out
	}
	// errors.Is: identity of the error value itself (the modelled errors do not wrap anything)
	stubs["errors.Is"] = func(e *Engine, st *State, fr *Frame, fn *ssa.Function, args []Value, pos token.Pos) []exit {
		a, ok1 := args[0].(IfaceV)
		b, ok2 := args[1].(IfaceV)
		if !ok1 || !ok2 || a.T == nil || b.T == nil {
			return retExit(st, e.tc.Bool(ok1 && ok2 && a.T == nil && b.T == nil))
		}
		if !types.Identical(a.T, b.T) {
			return retExit(st, e.tc.False)
		}
		if x, ok := a.V.(ErrV); ok {
			if y, ok := b.V.(ErrV); ok {
				return retExit(st, e.tc.Bool(x.ID == y.ID)) // (network errors match their sentinel by kind)
			}
		}
		return retExit(st, e.eqVal(a.V, b.V))
	}
	// internal/bytealg: assembly routines, given their documented semantics on concrete or symbolic bytes
	indexByte := func(e *Engine, b []*Term, c *Term) *Term {
		// first index i with b[i] == c, else -1
		res := e.bv64(-1)
		for i := len(b) - 1; i >= 0; i-- {
			res = e.tc.Ite(e.tc.Eq(b[i], c), e.bv64(int64(i)), res)
		}
		return res
	}
	stubs["internal/bytealg.IndexByteString"] = func(e *Engine, st *State, fr *Frame, fn *ssa.Function, args []Value, pos token.Pos) []exit {
		s := args[0].(StrV)
		if s.Opaque {
			panic(unsupported("IndexByteString on opaque string"))
		}
		return retExit(st, indexByte(e, s.B, args[1].(*Term)))
	}
	stubs["internal/bytealg.IndexByte"] = func(e *Engine, st *State, fr *Frame, fn *ssa.Function, args []Value, pos token.Pos) []exit {
		return retExit(st, indexByte(e, e.bytesOf(st, args[0].(SliceV)), args[1].(*Term)))
	}
	stubs["internal/bytealg.IndexString"] = func(e *Engine, st *State, fr *Frame, fn *ssa.Function, args []Value, pos token.Pos) []exit {
		a, ok1 := args[0].(StrV).Concrete()
		b, ok2 := args[1].(StrV).Concrete()
		if !ok1 || !ok2 {
			panic(unsupported("bytealg.IndexString on symbolic text"))
		}
		return retExit(st, e.bv64(int64(stringsIndex(a, b))))
	}
	stubs["internal/bytealg.CountString"] = func(e *Engine, st *State, fr *Frame, fn *ssa.Function, args []Value, pos token.Pos) []exit {
		s := args[0].(StrV)
		n := e.bv64(0)
		for _, b := range s.B {
			n = e.tc.BVAdd(n, e.tc.Ite(e.tc.Eq(b, args[1].(*Term)), e.bv64(1), e.bv64(0)))
		}
		return retExit(st, n)
	}
	stubs["internal/bytealg.Count"] = func(e *Engine, st *State, fr *Frame, fn *ssa.Function, args []Value, pos token.Pos) []exit {
		n := e.bv64(0)
		for _, b := range e.bytesOf(st, args[0].(SliceV)) {
			n = e.tc.BVAdd(n, e.tc.Ite(e.tc.Eq(b, args[1].(*Term)), e.bv64(1), e.bv64(0)))
		}
		return retExit(st, n)
	}
	stubs["internal/bytealg.Equal"] = func(e *Engine, st *State, fr *Frame, fn *ssa.Function, args []Value, pos token.Pos) []exit {
		a, b := args[0].(SliceV), args[1].(SliceV)
		x, y := e.sliceElems(st, a), e.sliceElems(st, b)
		if len(x) != len(y) {
			return retExit(st, e.tc.False)
		}
		r := e.tc.True
		for i := range x {
			r = e.tc.And(r, e.tc.Eq(x[i].(*Term), y[i].(*Term)))
		}
		return retExit(st, r)
	}
	stubs["bytes.Equal"] = stubs["internal/bytealg.Equal"]
}

func stringsIndex(a, b string) int {
	for i := 0; i+len(b) <= len(a); i++ {
		if a[i:i+len(b)] == b {
			return i
		}
	}
	return -1
}
