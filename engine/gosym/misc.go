package gosym

import (
	"go/token"
	"go/types"

	"golang.org/x/tools/go/ssa"
)

// invokeAbstract dispatches interface method calls whose receiver is an engine-native abstract value.
func (e *Engine) invokeAbstract(st *State, fr *Frame, recv IfaceV, m *types.Func, args []Value, pos token.Pos) ([]exit, bool) {
	switch v := recv.V.(type) {
	case ErrV:
		if m.Name() == "Error" {
			return retExit(st, v.Msg), true
		}
	case RType:
		return e.rtypeMethod(st, fr, v, m.Name(), args, pos), true
	}
	return nil, false
}

func (e *Engine) callNative(st *State, fr *Frame, name string, args []Value, pos token.Pos) []exit {
	panic(unsupported("native function value " + name))
}

func (e *Engine) intrinsic2(st *State, fr *Frame, fn *ssa.Function, args []Value, pos token.Pos) ([]exit, bool) {
	c := e.tc
	switch fn.Name() {
	case "verifValidDate":
		y, m, d := args[0].(*Term), args[1].(*Term), args[2].(*Term)
		rng := c.And(e.inRange(y, 0, 9999), e.inRange(m, 1, 12), e.inRange(d, 1, 31))
		return retExit(st, c.And(rng, c.BVSle(d, e.daysIn(st, m, y)))), true
	}
	return nil, false
}

func (e *Engine) schedSleep(st *State, fr *Frame, d *Term, pos token.Pos) []exit {
	return retExit(st, nil)
}
