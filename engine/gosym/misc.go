package gosym

import (
	"go/token"
	"go/types"

	"golang.org/x/tools/go/ssa"
)

// invokeAbstract dispatches interface method calls whose receiver is an engine-native abstract value.
func (e *Engine) invokeAbstract(st *State, fr *Frame, recv IfaceV, m *types.Func, args []Value, pos token.Pos) ([]exit, bool) {
	switch v := recv.V.(type) {
	case ErrV:
		if m.Name() == "Error" {
			return retExit(st, v.Msg), true
		}
	case RType:
		return e.rtypeMethod(st, fr, v, m.Name(), args, pos), true
	}
	return nil, false
}

func (e *Engine) callNative(st *State, fr *Frame, name string, args []Value, pos token.Pos) []exit {
	panic(unsupported("native function value " + name))
}

func (e *Engine) intrinsic2(st *State, fr *Frame, fn *ssa.Function, args []Value, pos token.Pos) ([]exit, bool) {
	c := e.tc
	switch fn.Name() {
	case "verifValidDate":
		y, m, d := args[0].(*Term), args[1].(*Term), args[2].(*Term)
		rng := c.And(e.inRange(y, 0, 9999), e.inRange(m, 1, 12), e.inRange(d, 1, 31))
		return retExit(st, c.And(rng, c.BVSle(d, e.daysIn(st, m, y)))), true
	}
	return nil, false
}

func (e *Engine) schedSleep(st *State, fr *Frame, d *Term, pos token.Pos) []exit {
	if st.clock != nil {
		// deterministic clock: sleeping is the only thing that takes time besides waiting on the network
		pos := e.tc.Ite(e.tc.BVSlt(d, e.bv64(0)), e.bv64(0), d)
		st.clock = e.tc.BVAdd(st.clock, pos)
	}
	return retExit(st, nil)
}

func init() {
	// sync.Mutex: a held flag per mutex object (one thread runs at a time under the canonical schedule)
	stubs["(*sync.Mutex).Lock"] = func(e *Engine, st *State, fr *Frame, fn *ssa.Function, args []Value, pos token.Pos) []exit {
		p := args[0].(PtrV)
		if st.mutexes[p.Obj] {
			panic(unsupported("sync.Mutex.Lock on a mutex that is already held (would block)"))
		}
		st.mutexes[p.Obj] = true
		return retExit(st, nil)
	}
	stubs["(*sync.Mutex).Unlock"] = func(e *Engine, st *State, fr *Frame, fn *ssa.Function, args []Value, pos token.Pos) []exit {
		p := args[0].(PtrV)
		if !st.mutexes[p.Obj] {
			e.reportPanic(st, e.tc.True, "sync: unlock of unlocked mutex", pos)
			return []exit{{st: st, kind: exitPanic, pmsg: "sync: unlock of unlocked mutex"}}
		}
		delete(st.mutexes, p.Obj)
		return retExit(st, nil)
	}
	// internal/bytealg: assembly routines, given their documented semantics on concrete or symbolic bytes
	indexByte := func(e *Engine, b []*Term, c *Term) *Term {
		// first index i with b[i] == c, else -1
		res := e.bv64(-1)
		for i := len(b) - 1; i >= 0; i-- {
			res = e.tc.Ite(e.tc.Eq(b[i], c), e.bv64(int64(i)), res)
		}
		return res
	}
	stubs["internal/bytealg.IndexByteString"] = func(e *Engine, st *State, fr *Frame, fn *ssa.Function, args []Value, pos token.Pos) []exit {
		s := args[0].(StrV)
		if s.Opaque {
			panic(unsupported("IndexByteString on opaque string"))
		}
		return retExit(st, indexByte(e, s.B, args[1].(*Term)))
	}
	stubs["internal/bytealg.IndexByte"] = func(e *Engine, st *State, fr *Frame, fn *ssa.Function, args []Value, pos token.Pos) []exit {
		return retExit(st, indexByte(e, e.bytesOf(st, args[0].(SliceV)), args[1].(*Term)))
	}
	stubs["internal/bytealg.IndexString"] = func(e *Engine, st *State, fr *Frame, fn *ssa.Function, args []Value, pos token.Pos) []exit {
		a, ok1 := args[0].(StrV).Concrete()
		b, ok2 := args[1].(StrV).Concrete()
		if !ok1 || !ok2 {
			panic(unsupported("bytealg.IndexString on symbolic text"))
		}
		return retExit(st, e.bv64(int64(stringsIndex(a, b))))
	}
	stubs["internal/bytealg.CountString"] = func(e *Engine, st *State, fr *Frame, fn *ssa.Function, args []Value, pos token.Pos) []exit {
		s := args[0].(StrV)
		n := e.bv64(0)
		for _, b := range s.B {
			n = e.tc.BVAdd(n, e.tc.Ite(e.tc.Eq(b, args[1].(*Term)), e.bv64(1), e.bv64(0)))
		}
		return retExit(st, n)
	}
	stubs["internal/bytealg.Count"] = func(e *Engine, st *State, fr *Frame, fn *ssa.Function, args []Value, pos token.Pos) []exit {
		n := e.bv64(0)
		for _, b := range e.bytesOf(st, args[0].(SliceV)) {
			n = e.tc.BVAdd(n, e.tc.Ite(e.tc.Eq(b, args[1].(*Term)), e.bv64(1), e.bv64(0)))
		}
		return retExit(st, n)
	}
	stubs["internal/bytealg.Equal"] = func(e *Engine, st *State, fr *Frame, fn *ssa.Function, args []Value, pos token.Pos) []exit {
		a, b := args[0].(SliceV), args[1].(SliceV)
		x, y := e.sliceElems(st, a), e.sliceElems(st, b)
		if len(x) != len(y) {
			return retExit(st, e.tc.False)
		}
		r := e.tc.True
		for i := range x {
			r = e.tc.And(r, e.tc.Eq(x[i].(*Term), y[i].(*Term)))
		}
		return retExit(st, r)
	}
	stubs["bytes.Equal"] = stubs["internal/bytealg.Equal"]
}

func stringsIndex(a, b string) int {
	for i := 0; i+len(b) <= len(a); i++ {
		if a[i:i+len(b)] == b {
			return i
		}
	}
	return -1
}
