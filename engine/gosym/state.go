package gosym

import (
	"fmt"
	"go/types"
	"sort"

	"golang.org/x/tools/go/ssa"
)

// State: path condition + heap.  Frames are kept by the explorer.
type State struct {
	pc      []*Term
	heap    map[ObjID]Value
	next    ObjID
	tags    map[string]int // nondet tag counters
	region  []regionRec    // active known-finding regions (stack)
	mutexes map[ObjID]bool // held sync.Mutex objects
	reached map[string]bool
	observe []Observation
	nowSeq  int
	lastNow *Term
	model   Model // a model of pc (counterexample cache), or nil
	views   map[ObjID]bool // read-only array copies made by slice-to-array-pointer conversions
	parked  []*parkedG     // goroutines blocked under the canonical schedule (sched.go)
	gseq    int            // goroutines spawned so far
	gdepth  int            // > 0 while a goroutine other than main is running
	gcur    int            // id of the goroutine that is running (0: main)
	vnow    int64          // virtual time of the timer wheel (ns): the instant of the last sleeper woken
	socks   []ObjID        // sockets opened so far (sockets.go)
	choice  []int          // program-level choices made with nondetEnum (states with different choices never merge)
	epochs  []epochRec     // times whose epoch second has been named (Time.UnixMilli)
	clock   *Term          // deterministic clock (sockets.go); nil: time.Now() yields fresh non-decreasing instants
	net     *netState      // socket script and recorded writes (copy-on-write)
	ranges  map[*Term]urange // unsigned ranges implied by assumed comparisons (ranges.go); copy-on-write
	rangesShared bool
}

type regionRec struct {
	ID   string
	Cond *Term
}

type Observation struct {
	Name string
	V    Value
}

const firstDynObj ObjID = 1 << 20

func (e *Engine) newState() *State {
	return &State{heap: map[ObjID]Value{}, next: firstDynObj, tags: map[string]int{}, mutexes: map[ObjID]bool{}, reached: map[string]bool{}}
}

func (s *State) fork() *State {
	n := &State{
		pc:      s.pc[:len(s.pc):len(s.pc)],
		heap:    make(map[ObjID]Value, len(s.heap)+8),
		next:    s.next,
		tags:    make(map[string]int, len(s.tags)),
		region:  s.region[:len(s.region):len(s.region)],
		mutexes: make(map[ObjID]bool, len(s.mutexes)),
		reached: make(map[string]bool, len(s.reached)),
		observe: s.observe[:len(s.observe):len(s.observe)],
		nowSeq:  s.nowSeq,
		lastNow: s.lastNow,
		parked:  s.parked[:len(s.parked):len(s.parked)],
		gseq:    s.gseq,
		gdepth:  s.gdepth,
		gcur:    s.gcur,
		vnow:    s.vnow,
		socks:   s.socks[:len(s.socks):len(s.socks)],
		choice:  s.choice[:len(s.choice):len(s.choice)],
		ranges:  s.ranges,
		rangesShared: true,
		clock:   s.clock,
		net:     s.net,
		epochs:  s.epochs[:len(s.epochs):len(s.epochs)],
	}
	s.rangesShared = true
	if len(s.views) > 0 {
		n.views = make(map[ObjID]bool, len(s.views))
		for k, v := range s.views {
			n.views[k] = v
		}
	}
	if s.model != nil {
		n.model = make(Model, len(s.model))
		for k, v := range s.model {
			n.model[k] = v
		}
	}
	for k, v := range s.heap {
		n.heap[k] = v
	}
	for k, v := range s.tags {
		n.tags[k] = v
	}
	for k, v := range s.mutexes {
		n.mutexes[k] = v
	}
	for k, v := range s.reached {
		n.reached[k] = v
	}
	return n
}

func (s *State) assume(t *Term) {
	if t.IsTrue() {
		return
	}
	if s.model != nil && !modelHolds(s.model, t) {
		s.model = nil
	}
	s.pc = append(s.pc[:len(s.pc):len(s.pc)], t)
	s.noteAssume(t)
}

func (e *Engine) alloc(s *State, v Value) ObjID {
	id := s.next
	s.next++
	s.heap[id] = v
	return id
}

func (e *Engine) obj(s *State, id ObjID) Value {
	if v, ok := s.heap[id]; ok {
		return v
	}
	if v, ok := e.base[id]; ok {
		return v
	}
	panic(fmt.Sprintf("internal: dangling object %d", id))
}

// ---------------------------------------------------------------- paths

func (e *Engine) getPath(s *State, root Value, path []PathElem) Value {
	v := root
	for _, pe := range path {
		switch x := v.(type) {
		case StructV:
			v = x.F[pe.I]
		case ArrayV:
			if pe.S != nil {
				return e.selectElem(x.E, pe.S)
			}
			if pe.I < 0 || pe.I >= len(x.E) {
				panic(fmt.Sprintf("internal: path index %d out of %d", pe.I, len(x.E)))
			}
			v = x.E[pe.I]
		case TupleV:
			v = x[pe.I]
		default:
			panic(unsupported(fmt.Sprintf("path through %T", v)))
		}
	}
	return v
}

// selectElem builds the ite-chain elems[idx].
func (e *Engine) selectElem(elems []Value, idx *Term) Value {
	if len(elems) == 0 {
		panic(unsupported("symbolic index into empty array"))
	}
	res := elems[len(elems)-1]
	for i := len(elems) - 2; i >= 0; i-- {
		g := e.tc.Eq(idx, e.tc.BV(uint64(i), idx.Sort.W))
		m, ok := e.mergeVal(g, elems[i], res)
		if !ok {
			panic(unsupported("symbolic index over elements of different shape"))
		}
		res = m
	}
	return res
}

func (e *Engine) setPath(root Value, path []PathElem, nv Value) Value {
	if len(path) == 0 {
		return nv
	}
	pe := path[0]
	switch x := root.(type) {
	case StructV:
		f := make([]Value, len(x.F))
		copy(f, x.F)
		f[pe.I] = e.setPath(x.F[pe.I], path[1:], nv)
		return StructV{F: f}
	case ArrayV:
		el := make([]Value, len(x.E))
		copy(el, x.E)
		if pe.S != nil {
			if len(path) != 1 {
				panic(unsupported("symbolic index not last in path"))
			}
			for i := range el {
				g := e.tc.Eq(pe.S, e.tc.BV(uint64(i), pe.S.Sort.W))
				m, ok := e.mergeVal(g, nv, el[i])
				if !ok {
					panic(unsupported("symbolic-index store over elements of different shape"))
				}
				el[i] = m
			}
			return ArrayV{E: el}
		}
		el[pe.I] = e.setPath(x.E[pe.I], path[1:], nv)
		return ArrayV{E: el}
	}
	panic(unsupported(fmt.Sprintf("store path through %T", root)))
}

func (e *Engine) load(s *State, p PtrV) Value {
	if p.IsNil() {
		panic("internal: load of nil (must be checked by caller)")
	}
	return e.getPath(s, e.obj(s, p.Obj), p.Path)
}

func (e *Engine) store(s *State, p PtrV, v Value) {
	if p.IsNil() {
		panic("internal: store to nil")
	}
	if e.storeHook != nil {
		e.storeHook(s, p)
	}
	if s.views[p.Obj] {
		panic(unsupported("store through an array pointer obtained from a sub-slice"))
	}
	root := e.obj(s, p.Obj)
	s.heap[p.Obj] = e.setPath(root, p.Path, v)
}

// ---------------------------------------------------------------- slices

func (e *Engine) sliceLenConst(sl SliceV) (int, bool) {
	if sl.Len.IsConst() {
		return int(sl.Len.C), true
	}
	return 0, false
}

// resolveLen: the concrete value of a length term when the path condition determines it
// (syntactically through an equality conjunct, otherwise by asking the solver).
func (e *Engine) resolveLen(s *State, ln *Term) (int, bool) {
	if ln.IsConst() {
		return int(ln.C), true
	}
	for i := len(s.pc) - 1; i >= 0; i-- {
		t := s.pc[i]
		if t.Op == OpEq && t.Args[0] == ln && t.Args[1].IsConst() {
			return int(t.Args[1].C), true
		}
	}
	ok, m := e.feasibleM(s, e.tc.True, "length value")
	if !ok || m == nil {
		as := append([]*Term{}, s.pc...)
		v, mm, vals := e.sol.Check("length value", as, ln)
		if v != Sat || len(vals) != 1 {
			return 0, false
		}
		_ = mm
		k := vals[0]
		if e.feasible(s, e.tc.Ne(ln, e.tc.BV(k, ln.Sort.W)), "length unique") {
			return 0, false
		}
		return int(k), true
	}
	ev := newEvaluator(copyModel(m))
	k := ev.eval(ln)
	if !ev.ok {
		return 0, false
	}
	if e.feasible(s, e.tc.Ne(ln, e.tc.BV(k, ln.Sort.W)), "length unique") {
		return 0, false
	}
	return int(k), true
}

func (e *Engine) sliceElems(s *State, sl SliceV) []Value {
	n, ok := e.resolveLen(s, sl.Len)
	if !ok {
		panic(unsupported("elements of a slice with symbolic length"))
	}
	if sl.Nil || n == 0 {
		return nil
	}
	arr := e.getPath(s, e.obj(s, sl.Obj), sl.Path).(ArrayV)
	return arr.E[sl.Off : sl.Off+n]
}

func (e *Engine) newSlice(s *State, elems []Value, capacity int, zero Value) SliceV {
	if capacity < len(elems) {
		capacity = len(elems)
	}
	arr := make([]Value, capacity)
	copy(arr, elems)
	for i := len(elems); i < capacity; i++ {
		arr[i] = zero
	}
	id := e.alloc(s, ArrayV{E: arr})
	return SliceV{Obj: id, Off: 0, Len: e.tc.BV(uint64(len(elems)), 64), Cap: capacity}
}

func (e *Engine) bytesOf(s *State, sl SliceV) []*Term {
	el := e.sliceElems(s, sl)
	out := make([]*Term, len(el))
	for i, v := range el {
		out[i] = v.(*Term)
	}
	return out
}

func (e *Engine) newByteSlice(s *State, b []*Term) SliceV {
	el := make([]Value, len(b))
	for i, t := range b {
		el[i] = t
	}
	return e.newSlice(s, el, len(el), e.tc.BV(0, 8))
}

// ---------------------------------------------------------------- maps

func (e *Engine) mapObj(s *State, m MapV) *MapObj {
	return e.obj(s, m.Obj).(*MapObj)
}

func (e *Engine) keyEq(a, b Value) *Term {
	return e.eqVal(a, b)
}

// mapLookup returns (value, present).
func (e *Engine) mapLookup(s *State, m MapV, key Value, valT types.Type) (Value, *Term) {
	zero := e.zero(valT)
	if m.Obj == 0 {
		return zero, e.tc.False
	}
	mo := e.mapObj(s, m)
	res := zero
	found := e.tc.False
	for i := len(mo.E) - 1; i >= 0; i-- {
		en := mo.E[i]
		hit := e.tc.And(en.Present, e.keyEq(en.K, key))
		if hit.IsFalse() {
			continue
		}
		mv, ok := e.mergeVal(hit, en.V, res)
		if !ok {
			panic(unsupported("map lookup over values of different shape"))
		}
		res = mv
		found = e.tc.Or(found, hit)
	}
	return res, found
}

type mapAlt struct {
	cond  *Term
	val   Value
	found *Term
}

// mapLookupAlts: like mapLookup, but when the candidate values cannot be merged into one ite-value the
// lookup is returned as several alternatives (mutually exclusive conditions) for the caller to fork on.
func (e *Engine) mapLookupAlts(s *State, m MapV, key Value, valT types.Type) []mapAlt {
	zero := e.zero(valT)
	if m.Obj == 0 {
		return []mapAlt{{e.tc.True, zero, e.tc.False}}
	}
	mo := e.mapObj(s, m)
	var alts []mapAlt
	none := e.tc.True
	for _, en := range mo.E {
		hit := e.tc.And(en.Present, e.keyEq(en.K, key))
		if hit.IsFalse() {
			continue
		}
		alts = append(alts, mapAlt{e.tc.And(none, hit), en.V, e.tc.True})
		none = e.tc.And(none, e.tc.Not(hit))
	}
	alts = append(alts, mapAlt{none, zero, e.tc.False})
	// merge what can be merged
	var out []mapAlt
	for _, a := range alts {
		if a.cond.IsFalse() {
			continue
		}
		merged := false
		for i := range out {
			if mv, ok := e.mergeVal(a.cond, a.val, out[i].val); ok {
				out[i] = mapAlt{e.tc.Or(out[i].cond, a.cond), mv, e.tc.Ite(a.cond, a.found, out[i].found)}
				merged = true
				break
			}
		}
		if !merged {
			out = append(out, a)
		}
	}
	return out
}

func (e *Engine) mapUpdate(s *State, m MapV, key, val Value) {
	mo := e.mapObj(s, m)
	out := &MapObj{KeyT: mo.KeyT, ValT: mo.ValT}
	anyHit := e.tc.False
	done := false
	for _, en := range mo.E {
		if done {
			out.E = append(out.E, en)
			continue
		}
		eq := e.keyEq(en.K, key)
		if eq.IsTrue() {
			out.E = append(out.E, MapEntry{K: en.K, V: val, Present: e.tc.True})
			done = true
			continue
		}
		if eq.IsFalse() {
			out.E = append(out.E, en)
			continue
		}
		// symbolic: conditional overwrite when the key matches a present entry
		hit := e.tc.And(eq, en.Present)
		if !e.feasible(s, hit, "map key alias") {
			out.E = append(out.E, en)
			continue
		}
		nv, ok := e.mergeVal(hit, val, en.V)
		if !ok {
			panic(unsupported("map update over values of different shape"))
		}
		out.E = append(out.E, MapEntry{K: en.K, V: nv, Present: en.Present})
		anyHit = e.tc.Or(anyHit, hit)
	}
	if !done {
		out.E = append(out.E, MapEntry{K: key, V: val, Present: e.tc.Not(anyHit)})
	}
	s.heap[m.Obj] = out
}

func (e *Engine) mapDelete(s *State, m MapV, key Value) {
	if m.Obj == 0 {
		return
	}
	mo := e.mapObj(s, m)
	out := &MapObj{KeyT: mo.KeyT, ValT: mo.ValT}
	for _, en := range mo.E {
		eq := e.keyEq(en.K, key)
		if eq.IsTrue() {
			continue
		}
		if !eq.IsFalse() {
			en.Present = e.tc.And(en.Present, e.tc.Not(eq))
		}
		out.E = append(out.E, en)
	}
	s.heap[m.Obj] = out
}

func (e *Engine) mapLen(s *State, m MapV) *Term {
	if m.Obj == 0 {
		return e.tc.BV(0, 64)
	}
	mo := e.mapObj(s, m)
	n := e.tc.BV(0, 64)
	for _, en := range mo.E {
		n = e.tc.BVAdd(n, e.tc.Ite(en.Present, e.tc.BV(1, 64), e.tc.BV(0, 64)))
	}
	return n
}

// ---------------------------------------------------------------- merging of states

// commonPrefix returns the length of the shared prefix of two path conditions.
func commonPrefix(a, b []*Term) int {
	n := 0
	for n < len(a) && n < len(b) && a[n] == b[n] {
		n++
	}
	return n
}

// mergeStates merges b into a (a is consumed).  frames/regs are merged by the caller with the same guard.
func (e *Engine) mergeStates(a, b *State, extra func(g *Term) bool) (*State, bool) {
	n := commonPrefix(a.pc, b.pc)
	if e.opt.MergeDebug && (len(a.pc)-n > 50 || len(b.pc)-n > 50) {
		fmt.Printf("MERGE pc a=%d b=%d common=%d\n", len(a.pc), len(b.pc), n)
	}
	ga := e.tc.And(a.pc[n:]...)
	gb := e.tc.And(b.pc[n:]...)
	g := ga // guard selecting a's values
	if len(a.region) != len(b.region) {
		return nil, false
	}
	for i := range a.region {
		if a.region[i] != b.region[i] {
			return nil, false
		}
	}
	if len(a.mutexes) != len(b.mutexes) {
		return nil, false
	}
	for k, v := range a.mutexes {
		if b.mutexes[k] != v {
			return nil, false
		}
	}
	if len(a.observe) != len(b.observe) {
		return nil, false
	}
	if a.nowSeq != b.nowSeq || a.lastNow != b.lastNow {
		return nil, false
	}
	if len(a.choice) != len(b.choice) || !netEqual(a.net, b.net) {
		return nil, false
	}
	for i := range a.choice {
		if a.choice[i] != b.choice[i] {
			return nil, false
		}
	}
	if len(a.epochs) != len(b.epochs) {
		return nil, false
	}
	for i := range a.epochs {
		if a.epochs[i] != b.epochs[i] {
			return nil, false
		}
	}
	if (a.clock == nil) != (b.clock == nil) {
		return nil, false
	}
	if a.vnow != b.vnow || a.gcur != b.gcur {
		return nil, false
	}
	if a.gseq != b.gseq || a.gdepth != b.gdepth || len(a.socks) != len(b.socks) || !parkedEqual(a.parked, b.parked) {
		return nil, false
	}
	for k, v := range a.tags {
		if b.tags[k] != v {
			return nil, false
		}
	}
	if len(a.tags) != len(b.tags) {
		return nil, false
	}
	heap := make(map[ObjID]Value, len(a.heap))
	for id, va := range a.heap {
		vb, ok := b.heap[id]
		if !ok {
			if bv, ok2 := e.base[id]; ok2 {
				vb = bv
			} else {
				// allocated only on a's side: unreachable from b, keep as is
				heap[id] = va
				continue
			}
		}
		if sameValue(va, vb) {
			heap[id] = va
			continue
		}
		mv, ok := e.mergeVal(g, va, vb)
		if !ok {
			return nil, false
		}
		heap[id] = mv
	}
	for id, vb := range b.heap {
		if _, ok := a.heap[id]; ok {
			continue
		}
		if av, ok := e.base[id]; ok {
			mv, ok := e.mergeVal(g, av, vb)
			if !ok {
				return nil, false
			}
			heap[id] = mv
			continue
		}
		heap[id] = vb
	}
	obs := make([]Observation, len(a.observe))
	for i := range a.observe {
		if a.observe[i].Name != b.observe[i].Name {
			return nil, false
		}
		mv, ok := e.mergeVal(g, a.observe[i].V, b.observe[i].V)
		if !ok {
			return nil, false
		}
		obs[i] = Observation{a.observe[i].Name, mv}
	}
	if extra != nil && !extra(g) {
		return nil, false
	}
	out := &State{
		pc:      append(a.pc[:n:n], e.tc.Or(ga, gb)),
		heap:    heap,
		next:    a.next,
		tags:    a.tags,
		region:  a.region,
		mutexes: a.mutexes,
		reached: a.reached,
		observe: obs,
		nowSeq:  a.nowSeq,
		lastNow: a.lastNow,
		model:   a.model,
		views:   a.views,
		parked:  a.parked,
		gseq:    a.gseq,
		gdepth:  a.gdepth,
		gcur:    a.gcur,
		vnow:    a.vnow,
		socks:   a.socks,
		choice:  a.choice,
		net:     a.net,
		epochs:  a.epochs,
	}
	if a.clock != nil && b.clock != nil {
		out.clock = e.tc.Ite(g, a.clock, b.clock)
	}
	if len(a.ranges) > 0 && len(b.ranges) > 0 {
		out.ranges = map[*Term]urange{}
		for k, ra := range a.ranges {
			if rb, ok := b.ranges[k]; ok {
				out.ranges[k] = urange{min(ra.lo, rb.lo), max(ra.hi, rb.hi)}
			}
		}
	}
	for k, v := range b.views {
		if out.views == nil {
			out.views = map[ObjID]bool{}
		}
		out.views[k] = v
	}
	if out.model == nil {
		out.model = b.model
	}
	if b.next > out.next {
		out.next = b.next
	}
	for k := range b.reached {
		out.reached[k] = true
	}
	if last := out.pc[len(out.pc)-1]; last.IsTrue() {
		out.pc = out.pc[:len(out.pc)-1]
	}
	e.stats.Merges++
	return out, true
}

// sameValue: cheap check used to skip merging of untouched objects.
func sameValue(a, b Value) bool {
	switch x := a.(type) {
	case *Term:
		y, ok := b.(*Term)
		return ok && x == y
	case *MapObj:
		y, ok := b.(*MapObj)
		return ok && x == y
	case *ChanObj:
		y, ok := b.(*ChanObj)
		return ok && x == y
	case *SockObj:
		y, ok := b.(*SockObj)
		return ok && x == y
	case ArrayV:
		y, ok := b.(ArrayV)
		return ok && len(x.E) == len(y.E) && (len(x.E) == 0 || &x.E[0] == &y.E[0])
	case StructV:
		y, ok := b.(StructV)
		return ok && len(x.F) == len(y.F) && (len(x.F) == 0 || &x.F[0] == &y.F[0])
	}
	return false
}

// ---------------------------------------------------------------- function info (RPO, liveness)

type fnInfo struct {
	order   map[ssa.Value]int
	rpo     map[*ssa.BasicBlock]int
	liveIn  map[*ssa.BasicBlock]map[ssa.Value]bool
	hasLoop bool
}

func (e *Engine) info(fn *ssa.Function) *fnInfo {
	if fi, ok := e.fnInfos[fn]; ok {
		return fi
	}
	fi := &fnInfo{rpo: map[*ssa.BasicBlock]int{}, liveIn: map[*ssa.BasicBlock]map[ssa.Value]bool{}}
	// reverse post-order
	var post []*ssa.BasicBlock
	seen := map[*ssa.BasicBlock]bool{}
	var dfs func(b *ssa.BasicBlock)
	dfs = func(b *ssa.BasicBlock) {
		seen[b] = true
		for _, s := range b.Succs {
			if !seen[s] {
				dfs(s)
			}
		}
		post = append(post, b)
	}
	if len(fn.Blocks) > 0 {
		dfs(fn.Blocks[0])
		if fn.Recover != nil && !seen[fn.Recover] {
			dfs(fn.Recover)
		}
	}
	for i := range post {
		fi.rpo[post[len(post)-1-i]] = i
	}
	// liveness
	use := map[*ssa.BasicBlock]map[ssa.Value]bool{}
	def := map[*ssa.BasicBlock]map[ssa.Value]bool{}
	phiUse := map[*ssa.BasicBlock]map[*ssa.BasicBlock]map[ssa.Value]bool{} // succ -> pred -> values
	isTracked := func(v ssa.Value) bool {
		switch v.(type) {
		case *ssa.Const, *ssa.Global, *ssa.Function, *ssa.Builtin:
			return false
		}
		return v != nil
	}
	for _, b := range fn.Blocks {
		u, d := map[ssa.Value]bool{}, map[ssa.Value]bool{}
		for _, ins := range b.Instrs {
			if phi, ok := ins.(*ssa.Phi); ok {
				d[phi] = true
				for i, op := range phi.Edges {
					if isTracked(op) {
						pm := phiUse[b]
						if pm == nil {
							pm = map[*ssa.BasicBlock]map[ssa.Value]bool{}
							phiUse[b] = pm
						}
						p := b.Preds[i]
						if pm[p] == nil {
							pm[p] = map[ssa.Value]bool{}
						}
						pm[p][op] = true
					}
				}
				continue
			}
			var ops []*ssa.Value
			ops = ins.Operands(ops)
			for _, op := range ops {
				if *op != nil && isTracked(*op) && !d[*op] {
					u[*op] = true
				}
			}
			if v, ok := ins.(ssa.Value); ok {
				d[v] = true
			}
		}
		use[b], def[b] = u, d
		fi.liveIn[b] = map[ssa.Value]bool{}
	}
	changed := true
	for changed {
		changed = false
		for i := len(fn.Blocks) - 1; i >= 0; i-- {
			b := fn.Blocks[i]
			out := map[ssa.Value]bool{}
			for _, s := range b.Succs {
				for v := range fi.liveIn[s] {
					out[v] = true
				}
				if pm := phiUse[s]; pm != nil {
					for v := range pm[b] {
						out[v] = true
					}
				}
			}
			in := fi.liveIn[b]
			for v := range use[b] {
				if !in[v] {
					in[v] = true
					changed = true
				}
			}
			for v := range out {
				if !def[b][v] && !in[v] {
					in[v] = true
					changed = true
				}
			}
		}
	}
	e.fnInfos[fn] = fi
	return fi
}

// ---------------------------------------------------------------- frames

type deferred struct {
	fn   Value
	args []Value
	call *ssa.CallCommon
}

type Frame struct {
	fn        *ssa.Function
	info      *fnInfo
	regs      map[ssa.Value]Value
	block     *ssa.BasicBlock
	backedges int
	defers    []deferred
	depth     int
	entryNext ObjID
	gtop      bool // top-level frame of a goroutine (may park)
	gid       int
}

func (f *Frame) clone() *Frame {
	n := *f
	n.regs = make(map[ssa.Value]Value, len(f.regs))
	for k, v := range f.regs {
		n.regs[k] = v
	}
	n.defers = f.defers[:len(f.defers):len(f.defers)]
	return &n
}

type item struct {
	st *State
	fr *Frame
}

func (e *Engine) mergeItems(a, b item) (item, bool) {
	if len(a.fr.regs) != len(b.fr.regs) || len(a.fr.defers) != len(b.fr.defers) {
		return item{}, false
	}
	for i := range a.fr.defers {
		if a.fr.defers[i].call != b.fr.defers[i].call {
			return item{}, false
		}
	}
	var regs map[ssa.Value]Value
	var defers []deferred
	st, ok := e.mergeStates(a.st, b.st, func(g *Term) bool {
		regs = make(map[ssa.Value]Value, len(a.fr.regs))
		for k, va := range a.fr.regs {
			vb, ok := b.fr.regs[k]
			if !ok {
				return false
			}
			if identicalVal(va, vb) {
				regs[k] = va
				continue
			}
			mv, ok := e.mergeVal(g, va, vb)
			if !ok {
				return false
			}
			regs[k] = mv
		}
		for i := range a.fr.defers {
			da, db := a.fr.defers[i], b.fr.defers[i]
			fv, ok := e.mergeVal(g, da.fn, db.fn)
			if !ok {
				return false
			}
			args, ok := e.mergeVals(g, da.args, db.args)
			if !ok {
				return false
			}
			defers = append(defers, deferred{fn: fv, args: args, call: da.call})
		}
		return true
	})
	if !ok {
		return item{}, false
	}
	fr := *a.fr
	fr.regs = regs
	fr.defers = defers
	return item{st, &fr}, true
}

// queue of pending items ordered by (backedges, rpo index)
type pqueue struct{ items []item }

func (q *pqueue) push(it item) { q.items = append(q.items, it) }

func (q *pqueue) popGroup() []item {
	sort.SliceStable(q.items, func(i, j int) bool {
		a, b := q.items[i].fr, q.items[j].fr
		if a.backedges != b.backedges {
			return a.backedges < b.backedges
		}
		return a.info.rpo[a.block] < b.info.rpo[b.block]
	})
	first := q.items[0]
	n := 1
	for n < len(q.items) && q.items[n].fr.backedges == first.fr.backedges && q.items[n].fr.block == first.fr.block {
		n++
	}
	g := append([]item{}, q.items[:n]...)
	q.items = q.items[n:]
	return g
}

// whyNoMerge explains (for diagnostics) why two items at the same control point did not merge.
func (e *Engine) whyNoMerge(a, b item) string {
	g := e.tc.Var("dbg!g", SBool)
	if len(a.fr.regs) != len(b.fr.regs) {
		return "different register sets"
	}
	for k, va := range a.fr.regs {
		vb, ok := b.fr.regs[k]
		if !ok {
			return "register " + k.Name() + " missing"
		}
		if _, ok := e.mergeVal(g, va, vb); !ok {
			return "register " + k.Name() + ": " + e.show(va) + " vs " + e.show(vb)
		}
	}
	for id, va := range a.st.heap {
		vb, ok := b.st.heap[id]
		if !ok {
			if bv, ok2 := e.base[id]; ok2 {
				vb = bv
			} else {
				continue
			}
		}
		if sameValue(va, vb) {
			continue
		}
		if _, ok := e.mergeVal(g, va, vb); !ok {
			return fmt.Sprintf("heap object %d: %s vs %s", id, e.show(va), e.show(vb))
		}
	}
	if len(a.st.observe) != len(b.st.observe) {
		return "observations differ"
	}
	if len(a.st.tags) != len(b.st.tags) {
		return "nondet tag counters differ"
	}
	for k, v := range a.st.tags {
		if b.st.tags[k] != v {
			return "nondet tag counter " + k
		}
	}
	return "other (regions/mutexes/defers)"
}
