package gosym

import (
	"fmt"
	"go/types"
	"regexp"
	"strings"

	"golang.org/x/tools/go/ssa"
)

// Value is one of: *Term (bool / integer scalar), StrV, PtrV, SliceV, StructV,
// ArrayV, IfaceV, MapV, FuncV, ChanV, TupleV, TimeV, LocV, RVal, RType,
// RegexpV, ErrV, IterV, nil (uninitialised).
type Value interface{}

type ObjID int

type PathElem struct {
	I int
	S *Term // symbolic index (BV64) when non-nil; only as last element
}

// StrV: string with concrete length and per-byte terms (BV8).  Opaque strings
// have unknown content and length; they may be passed around and concatenated
// but not inspected.
type StrV struct {
	B      []*Term
	Opaque bool
	Note   string
	MinLen int // opaque strings: a lower bound on the length (1 = known to be non-empty)
	Ref    Value // opaque text of a network address: the *net.UDPAddr / *net.TCPAddr it was formatted from
}

type PtrV struct {
	Obj   ObjID
	Path  []PathElem
	NilIf *Term // when non-nil: the pointer is nil exactly under this condition, otherwise it points to Obj
}

func (p PtrV) IsNil() bool { return p.Obj == 0 }

// ptrNilTerm: the condition under which p is nil.
func (e *Engine) ptrNilTerm(p PtrV) *Term {
	if p.Obj == 0 {
		return e.tc.True
	}
	if p.NilIf == nil {
		return e.tc.False
	}
	return p.NilIf
}

type SliceV struct {
	Obj  ObjID
	Path []PathElem // path to the backing array inside the object
	Off  int
	Len  *Term // BV64; constant in most cases
	Cap  int   // capacity counted from Off
	Nil  bool
}

type StructV struct{ F []Value }
type ArrayV struct{ E []Value }
type TupleV []Value

type IfaceV struct {
	T types.Type // nil => nil interface
	V Value
}

type MapV struct{ Obj ObjID }

type FuncV struct {
	Fn      *ssa.Function
	Free    []Value
	Builtin *ssa.Builtin
	Native  string // engine-provided function value (by name)
}

func (f FuncV) IsNil() bool { return f.Fn == nil && f.Builtin == nil && f.Native == "" }

type ChanV struct{ Obj ObjID }

// ErrV is an opaque non-nil error value created by fmt.Errorf / errors.New or a stub.
type ErrV struct {
	ID       string // identity (format string / site)
	Msg      StrV
	Sentinel bool // created by a package initialiser (a value callers compare against)
}

// LocV is *time.Location.
type LocV struct {
	Kind int // 0 nil, 1 UTC, 2 Local, 3 the controller zone declared with verifControllerZoneAt (a zone other than the process zone)
}

// TimeV is the civil-record model of time.Time (DESIGN 4.1).  All fields are
// BV64 terms (Go int).
type TimeV struct {
	Y, M, D, H, Mi, S, Ns *Term
	UTC                   *Term // Bool: the value is in UTC (true) or in time.Local (false)
	Year0                 bool // result of time.Parse without a date (year 0, Jan 1)
	Other                 bool // the value is in the controller zone (LocV kind 3): UTC is false, Off/Bef/Rel are set
	Inst                  *Term // abstract instant (BV64 nanoseconds on an arbitrary monotonic axis); civil fields unused when set
	Off                   *Term // zone view Z2: the offset in effect at this time's instant (nil: the zone's fixed offset)
	Bef                   *Term // zone view Z2: the instant lies before the zone's transition (Bool; set with Off)
	Rel                   *Term // zone view Z2: the instant in seconds relative to 00:00 UTC of the anchor day (24-bit; set with Off)
}

// RegexpV is *regexp.Regexp.
type RegexpV struct {
	Pat string
	Re  *regexp.Regexp
}

// IterV is the state of a range loop (strings and maps).
type IterV struct {
	Str   *StrV
	Map   ObjID
	Pos   int
	IsMap bool
}

// RType is reflect.Type (the *rtype inside the interface).
type RType struct{ T types.Type }

// RVal is reflect.Value.
type RVal struct {
	T     types.Type
	Ref   *PtrV // addressable: refers to a cell
	V     Value // r-value otherwise
	RO    bool  // obtained through an unexported field
	Valid bool
}

// Map objects live in the heap.
type MapEntry struct {
	K       Value // scalar term or StrV (concrete) key
	V       Value
	Present *Term // Bool
}

type MapObj struct {
	E    []MapEntry
	KeyT types.Type
	ValT types.Type
}

// Chan objects
type ChanObj struct {
	Buf     []Value
	Cap     int
	Closed  bool
	Handoff int // values placed beyond Cap for a parked receiver (rendezvous)
	ReadyAt *Term // time.After channels: the instant the buffered value becomes available (deterministic clock)
}

// ---------------------------------------------------------------- helpers

func isConstTerm(v Value) (*Term, bool) {
	t, ok := v.(*Term)
	if ok && t.IsConst() {
		return t, true
	}
	return nil, false
}

func (s StrV) Concrete() (string, bool) {
	if s.Opaque {
		return "", false
	}
	b := make([]byte, len(s.B))
	for i, t := range s.B {
		if !t.IsConst() {
			return "", false
		}
		b[i] = byte(t.C)
	}
	return string(b), true
}

func (e *Engine) strConst(s string) StrV {
	b := make([]*Term, len(s))
	for i := 0; i < len(s); i++ {
		b[i] = e.tc.BV(uint64(s[i]), 8)
	}
	return StrV{B: b}
}

func pathEq(a, b []PathElem) bool {
	if len(a) != len(b) {
		return false
	}
	for i := range a {
		if a[i].I != b[i].I || a[i].S != b[i].S {
			return false
		}
	}
	return true
}

func appendPath(p []PathElem, e PathElem) []PathElem {
	q := make([]PathElem, len(p)+1)
	copy(q, p)
	q[len(p)] = e
	return q
}

var timeStruct *types.Struct

// isTimeType reports whether t's underlying type is time.Time's struct.
func (e *Engine) isTimeType(t types.Type) bool {
	if e.timeUnder == nil {
		return false
	}
	return types.Identical(t.Underlying(), e.timeUnder)
}

func isNamed(t types.Type, pkg, name string) bool {
	if a, ok := t.(*types.Alias); ok {
		t = types.Unalias(a)
	}
	n, ok := t.(*types.Named)
	if !ok {
		return false
	}
	o := n.Obj()
	return o.Name() == name && o.Pkg() != nil && o.Pkg().Path() == pkg
}

func intWidth(b *types.Basic) (int, bool) {
	switch b.Kind() {
	case types.Int8:
		return 8, true
	case types.Uint8:
		return 8, false
	case types.Int16:
		return 16, true
	case types.Uint16:
		return 16, false
	case types.Int32, types.UntypedRune:
		return 32, true
	case types.Uint32:
		return 32, false
	case types.Int64, types.Int, types.UntypedInt:
		return 64, true
	case types.Uint64, types.Uint, types.Uintptr:
		return 64, false
	}
	return 0, false
}

func isSigned(t types.Type) bool {
	if b, ok := t.Underlying().(*types.Basic); ok {
		_, s := intWidth(b)
		return s
	}
	return false
}

func (e *Engine) zero(t types.Type) Value {
	if isNamed(t, "reflect", "Value") {
		return RVal{}
	}
	if e.isTimeType(t) {
		return e.zeroTime()
	}
	switch u := t.Underlying().(type) {
	case *types.Basic:
		switch {
		case u.Info()&types.IsBoolean != 0:
			return e.tc.False
		case u.Info()&types.IsInteger != 0:
			w, _ := intWidth(u)
			return e.tc.BV(0, w)
		case u.Info()&types.IsString != 0:
			return StrV{}
		case u.Kind() == types.UnsafePointer:
			return PtrV{}
		case u.Kind() == types.UntypedNil:
			return PtrV{}
		case u.Info()&types.IsFloat != 0:
			return e.tc.BV(0, 64)
		}
	case *types.Pointer:
		return PtrV{}
	case *types.Slice:
		return SliceV{Nil: true, Len: e.tc.BV(0, 64)}
	case *types.Struct:
		f := make([]Value, u.NumFields())
		for i := range f {
			f[i] = e.zero(u.Field(i).Type())
		}
		return StructV{F: f}
	case *types.Array:
		n := int(u.Len())
		el := make([]Value, n)
		if n > 0 {
			z := e.zero(u.Elem())
			for i := range el {
				el[i] = z
			}
		}
		return ArrayV{E: el}
	case *types.Interface:
		return IfaceV{}
	case *types.Map:
		return MapV{}
	case *types.Signature:
		return FuncV{}
	case *types.Chan:
		return ChanV{}
	case *types.Tuple:
		tv := make(TupleV, u.Len())
		for i := range tv {
			tv[i] = e.zero(u.At(i).Type())
		}
		return tv
	}
	panic(unsupported("zero value of " + t.String()))
}

func (e *Engine) zeroTime() TimeV {
	c := e.tc
	return TimeV{Y: c.BV(1, 64), M: c.BV(1, 64), D: c.BV(1, 64), H: c.BV(0, 64), Mi: c.BV(0, 64), S: c.BV(0, 64), Ns: c.BV(0, 64), UTC: c.True}
}

// ---------------------------------------------------------------- merge

// mergeVal returns ite(g, a, b) for structured values, or ok=false when the
// shapes differ.
func (e *Engine) mergeVal(g *Term, a, b Value) (Value, bool) {
	switch x := a.(type) {
	case nil:
		if b == nil {
			return nil, true
		}
		return nil, false
	case *Term:
		y, ok := b.(*Term)
		if !ok || x.Sort != y.Sort {
			return nil, false
		}
		return e.tc.Ite(g, x, y), true
	case StrV:
		y, ok := b.(StrV)
		if !ok || x.Opaque != y.Opaque {
			return nil, false
		}
		if x.Opaque {
			if y.MinLen < x.MinLen {
				x.MinLen = y.MinLen
			}
			return x, true
		}
		if len(x.B) != len(y.B) {
			return nil, false
		}
		same := true
		for i := range x.B {
			if x.B[i] != y.B[i] {
				same = false
				break
			}
		}
		if same {
			return x, true
		}
		out := make([]*Term, len(x.B))
		for i := range x.B {
			out[i] = e.tc.Ite(g, x.B[i], y.B[i])
		}
		return StrV{B: out}, true
	case PtrV:
		y, ok := b.(PtrV)
		if !ok {
			return nil, false
		}
		nx, ny := e.ptrNilTerm(x), e.ptrNilTerm(y)
		switch {
		case x.Obj == y.Obj && pathEq(x.Path, y.Path):
		case x.Obj == 0:
			x.Obj, x.Path = y.Obj, y.Path
		case y.Obj == 0:
		default:
			return nil, false
		}
		n := e.tc.Ite(g, nx, ny)
		if n.IsFalse() {
			x.NilIf = nil
		} else if n.IsTrue() {
			return PtrV{}, true
		} else {
			x.NilIf = n
		}
		return x, true
	case SliceV:
		y, ok := b.(SliceV)
		if !ok || x.Obj != y.Obj || x.Off != y.Off || x.Cap != y.Cap || x.Nil != y.Nil || !pathEq(x.Path, y.Path) {
			return nil, false
		}
		if x.Len != y.Len {
			// slices of different lengths are different shapes (appends and copies need concrete lengths)
			return nil, false
		}
		return x, true
	case StructV:
		y, ok := b.(StructV)
		if !ok || len(x.F) != len(y.F) {
			return nil, false
		}
		out, ok := e.mergeVals(g, x.F, y.F)
		if !ok {
			return nil, false
		}
		return StructV{F: out}, true
	case ArrayV:
		y, ok := b.(ArrayV)
		if !ok || len(x.E) != len(y.E) {
			return nil, false
		}
		out, ok := e.mergeVals(g, x.E, y.E)
		if !ok {
			return nil, false
		}
		return ArrayV{E: out}, true
	case TupleV:
		y, ok := b.(TupleV)
		if !ok || len(x) != len(y) {
			return nil, false
		}
		out, ok := e.mergeVals(g, x, y)
		if !ok {
			return nil, false
		}
		return TupleV(out), true
	case IfaceV:
		y, ok := b.(IfaceV)
		if !ok {
			return nil, false
		}
		if x.T == nil || y.T == nil {
			if x.T == nil && y.T == nil {
				return x, true
			}
			return nil, false
		}
		if !types.Identical(x.T, y.T) {
			return nil, false
		}
		v, ok := e.mergeVal(g, x.V, y.V)
		if !ok {
			return nil, false
		}
		return IfaceV{T: x.T, V: v}, true
	case MapV:
		y, ok := b.(MapV)
		if !ok || x.Obj != y.Obj {
			return nil, false
		}
		return x, true
	case ChanV:
		y, ok := b.(ChanV)
		if !ok || x.Obj != y.Obj {
			return nil, false
		}
		return x, true
	case FuncV:
		y, ok := b.(FuncV)
		if !ok || x.Fn != y.Fn || x.Builtin != y.Builtin || x.Native != y.Native || len(x.Free) != len(y.Free) {
			return nil, false
		}
		out, ok := e.mergeVals(g, x.Free, y.Free)
		if !ok {
			return nil, false
		}
		x.Free = out
		return x, true
	case ErrV:
		y, ok := b.(ErrV)
		if !ok {
			return nil, false
		}
		if x.ID == y.ID {
			return x, true
		}
		if x.Sentinel || y.Sentinel {
			return nil, false
		}
		// two diagnostic errors: their identity is never observed, only their being non-nil
		id := x.ID
		if y.ID < id {
			id = y.ID
		}
		return ErrV{ID: id, Msg: StrV{Opaque: true, Note: "error text"}}, true
	case LocV:
		y, ok := b.(LocV)
		if !ok || x != y {
			return nil, false
		}
		return x, true
	case TimeV:
		y, ok := b.(TimeV)
		if !ok || x.Year0 != y.Year0 || x.Other != y.Other || (x.Inst == nil) != (y.Inst == nil) || (x.Off == nil) != (y.Off == nil) {
			return nil, false
		}
		c := e.tc
		var off, bef, rel *Term
		if x.Off != nil {
			off = c.Ite(g, x.Off, y.Off)
			if x.Bef == nil || y.Bef == nil || (x.Rel == nil) != (y.Rel == nil) {
				return nil, false
			}
			bef = c.Ite(g, x.Bef, y.Bef)
			if x.Rel != nil {
				rel = c.Ite(g, x.Rel, y.Rel)
			}
		}
		if x.Inst != nil {
			x.Inst = c.Ite(g, x.Inst, y.Inst)
			x.UTC = c.Ite(g, x.UTC, y.UTC)
			return x, true
		}
		return TimeV{Y: c.Ite(g, x.Y, y.Y), M: c.Ite(g, x.M, y.M), D: c.Ite(g, x.D, y.D), H: c.Ite(g, x.H, y.H),
			Mi: c.Ite(g, x.Mi, y.Mi), S: c.Ite(g, x.S, y.S), Ns: c.Ite(g, x.Ns, y.Ns), UTC: c.Ite(g, x.UTC, y.UTC), Year0: x.Year0, Other: x.Other, Off: off, Bef: bef, Rel: rel}, true
	case RegexpV:
		y, ok := b.(RegexpV)
		if !ok || x.Pat != y.Pat {
			return nil, false
		}
		return x, true
	case RType:
		y, ok := b.(RType)
		if !ok || !types.Identical(x.T, y.T) {
			return nil, false
		}
		return x, true
	case RVal:
		y, ok := b.(RVal)
		if !ok || x.Valid != y.Valid || x.RO != y.RO || (x.Ref == nil) != (y.Ref == nil) {
			return nil, false
		}
		if !x.Valid {
			return x, true
		}
		if !types.Identical(x.T, y.T) {
			return nil, false
		}
		if x.Ref != nil {
			if x.Ref.Obj != y.Ref.Obj || !pathEq(x.Ref.Path, y.Ref.Path) {
				return nil, false
			}
			return x, true
		}
		v, ok := e.mergeVal(g, x.V, y.V)
		if !ok {
			return nil, false
		}
		x.V = v
		return x, true
	case IterV:
		y, ok := b.(IterV)
		if !ok || x.Pos != y.Pos || x.IsMap != y.IsMap || x.Map != y.Map || (x.Str == nil) != (y.Str == nil) {
			return nil, false
		}
		if x.Str != nil {
			v, ok := e.mergeVal(g, *x.Str, *y.Str)
			if !ok {
				return nil, false
			}
			s := v.(StrV)
			x.Str = &s
		}
		return x, true
	case *MapObj:
		y, ok := b.(*MapObj)
		if !ok {
			return nil, false
		}
		return e.mergeMap(g, x, y)
	case *SockObj:
		y, ok := b.(*SockObj)
		if !ok || x.Kind != y.Kind || x.Closed != y.Closed || x.Index != y.Index || !valEqual(x.Local, y.Local) || !valEqual(x.Remote, y.Remote) ||
			(x.RDl == nil) != (y.RDl == nil) || (x.WDl == nil) != (y.WDl == nil) {
			return nil, false
		}
		n := *x
		if x.RDl != nil {
			n.RDl = e.tc.Ite(g, x.RDl, y.RDl)
		}
		if x.WDl != nil {
			n.WDl = e.tc.Ite(g, x.WDl, y.WDl)
		}
		return &n, true
	case *ChanObj:
		y, ok := b.(*ChanObj)
		if !ok || x.Closed != y.Closed || x.Cap != y.Cap || len(x.Buf) != len(y.Buf) || x.Handoff != y.Handoff {
			return nil, false
		}
		if (x.ReadyAt == nil) != (y.ReadyAt == nil) {
			return nil, false
		}
		out, ok := e.mergeVals(g, x.Buf, y.Buf)
		if !ok {
			return nil, false
		}
		n := &ChanObj{Buf: out, Cap: x.Cap, Closed: x.Closed, Handoff: x.Handoff}
		if x.ReadyAt != nil {
			n.ReadyAt = e.tc.Ite(g, x.ReadyAt, y.ReadyAt)
		}
		return n, true
	}
	return nil, false
}

func (e *Engine) mergeVals(g *Term, a, b []Value) ([]Value, bool) {
	same := true
	for i := range a {
		if !identicalVal(a[i], b[i]) {
			same = false
			break
		}
	}
	if same {
		return a, true
	}
	out := make([]Value, len(a))
	for i := range a {
		if identicalVal(a[i], b[i]) {
			out[i] = a[i]
			continue
		}
		v, ok := e.mergeVal(g, a[i], b[i])
		if !ok {
			return nil, false
		}
		out[i] = v
	}
	return out, true
}

// identicalVal: cheap pointer-level identity for terms (hash-consed).
func identicalVal(a, b Value) bool {
	x, ok1 := a.(*Term)
	y, ok2 := b.(*Term)
	return ok1 && ok2 && x == y
}

func keyIdentical(a, b Value) bool {
	switch x := a.(type) {
	case *Term:
		y, ok := b.(*Term)
		return ok && x == y
	case StrV:
		y, ok := b.(StrV)
		if !ok {
			return false
		}
		s1, c1 := x.Concrete()
		s2, c2 := y.Concrete()
		return c1 && c2 && s1 == s2
	}
	return false
}

func (e *Engine) mergeMap(g *Term, x, y *MapObj) (Value, bool) {
	if x == y {
		return x, true
	}
	out := &MapObj{KeyT: x.KeyT, ValT: x.ValT}
	used := make([]bool, len(y.E))
	for _, ex := range x.E {
		found := false
		for j, ey := range y.E {
			if !used[j] && keyIdentical(ex.K, ey.K) {
				used[j] = true
				found = true
				v, ok := e.mergeVal(g, ex.V, ey.V)
				if !ok {
					return nil, false
				}
				out.E = append(out.E, MapEntry{K: ex.K, V: v, Present: e.tc.Ite(g, ex.Present, ey.Present)})
				break
			}
		}
		if !found {
			if _, conc := keyConcrete(ex.K); !conc {
				return nil, false
			}
			out.E = append(out.E, MapEntry{K: ex.K, V: ex.V, Present: e.tc.And(g, ex.Present)})
		}
	}
	for j, ey := range y.E {
		if used[j] {
			continue
		}
		if _, conc := keyConcrete(ey.K); !conc {
			return nil, false
		}
		out.E = append(out.E, MapEntry{K: ey.K, V: ey.V, Present: e.tc.And(e.tc.Not(g), ey.Present)})
	}
	return out, true
}

func keyConcrete(k Value) (string, bool) {
	switch x := k.(type) {
	case *Term:
		if x.IsConst() {
			return fmt.Sprintf("#%d:%d", x.Sort.W, x.C), true
		}
	case StrV:
		s, ok := x.Concrete()
		return "s:" + s, ok
	}
	return "", false
}

// ---------------------------------------------------------------- printing (diagnostics)

func (e *Engine) show(v Value) string {
	switch x := v.(type) {
	case nil:
		return "<undef>"
	case *Term:
		return x.String()
	case StrV:
		if s, ok := x.Concrete(); ok {
			return fmt.Sprintf("%q", s)
		}
		if x.Opaque {
			return "<opaque string " + x.Note + ">"
		}
		return fmt.Sprintf("<string len %d>", len(x.B))
	case PtrV:
		if x.IsNil() {
			return "nil"
		}
		return fmt.Sprintf("&obj%d%v", x.Obj, x.Path)
	case SliceV:
		if x.Nil {
			return "[]nil"
		}
		return fmt.Sprintf("slice(obj%d%v +%d len %s cap %d)", x.Obj, x.Path, x.Off, x.Len, x.Cap)
	case StructV:
		var p []string
		for _, f := range x.F {
			p = append(p, e.show(f))
		}
		return "{" + strings.Join(p, ", ") + "}"
	case ArrayV:
		return fmt.Sprintf("[%d]...", len(x.E))
	case IfaceV:
		if x.T == nil {
			return "nil-iface"
		}
		return "iface(" + x.T.String() + ":" + e.show(x.V) + ")"
	case ErrV:
		return "error(" + x.ID + ")"
	case TupleV:
		var p []string
		for _, f := range x {
			p = append(p, e.show(f))
		}
		return "(" + strings.Join(p, ", ") + ")"
	}
	return fmt.Sprintf("%T", v)
}

// valEqual: structural identity of two values (same terms, same object references).
func valEqual(a, b Value) bool {
	switch x := a.(type) {
	case nil:
		return b == nil
	case *Term:
		y, ok := b.(*Term)
		return ok && x == y
	case StrV:
		y, ok := b.(StrV)
		if !ok || x.Opaque != y.Opaque || len(x.B) != len(y.B) || x.Note != y.Note || !valEqual(x.Ref, y.Ref) {
			return false
		}
		for i := range x.B {
			if x.B[i] != y.B[i] {
				return false
			}
		}
		return true
	case PtrV:
		y, ok := b.(PtrV)
		if !ok || x.Obj != y.Obj || len(x.Path) != len(y.Path) || x.NilIf != y.NilIf {
			return false
		}
		for i := range x.Path {
			if x.Path[i] != y.Path[i] {
				return false
			}
		}
		return true
	case SliceV:
		y, ok := b.(SliceV)
		if !ok || x.Obj != y.Obj || x.Off != y.Off || x.Len != y.Len || x.Cap != y.Cap || x.Nil != y.Nil || len(x.Path) != len(y.Path) {
			return false
		}
		for i := range x.Path {
			if x.Path[i] != y.Path[i] {
				return false
			}
		}
		return true
	case MapV:
		y, ok := b.(MapV)
		return ok && x.Obj == y.Obj
	case ChanV:
		y, ok := b.(ChanV)
		return ok && x.Obj == y.Obj
	case StructV:
		y, ok := b.(StructV)
		if !ok || len(x.F) != len(y.F) {
			return false
		}
		for i := range x.F {
			if !valEqual(x.F[i], y.F[i]) {
				return false
			}
		}
		return true
	case ArrayV:
		y, ok := b.(ArrayV)
		if !ok || len(x.E) != len(y.E) {
			return false
		}
		for i := range x.E {
			if !valEqual(x.E[i], y.E[i]) {
				return false
			}
		}
		return true
	case TupleV:
		y, ok := b.(TupleV)
		if !ok || len(x) != len(y) {
			return false
		}
		for i := range x {
			if !valEqual(x[i], y[i]) {
				return false
			}
		}
		return true
	case IfaceV:
		y, ok := b.(IfaceV)
		if !ok || (x.T == nil) != (y.T == nil) {
			return false
		}
		if x.T == nil {
			return true
		}
		return types.Identical(x.T, y.T) && valEqual(x.V, y.V)
	case FuncV:
		y, ok := b.(FuncV)
		if !ok || x.Fn != y.Fn || x.Builtin != y.Builtin || x.Native != y.Native || len(x.Free) != len(y.Free) {
			return false
		}
		for i := range x.Free {
			if !valEqual(x.Free[i], y.Free[i]) {
				return false
			}
		}
		return true
	case IterV:
		y, ok := b.(IterV)
		return ok && x.IsMap == y.IsMap && x.Map == y.Map && x.Pos == y.Pos && x.Str == y.Str
	case ErrV:
		y, ok := b.(ErrV)
		return ok && x.ID == y.ID
	case LocV:
		y, ok := b.(LocV)
		return ok && x == y
	case TimeV:
		y, ok := b.(TimeV)
		return ok && x == y
	}
	return false
}
