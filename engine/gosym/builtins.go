package gosym

import (
	"fmt"
	"go/token"
	"go/types"
	"sort"
	"strings"

	"golang.org/x/tools/go/ssa"
)

func (e *Engine) callBuiltin(st *State, fr *Frame, b *ssa.Builtin, args []Value, call *ssa.CallCommon, pos token.Pos) []exit {
	c := e.tc
	switch b.Name() {
	case "len":
		switch x := args[0].(type) {
		case StrV:
			if x.Opaque {
				panic(unsupported("len of opaque string " + x.Note))
			}
			return retExit(st, c.BV(uint64(len(x.B)), 64))
		case SliceV:
			return retExit(st, x.Len)
		case ArrayV:
			return retExit(st, c.BV(uint64(len(x.E)), 64))
		case MapV:
			return retExit(st, e.mapLen(st, x))
		case PtrV:
			arr := e.load(st, x).(ArrayV)
			return retExit(st, c.BV(uint64(len(arr.E)), 64))
		case ChanV:
			return retExit(st, c.BV(uint64(len(e.obj(st, x.Obj).(*ChanObj).Buf)), 64))
		}
	case "cap":
		switch x := args[0].(type) {
		case SliceV:
			return retExit(st, c.BV(uint64(x.Cap), 64))
		case ArrayV:
			return retExit(st, c.BV(uint64(len(x.E)), 64))
		}
	case "append":
		return retExit(st, e.appendOp(st, args[0].(SliceV), args[1], call))
	case "copy":
		dst := args[0].(SliceV)
		var src []Value
		var srcLen int
		switch s := args[1].(type) {
		case SliceV:
			src = e.sliceElems(st, s)
			srcLen = len(src)
		case StrV:
			if s.Opaque {
				panic(unsupported("copy from opaque string"))
			}
			for _, t := range s.B {
				src = append(src, t)
			}
			srcLen = len(src)
		}
		dn, ok := e.resolveLen(st, dst.Len)
		if !ok {
			panic(unsupported("copy into slice of symbolic length"))
		}
		n := dn
		if srcLen < n {
			n = srcLen
		}
		tmp := append([]Value{}, src[:n]...)
		for i := 0; i < n; i++ {
			e.store(st, PtrV{Obj: dst.Obj, Path: appendPath(dst.Path, PathElem{I: dst.Off + i})}, tmp[i])
		}
		return retExit(st, c.BV(uint64(n), 64))
	case "SliceData":
		// unsafe.SliceData(s): pointer to the first element (nil for a nil slice)
		sl := args[0].(SliceV)
		if sl.Nil {
			return retExit(st, PtrV{})
		}
		return retExit(st, PtrV{Obj: sl.Obj, Path: appendPath(sl.Path, PathElem{I: sl.Off})})
	case "String":
		// unsafe.String(ptr, len): the len bytes starting at ptr (a pointer into a byte array)
		p, ok := args[0].(PtrV)
		n, okn := isConstTerm(args[1])
		if !ok || !okn {
			panic(unsupported("unsafe.String with symbolic length"))
		}
		if n.C == 0 {
			return retExit(st, StrV{})
		}
		if p.IsNil() || len(p.Path) == 0 || p.Path[len(p.Path)-1].S != nil {
			panic(unsupported("unsafe.String on an unsupported pointer"))
		}
		off := p.Path[len(p.Path)-1].I
		arr, ok := e.getPath(st, e.obj(st, p.Obj), p.Path[:len(p.Path)-1]).(ArrayV)
		if !ok || off+int(n.C) > len(arr.E) {
			panic(unsupported("unsafe.String outside a byte array"))
		}
		b := make([]*Term, n.C)
		for i := range b {
			b[i] = arr.E[off+i].(*Term)
		}
		return retExit(st, StrV{B: b})
	case "delete":
		e.mapDelete(st, args[0].(MapV), args[1])
		return retExit(st, nil)
	case "close":
		ch := args[0].(ChanV)
		co := e.obj(st, ch.Obj).(*ChanObj)
		if co.Closed {
			e.reportPanic(st, c.True, "close of closed channel", pos)
			return []exit{{st: st, kind: exitPanic, pmsg: "close of closed channel"}}
		}
		n := *co
		n.Closed = true
		st.heap[ch.Obj] = &n
		var px []exit
		var out []exit
		for _, s2 := range e.wake(st, ch.Obj, &px) {
			out = append(out, exit{st: s2, kind: exitReturn})
		}
		return append(out, px...)
	case "print", "println":
		return retExit(st, nil)
	case "recover":
		return retExit(st, IfaceV{})
	case "min", "max":
		signed := isSigned(call.Args[0].Type())
		r := args[0].(*Term)
		for _, a := range args[1:] {
			y := a.(*Term)
			var lt *Term
			if signed {
				lt = c.BVSlt(y, r)
			} else {
				lt = c.BVUlt(y, r)
			}
			if b.Name() == "max" {
				lt = c.Not(c.Or(lt, c.Eq(y, r)))
			}
			r = c.Ite(lt, y, r)
		}
		return retExit(st, r)
	case "ssa:wrapnilchk":
		if p, ok := args[0].(PtrV); ok {
			if p.IsNil() {
				e.reportPanic(st, c.True, "value method called through nil pointer", pos)
				return []exit{{st: st, kind: exitPanic, pmsg: "nil pointer dereference (wrapnilchk)"}}
			}
			if p.NilIf != nil {
				e.mustHold(st, c.Not(p.NilIf), "value method called through nil pointer", pos)
				p.NilIf = nil
				return retExit(st, p)
			}
		}
		return retExit(st, args[0])
	case "clear":
		if m, ok := args[0].(MapV); ok && m.Obj != 0 {
			mo := e.mapObj(st, m)
			st.heap[m.Obj] = &MapObj{KeyT: mo.KeyT, ValT: mo.ValT}
			return retExit(st, nil)
		}
	}
	panic(unsupported(fmt.Sprintf("builtin %s(%T...)", b.Name(), args[0])))
}

func (e *Engine) appendOp(st *State, s SliceV, more Value, call *ssa.CallCommon) Value {
	c := e.tc
	var add []Value
	switch m := more.(type) {
	case SliceV:
		add = e.sliceElems(st, m)
	case StrV:
		if m.Opaque {
			panic(unsupported("append of opaque string"))
		}
		for _, t := range m.B {
			add = append(add, t)
		}
	}
	n1, ok := e.resolveLen(st, s.Len)
	if !ok {
		panic(unsupported("append to slice of symbolic length"))
	}
	if len(add) == 0 {
		return s
	}
	add = append([]Value{}, add...)
	if !s.Nil && n1+len(add) <= s.Cap {
		for i, v := range add {
			e.store(st, PtrV{Obj: s.Obj, Path: appendPath(s.Path, PathElem{I: s.Off + n1 + i})}, v)
		}
		s.Len = c.BV(uint64(n1+len(add)), 64)
		return s
	}
	old := e.sliceElems(st, s)
	need := n1 + len(add)
	newcap := need
	if need <= 2*s.Cap {
		if s.Cap < 256 {
			newcap = 2 * s.Cap
		} else {
			newcap = s.Cap + (s.Cap+768)/4
		}
	}
	var zero Value
	if call != nil {
		zero = e.zero(call.Args[0].Type().Underlying().(*types.Slice).Elem())
	} else if len(add) > 0 {
		zero = add[0]
	}
	el := make([]Value, 0, newcap)
	el = append(append(el, old...), add...)
	return e.newSlice(st, el, newcap, zero)
}

// ---------------------------------------------------------------- channels / goroutines (non-blocking subset)

func (e *Engine) chanSend(st *State, ch ChanV, v Value) bool {
	co := e.obj(st, ch.Obj).(*ChanObj)
	if co.Closed {
		panic(unsupported("send on closed channel"))
	}
	if len(co.Buf) >= co.Cap && !e.schedSendOK(st, ch) {
		return false
	}
	n := *co
	n.Buf = append(append([]Value{}, co.Buf...), v)
	st.heap[ch.Obj] = &n
	return true
}

func (e *Engine) chanRecv(st *State, ch ChanV, t types.Type, commaOk bool) (Value, bool, bool) {
	co := e.obj(st, ch.Obj).(*ChanObj)
	if len(co.Buf) > 0 {
		n := *co
		v := co.Buf[0]
		n.Buf = append([]Value{}, co.Buf[1:]...)
		st.heap[ch.Obj] = &n
		return v, true, true
	}
	if co.Closed {
		var et types.Type
		if tt, ok := t.(*types.Tuple); ok {
			et = tt.At(0).Type()
		} else {
			et = t
		}
		return e.zero(et), false, true
	}
	return nil, false, false
}

func (e *Engine) schedSendOK(st *State, ch ChanV) bool { return false }

// ---------------------------------------------------------------- findings

func (e *Engine) addFinding(f Finding) {
	for _, g := range e.findings {
		if g.Kind == f.Kind && g.Label == f.Label && g.Site == f.Site && g.InRegion == f.InRegion && g.Region == f.Region {
			return
		}
	}
	f.Harness = e.harness
	e.findings = append(e.findings, f)
}

// reportFailure checks whether pc ∧ bad is satisfiable and records findings (split by the active
// known-finding region).  Returns true if the failure is infeasible (obligation discharged).
func (e *Engine) reportFailure(st *State, bad *Term, kind, label string, pos token.Pos) bool {
	if e.inInit {
		if bad.IsTrue() {
			panic(unsupported("failure during package initialisation: " + label))
		}
		return true
	}
	site := e.posString(pos)
	base := append([]*Term{}, st.pc...)
	discharged := true
	check := func(extra *Term, region string, in bool) {
		goal := bad
		if extra != nil {
			goal = e.tc.And(bad, extra)
		}
		as := append(e.relevant(base, goal), goal)
		v, m, _ := e.sol.Check(kind+":"+label, as)
		if v == Sat && len(as) < len(base)+1 {
			// a complete model is needed for replay: ask again with the whole path condition
			v, m, _ = e.sol.Check(kind+":"+label+" (full model)", append(append([]*Term{}, base...), goal))
		}
		switch v {
		case Unsat:
			return
		case Unknown:
			discharged = false
			e.addFinding(Finding{Kind: "unknown", Label: label + " (solver: unknown)", Site: site, Region: region, InRegion: in})
			return
		}
		discharged = false
		e.addFinding(Finding{Kind: kind, Label: label, Site: site, Model: e.completeModel(st, m), Region: region, InRegion: in, Observed: e.observedUnder(st, m)})
	}
	if len(st.region) > 0 {
		r := st.region[len(st.region)-1]
		check(e.tc.Not(r.Cond), r.ID, false)
		check(r.Cond, r.ID, true)
	} else {
		check(nil, "", false)
	}
	return discharged
}

func (e *Engine) reportPanic(st *State, cond *Term, msg string, pos token.Pos) bool {
	return e.reportFailure(st, cond, "panic", msg, pos)
}

// completeModel keeps only nondet variables (those declared by the harness) and drops internals.
func (e *Engine) completeModel(st *State, m Model) map[string]uint64 {
	out := map[string]uint64{}
	for k, v := range m {
		if strings.Contains(k, "!") {
			continue // engine-internal fresh variable
		}
		out[k] = v
	}
	return out
}

func (e *Engine) observedUnder(st *State, m Model) map[string]string {
	if len(st.observe) == 0 {
		return nil
	}
	out := map[string]string{}
	for _, o := range st.observe {
		out[o.Name] = e.renderUnder(st, o.V, m)
	}
	return out
}

// renderUnder renders a value under a model in the canonical text form also produced by the native
// harness support (see harness/support).
func (e *Engine) renderUnder(st *State, v Value, m Model) string {
	ev := func(t *Term) string {
		r, ok := e.tc.Eval(t, m)
		if !ok {
			// variables missing from the model are unconstrained: take 0
			full := Model{}
			for k, x := range m {
				full[k] = x
			}
			vs := map[*Term]bool{}
			CollectVars([]*Term{t}, vs)
			for x := range vs {
				if _, ok := full[x.Name]; !ok {
					full[x.Name] = 0
				}
			}
			r, ok = e.tc.Eval(t, full)
			if !ok {
				return "?"
			}
		}
		switch r.Sort.K {
		case KBool:
			if r.C == 1 {
				return "true"
			}
			return "false"
		case KInt:
			return fmt.Sprint(int64(r.C))
		}
		return fmt.Sprint(r.C)
	}
	switch x := v.(type) {
	case *Term:
		return ev(x)
	case StrV:
		if x.Opaque {
			return "<opaque>"
		}
		b := make([]byte, len(x.B))
		for i, t := range x.B {
			s := ev(t)
			var n int
			fmt.Sscan(s, &n)
			b[i] = byte(n)
		}
		return fmt.Sprintf("%q", string(b))
	case SliceV:
		if x.Nil {
			return "[]"
		}
		ln := ev(x.Len)
		var n int
		fmt.Sscan(ln, &n)
		arr := e.getPath(st, e.obj(st, x.Obj), x.Path).(ArrayV)
		var parts []string
		for i := 0; i < n && x.Off+i < len(arr.E); i++ {
			parts = append(parts, e.renderUnder(st, arr.E[x.Off+i], m))
		}
		return "[" + strings.Join(parts, " ") + "]"
	case IfaceV:
		if x.T == nil {
			return "nil"
		}
		if _, ok := x.V.(ErrV); ok {
			return "error"
		}
		return e.renderUnder(st, x.V, m)
	case ErrV:
		return "error"
	case StructV:
		var parts []string
		for _, f := range x.F {
			parts = append(parts, e.renderUnder(st, f, m))
		}
		return "{" + strings.Join(parts, " ") + "}"
	case ArrayV:
		var parts []string
		for _, f := range x.E {
			parts = append(parts, e.renderUnder(st, f, m))
		}
		return "[" + strings.Join(parts, " ") + "]"
	case PtrV:
		if x.IsNil() {
			return "nil"
		}
		return "&" + e.renderUnder(st, e.load(st, x), m)
	case TimeV:
		return fmt.Sprintf("T(%s-%s-%s %s:%s:%s)", ev(x.Y), ev(x.M), ev(x.D), ev(x.H), ev(x.Mi), ev(x.S))
	case MapV:
		if x.Obj == 0 {
			return "map[]"
		}
		mo := e.mapObj(st, x)
		var parts []string
		for _, en := range mo.E {
			if ev(en.Present) == "true" {
				parts = append(parts, e.renderUnder(st, en.K, m)+":"+e.renderUnder(st, en.V, m))
			}
		}
		sort.Strings(parts)
		return "map[" + strings.Join(parts, " ") + "]"
	}
	return fmt.Sprintf("<%T>", v)
}
