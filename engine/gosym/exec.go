package gosym

import (
	"fmt"
	"go/constant"
	"go/token"
	"go/types"
	"strings"
	"time"

	"golang.org/x/tools/go/ssa"
)

const (
	exitReturn = iota
	exitPanic
)

type exit struct {
	st   *State
	kind int
	val  Value // TupleV / single value / nil
	pmsg string
	park *parkedG // exitPark
	wait ObjID    // exitPark returned by a blocking stub: the object to wait on
	timer int64   // exitPark returned by time.Sleep in a goroutine: wake-up instant on the goroutine's own timeline (ns)
}

// runFunction explores fn from its entry under state st and returns the
// (shape-merged) exits.
func (e *Engine) runFunction(st *State, fn *ssa.Function, args []Value, free []Value, depth int) []exit {
	if len(fn.Blocks) == 0 {
		panic(unsupported("function without body: " + fn.String()))
	}
	if depth > 200 {
		panic(budgetErr{"call depth > 200 in " + fn.String()})
	}
	if !e.deadline.IsZero() && time.Now().After(e.deadline) {
		panic(budgetErr{"harness deadline exceeded"})
	}
	if e.isRepoPkg(fn.Pkg) || (fn.Origin() != nil && e.isRepoPkg(fn.Origin().Pkg)) {
		name := fn.String()
		if !strings.Contains(name, "zz_verif") && !e.inInit {
			e.funcsSeen[name] = true
		}
	}
	fr := &Frame{fn: fn, info: e.info(fn), regs: map[ssa.Value]Value{}, block: fn.Blocks[0], depth: depth, entryNext: st.next}
	for i, p := range fn.Params {
		if i < len(args) {
			fr.regs[p] = args[i]
		}
	}
	for i, fv := range fn.FreeVars {
		fr.regs[fv] = free[i]
	}
	var q pqueue
	q.push(item{st, fr})
	var exits []exit
	e.runLoop(&q, &exits)
	return e.mergeExits(exits, fr.entryNext)
}

func (e *Engine) mergeGroup(group []item) []item {
	for _, it := range group {
		e.canonItem(it)
	}
	var out []item
	for _, it := range group {
		merged := false
		for i := range out {
			if m, ok := e.mergeItems(out[i], it); ok {
				out[i] = m
				merged = true
				break
			}
		}
		if !merged {
			if e.opt.MergeDebug && len(out) > 0 {
				fmt.Printf("NOMERGE %s block %d: %s\n", it.fr.fn.Name(), it.fr.block.Index, e.whyNoMerge(out[0], it))
			}
			out = append(out, it)
		}
	}
	return out
}

func (e *Engine) mergeExits(exits []exit, base ObjID) []exit {
	if len(exits) < 2 || e.opt.NoMerge {
		return exits
	}
	for i := range exits {
		out := e.canonicalise(exits[i].st, base, []Value{exits[i].val})
		exits[i].val = out[0]
	}
	var out []exit
	for _, x := range exits {
		merged := false
		for i := range out {
			o := out[i]
			if o.kind != x.kind || o.pmsg != x.pmsg {
				continue
			}
			var val Value
			st, ok := e.mergeStates(o.st, x.st, func(g *Term) bool {
				if o.val == nil && x.val == nil {
					return true
				}
				v, ok := e.mergeVal(g, o.val, x.val)
				val = v
				return ok
			})
			if ok {
				out[i] = exit{st: st, kind: o.kind, val: val, pmsg: o.pmsg}
				merged = true
				break
			}
		}
		if !merged {
			out = append(out, x)
		}
	}
	return out
}

func (e *Engine) get(fr *Frame, v ssa.Value) Value {
	switch x := v.(type) {
	case *ssa.Const:
		return e.constVal(x)
	case *ssa.Global:
		return PtrV{Obj: e.globalObj(x)}
	case *ssa.Function:
		return FuncV{Fn: x}
	case *ssa.Builtin:
		return FuncV{Builtin: x}
	case nil:
		return nil
	}
	r, ok := fr.regs[v]
	if !ok {
		panic(fmt.Sprintf("internal: register %s (%T) unset in %s", v.Name(), v, fr.fn))
	}
	return r
}

func (e *Engine) constVal(c *ssa.Const) Value {
	t := c.Type()
	if c.Value == nil {
		return e.zero(t)
	}
	if e.isTimeType(t) {
		return e.zeroTime()
	}
	switch u := t.Underlying().(type) {
	case *types.Basic:
		switch {
		case u.Info()&types.IsBoolean != 0:
			return e.tc.Bool(constant.BoolVal(c.Value))
		case u.Info()&types.IsInteger != 0:
			w, _ := intWidth(u)
			if v, ok := constant.Int64Val(constant.ToInt(c.Value)); ok {
				return e.tc.BV(uint64(v), w)
			}
			v, _ := constant.Uint64Val(constant.ToInt(c.Value))
			return e.tc.BV(v, w)
		case u.Info()&types.IsString != 0:
			return e.strConst(constant.StringVal(c.Value))
		case u.Info()&types.IsFloat != 0:
			f, _ := constant.Float64Val(c.Value)
			return FloatV{F: f}
		}
	}
	panic(unsupported("constant of type " + t.String()))
}

// FloatV: concrete float64 only (durations are computed through floats nowhere in repo code; kept for completeness).
type FloatV struct{ F float64 }

func (e *Engine) checkBudget() {
	if !e.deadline.IsZero() && time.Now().After(e.deadline) {
		panic(budgetErr{"harness deadline exceeded"})
	}
	if e.stats.Instrs > e.opt.MaxInstrs {
		panic(budgetErr{fmt.Sprintf("instruction budget %d exceeded", e.opt.MaxInstrs)})
	}
	if e.stats.States > e.opt.MaxStates {
		panic(budgetErr{fmt.Sprintf("state budget %d exceeded", e.opt.MaxStates)})
	}
}

// feasible asks the solver whether pc ∧ extra is satisfiable (unknown counts as feasible).
func (e *Engine) feasible(st *State, extra *Term, what string) bool {
	ok, _ := e.feasibleM(st, extra, what)
	return ok
}

// feasibleM also returns a model of pc ∧ extra when one is known (from the cache or the solver).
func (e *Engine) feasibleM(st *State, extra *Term, what string) (bool, Model) {
	if extra.IsFalse() {
		return false, nil
	}
	if st.model != nil && modelHolds(st.model, extra) {
		e.stats.CacheHits++
		return true, st.model
	}
	switch e.quickDecide(st, extra) {
	case 0:
		e.stats.RangeHits++
		return false, nil
	case 1:
		e.stats.RangeHits++
		return true, nil // implied by the recorded ranges; pc itself is satisfiable (invariant)
	}
	// constraint independence: pc is satisfiable (invariant), so only the conjuncts that share
	// variables (transitively) with extra can matter
	rel := e.relevant(st.pc, extra)
	as := append(rel, extra)
	v, m, _ := e.sol.Check(what, as)
	if v == Sat {
		// complete the partial model with the cached one (the two parts share no variable)
		if st.model != nil && len(rel) < len(st.pc) {
			full := copyModel(st.model)
			for k, x := range m {
				full[k] = x
			}
			m = full
			if !e.modelOK(st, m, extra) {
				m = nil
			}
		} else if len(rel) < len(st.pc) {
			m = nil
		}
		if st.model == nil && m != nil {
			st.model = m
		}
		return true, m
	}
	return v != Unsat, nil
}

// requireOrAssume: a precondition of a model (a range the model is exact in).  Violable: the code under test
// leaves the model, which is unsupported; provably true: assumed (a no-op); undecided by the solver: assumed
// and recorded among the stubs - the explored space is narrowed to where the model is exact, never widened.
func (e *Engine) requireOrAssume(st *State, cond *Term, what, msg string) {
	neg := e.tc.Not(cond)
	if neg.IsFalse() {
		return
	}
	if st.model != nil && modelHolds(st.model, neg) {
		panic(unsupported(msg))
	}
	switch e.quickDecide(st, neg) {
	case 0:
		st.assume(cond)
		return
	case 1:
		panic(unsupported(msg))
	}
	rel := e.relevant(st.pc, neg)
	v, _, _ := e.sol.Check(what, append(rel, neg))
	switch v {
	case Sat:
		panic(unsupported(msg))
	case Unknown:
		e.stubsUsed["assumed where the solver could not decide it: "+what] = true
	}
	st.assume(cond)
}

func (e *Engine) modelOK(st *State, m Model, extra *Term) bool {
	ev := newEvaluator(m)
	for _, t := range st.pc {
		if ev.eval(t) != 1 || !ev.ok {
			return false
		}
	}
	return ev.eval(extra) == 1 && ev.ok
}

// varsOf returns the (cached) set of variable / function symbols of a term.
func (e *Engine) varsOf(t *Term) []uint32 {
	if v, ok := e.varCache[t]; ok {
		return v
	}
	set := map[uint32]bool{}
	seen := map[*Term]bool{}
	var walk func(x *Term)
	walk = func(x *Term) {
		if seen[x] {
			return
		}
		seen[x] = true
		if c, ok := e.varCache[x]; ok && x != t {
			for _, id := range c {
				set[id] = true
			}
			return
		}
		switch x.Op {
		case OpVar:
			set[x.id] = true
		case OpApp:
			id, ok := e.funIDs[x.Name]
			if !ok {
				id = uint32(1<<31) + uint32(len(e.funIDs))
				e.funIDs[x.Name] = id
			}
			set[id] = true
		}
		for _, a := range x.Args {
			walk(a)
		}
	}
	walk(t)
	out := make([]uint32, 0, len(set))
	for id := range set {
		out = append(out, id)
	}
	e.varCache[t] = out
	return out
}

// relevant returns the conjuncts of pc connected to extra through shared variables.
func (e *Engine) relevant(pc []*Term, extra *Term) []*Term {
	if e.opt.NoSlice {
		return append([]*Term{}, pc...)
	}
	want := map[uint32]bool{}
	for _, id := range e.varsOf(extra) {
		want[id] = true
	}
	used := make([]bool, len(pc))
	changed := true
	for changed {
		changed = false
		for i, t := range pc {
			if used[i] {
				continue
			}
			vs := e.varsOf(t)
			hit := false
			for _, id := range vs {
				if want[id] {
					hit = true
					break
				}
			}
			if hit {
				used[i] = true
				changed = true
				for _, id := range vs {
					want[id] = true
				}
			}
		}
	}
	var out []*Term
	for i, t := range pc {
		if used[i] {
			out = append(out, t)
		}
	}
	return out
}

// jump moves (st, fr) along the edge from -> to: evaluates phis, prunes dead registers, enqueues.
func (e *Engine) jump(st *State, fr *Frame, from, to *ssa.BasicBlock, q *pqueue) {
	// phis (parallel)
	var phis []*ssa.Phi
	var vals []Value
	for _, ins := range to.Instrs {
		phi, ok := ins.(*ssa.Phi)
		if !ok {
			break
		}
		for i, p := range to.Preds {
			if p == from {
				phis = append(phis, phi)
				vals = append(vals, e.get(fr, phi.Edges[i]))
				break
			}
		}
	}
	live := fr.info.liveIn[to]
	regs := make(map[ssa.Value]Value, len(live)+len(phis))
	for v := range live {
		if r, ok := fr.regs[v]; ok {
			regs[v] = r
		}
	}
	for i, phi := range phis {
		regs[phi] = vals[i]
	}
	fr.regs = regs
	if to.Dominates(from) {
		fr.backedges++
		if fr.backedges > e.opt.MaxBackedges {
			panic(unwindErr{fmt.Sprintf("more than %d loop iterations in %s", e.opt.MaxBackedges, fr.fn)})
		}
	}
	fr.block = to
	q.push(item{st, fr})
}

// finish ends the frame: runs deferred calls, then records the exit.
func (e *Engine) finish(st *State, fr *Frame, kind int, val Value, pmsg string, exits *[]exit) {
	if len(fr.defers) == 0 {
		*exits = append(*exits, exit{st: st, kind: kind, val: val, pmsg: pmsg})
		return
	}
	// run defers LIFO; each may fork
	type pend struct {
		st *State
		i  int
	}
	work := []pend{{st, len(fr.defers) - 1}}
	for len(work) > 0 {
		w := work[len(work)-1]
		work = work[:len(work)-1]
		if w.i < 0 {
			*exits = append(*exits, exit{st: w.st, kind: kind, val: val, pmsg: pmsg})
			continue
		}
		d := fr.defers[w.i]
		res := e.callValue(w.st, fr, d.fn, d.args, d.call, nil)
		for _, r := range res {
			if r.kind == exitPanic {
				*exits = append(*exits, exit{st: r.st, kind: exitPanic, pmsg: r.pmsg})
				continue
			}
			work = append(work, pend{r.st, w.i - 1})
		}
	}
}

// panicExit records a definite panic on this path.
func (e *Engine) panicExit(st *State, fr *Frame, msg string, pos token.Pos, exits *[]exit) {
	e.reportPanic(st, e.tc.True, msg, pos)
	e.finish(st, fr, exitPanic, nil, msg, exits)
}

// needNonNil: dereferencing p requires it to be non-nil (a panic obligation when nil-ness is symbolic).
func (e *Engine) needNonNil(st *State, fr *Frame, p PtrV, pos token.Pos, exits *[]exit) (PtrV, bool) {
	if p.Obj == 0 {
		e.panicExit(st, fr, "nil pointer dereference", pos, exits)
		return p, false
	}
	if p.NilIf != nil {
		if !e.mustHoldF(st, fr, exits, e.tc.Not(p.NilIf), "nil pointer dereference", pos) {
			e.finish(st, fr, exitPanic, nil, "nil pointer dereference", exits)
			return p, false
		}
		p.NilIf = nil
	}
	return p, true
}

// obligation: cond must hold; if its negation is feasible a panic finding is
// recorded.  Returns false when cond is definitely false (path ends).
// mustHoldF: like mustHold, and when the violating side is feasible it also continues it as a real panic
// exit of the current frame (so that deferred calls run and fmt's recover around String methods sees it).
func (e *Engine) mustHoldF(st *State, fr *Frame, exits *[]exit, cond *Term, msg string, pos token.Pos) bool {
	if cond.IsTrue() {
		return true
	}
	if cond.IsFalse() || fr == nil || exits == nil {
		return e.mustHold(st, cond, msg, pos)
	}
	e.stats.PanicChecks++
	e.stats.Obligations++
	neg := e.tc.Not(cond)
	if e.reportPanic(st, neg, msg, pos) {
		e.stats.Discharged++
	} else if e.feasible(st, neg, "panic side") {
		s2 := st.fork()
		e.stats.States++
		s2.assume(neg)
		e.finish(s2, fr.clone(), exitPanic, nil, msg, exits)
	}
	st.assume(cond)
	return true
}

func (e *Engine) mustHold(st *State, cond *Term, msg string, pos token.Pos) bool {
	if cond.IsTrue() {
		return true
	}
	e.stats.PanicChecks++
	e.stats.Obligations++
	neg := e.tc.Not(cond)
	if cond.IsFalse() {
		e.reportPanic(st, e.tc.True, msg, pos)
		return false
	}
	ok := e.reportPanic(st, neg, msg, pos)
	if ok {
		e.stats.Discharged++
	}
	st.assume(cond)
	return true
}

func (e *Engine) posString(pos token.Pos) string {
	if pos == token.NoPos {
		return ""
	}
	p := e.prog.Fset.Position(pos)
	return fmt.Sprintf("%s:%d", p.Filename, p.Line)
}

// execBlock executes the instructions of fr.block from index idx.
func (e *Engine) execBlock(st *State, fr *Frame, idx int, q *pqueue, exits *[]exit) {
	b := fr.block
	for i := idx; i < len(b.Instrs); i++ {
		ins := b.Instrs[i]
		e.stats.Instrs++
		if e.stats.Instrs&1023 == 0 {
			e.checkBudget()
		}
		if e.opt.Trace {
			fmt.Printf("%*s%s: %s\n", fr.depth, "", fr.fn.Name(), ins)
		}
		switch x := ins.(type) {
		case *ssa.Phi:
			continue // evaluated on the edge
		case *ssa.DebugRef:
			continue
		case *ssa.Jump:
			e.jump(st, fr, b, b.Succs[0], q)
			return
		case *ssa.If:
			c := e.get(fr, x.Cond).(*Term)
			if c.IsTrue() {
				e.jump(st, fr, b, b.Succs[0], q)
				return
			}
			if c.IsFalse() {
				e.jump(st, fr, b, b.Succs[1], q)
				return
			}
			nc := e.tc.Not(c)
			tOK, fOK := true, true
			var mT, mF Model
			if !e.opt.NoForkCheck {
				tOK, mT = e.feasibleM(st, c, "branch")
				if tOK {
					fOK, mF = e.feasibleM(st, nc, "branch")
				}
			}
			switch {
			case tOK && fOK:
				e.stats.Forks++
				e.stats.States++
				st2 := st.fork()
				fr2 := fr.clone()
				st.model, st2.model = copyModel(mT), copyModel(mF)
				st.assume(c)
				st2.assume(nc)
				e.concretise(st, fr, c)
				e.concretise(st2, fr2, nc)
				e.jump(st, fr, b, b.Succs[0], q)
				e.jump(st2, fr2, b, b.Succs[1], q)
			case tOK:
				e.stats.Pruned++
				st.assume(c)
				e.jump(st, fr, b, b.Succs[0], q)
			default:
				e.stats.Pruned++
				st.assume(nc)
				e.jump(st, fr, b, b.Succs[1], q)
			}
			return
		case *ssa.Return:
			var val Value
			switch len(x.Results) {
			case 0:
			case 1:
				val = e.get(fr, x.Results[0])
			default:
				tv := make(TupleV, len(x.Results))
				for k, r := range x.Results {
					tv[k] = e.get(fr, r)
				}
				val = tv
			}
			e.finish(st, fr, exitReturn, val, "", exits)
			return
		case *ssa.Panic:
			v := e.get(fr, x.X)
			msg := "panic: " + e.show(v)
			e.panicExit(st, fr, msg, x.Pos(), exits)
			return
		case *ssa.RunDefers:
			// executed at finish(); ssa emits RunDefers before Return in functions with defers
			continue
		case *ssa.Defer:
			fv, args := e.prepareCall(st, fr, &x.Call)
			fr.defers = append(fr.defers[:len(fr.defers):len(fr.defers)], deferred{fn: fv, args: args, call: &x.Call})
			continue
		case *ssa.Go:
			fv, args := e.prepareCall(st, fr, &x.Call)
			for _, s2 := range e.spawn(st, fr, fv, args, &x.Call, exits) {
				e.execBlock(s2, fr.clone(), i+1, q, exits)
			}
			return
		case *ssa.Select:
			e.schedSelect(st, fr, i, x, q, exits)
			return
		case *ssa.Send:
			ch := e.get(fr, x.Chan).(ChanV)
			for _, s2 := range e.schedSend(st, fr, i, ch, e.get(fr, x.X), x.Pos(), exits) {
				e.execBlock(s2, fr.clone(), i+1, q, exits)
			}
			return
		case *ssa.Call:
			fv, args := e.prepareCall(st, fr, &x.Call)
			res := e.callValue(st, fr, fv, args, &x.Call, x)
			if len(res) == 1 && res[0].kind == exitReturn {
				st = res[0].st
				fr.regs[x] = res[0].val
				continue
			}
			for _, r := range res {
				if r.kind == exitPanic {
					e.finish(r.st, fr.clone(), exitPanic, nil, r.pmsg, exits)
					continue
				}
				if r.kind == exitPark {
					if r.park != nil {
						// the callee is suspended somewhere below: this frame stays suspended behind the call
						np := *r.park
						np.stack = append(append([]frameCont{}, r.park.stack...), frameCont{fr: fr.clone(), idx: i, call: x})
						*exits = append(*exits, exit{st: r.st, kind: exitPark, park: &np})
						continue
					}
					// a blocking model (socket read, sleep): wait at this call, which is re-executed on wake-up
					if r.timer > 0 && r.st.gdepth > 0 {
						*exits = append(*exits, exit{st: r.st, kind: exitPark, park: &parkedG{stack: []frameCont{{fr: fr.clone(), idx: i + 1}}, id: r.st.gcur, parkNext: r.st.next, what: "sleep", timer: r.timer}})
						continue
					}
					e.blockHere(r.st, fr, i, r.wait, r.pmsg, x.Pos(), exits)
					continue
				}
				f2 := fr.clone()
				f2.regs[x] = r.val
				e.stats.States++
				e.execBlock(r.st, f2, i+1, q, exits)
			}
			return
		case *ssa.UnOp:
			if x.Op == token.ARROW {
				v, ok := e.schedRecv(st, fr, i, x, exits)
				if !ok {
					return
				}
				fr.regs[x] = v
				continue
			}
			if !e.step(st, fr, ins, i, q, exits) {
				return
			}
		default:
			if !e.step(st, fr, ins, i, q, exits) {
				return
			}
		}
	}
}

func copyModel(m Model) Model {
	if m == nil {
		return nil
	}
	n := make(Model, len(m))
	for k, v := range m {
		n[k] = v
	}
	return n
}

// concretise: after assuming an equality var == const, substitute it through the frame and heap
// (keeps lengths and header bytes concrete after the guards that test them).
func (e *Engine) concretise(st *State, fr *Frame, c *Term) {
	if c.Op != OpEq {
		return
	}
	a, b := c.Args[0], c.Args[1]
	if !(a.Op == OpVar && b.IsConst()) {
		return
	}
	if !strings.HasPrefix(a.Name, "len:") {
		return
	}
	sub := e.tc.NewSubst(map[*Term]*Term{a: b})
	for k, v := range fr.regs {
		fr.regs[k] = e.substVal(sub, v)
	}
	for id, v := range st.heap {
		st.heap[id] = e.substVal(sub, v)
	}
}

func (e *Engine) substVal(sub *Subst, v Value) Value {
	switch x := v.(type) {
	case *Term:
		return sub.Apply(x)
	case SliceV:
		x.Len = sub.Apply(x.Len)
		return x
	case StructV:
		f := make([]Value, len(x.F))
		for i := range f {
			f[i] = e.substVal(sub, x.F[i])
		}
		return StructV{F: f}
	case TupleV:
		f := make(TupleV, len(x))
		for i := range f {
			f[i] = e.substVal(sub, x[i])
		}
		return f
	case IfaceV:
		x.V = e.substVal(sub, x.V)
		return x
	case RVal:
		if x.Ref == nil {
			x.V = e.substVal(sub, x.V)
		}
		return x
	case FuncV:
		if len(x.Free) > 0 {
			f := make([]Value, len(x.Free))
			for i := range f {
				f[i] = e.substVal(sub, x.Free[i])
			}
			x.Free = f
		}
		return x
	}
	return v
}

// prepareCall evaluates the callee value and arguments of a call.
func (e *Engine) prepareCall(st *State, fr *Frame, c *ssa.CallCommon) (Value, []Value) {
	var args []Value
	if c.IsInvoke() {
		recv := e.get(fr, c.Value)
		args = append(args, recv)
		for _, a := range c.Args {
			args = append(args, e.get(fr, a))
		}
		return invokeMarker{c.Method}, args
	}
	fv := e.get(fr, c.Value)
	for _, a := range c.Args {
		args = append(args, e.get(fr, a))
	}
	return fv, args
}

type invokeMarker struct{ m *types.Func }

func retExit(st *State, v Value) []exit { return []exit{{st: st, kind: exitReturn, val: v}} }

// callValue performs a call; returns the exits of the callee.
func (e *Engine) callValue(st *State, fr *Frame, fv Value, args []Value, c *ssa.CallCommon, site *ssa.Call) []exit {
	var pos token.Pos
	if c != nil {
		pos = c.Pos()
	}
	switch f := fv.(type) {
	case invokeMarker:
		recv, ok := args[0].(IfaceV)
		if !ok {
			panic(fmt.Sprintf("internal: invoke on %T", args[0]))
		}
		if recv.T == nil {
			e.reportPanic(st, e.tc.True, "nil interface method call "+f.m.Name(), pos)
			return []exit{{st: st, kind: exitPanic, pmsg: "nil pointer dereference (interface method call)"}}
		}
		if res, ok := e.invokeAbstract(st, fr, recv, f.m, args[1:], pos); ok {
			return res
		}
		fn := e.prog.LookupMethod(recv.T, f.m.Pkg(), f.m.Name())
		if fn == nil {
			panic(unsupported(fmt.Sprintf("method %s not found on %s", f.m.Name(), recv.T)))
		}
		a2 := append([]Value{recv.V}, args[1:]...)
		return e.callFunction(st, fr, fn, a2, nil, pos)
	case FuncV:
		if f.Builtin != nil {
			return e.callBuiltin(st, fr, f.Builtin, args, c, pos)
		}
		if f.Native != "" {
			return e.callNative(st, fr, f.Native, args, pos)
		}
		if f.Fn == nil {
			e.reportPanic(st, e.tc.True, "call of nil function", pos)
			return []exit{{st: st, kind: exitPanic, pmsg: "call of nil func"}}
		}
		return e.callFunction(st, fr, f.Fn, args, f.Free, pos)
	}
	panic(unsupported(fmt.Sprintf("call of %T", fv)))
}

func (e *Engine) callFunction(st *State, fr *Frame, fn *ssa.Function, args []Value, free []Value, pos token.Pos) []exit {
	name := fn.String()
	if fn.Origin() != nil {
		// generic instance: stub lookup by origin name as well
		if stub, ok := stubs[fn.Origin().String()]; ok {
			e.stubsUsed[fn.Origin().String()] = true
			return stub(e, st, fr, fn, args, pos)
		}
	}
	if stub, ok := stubs[name]; ok {
		if !e.inInit {
			e.stubsUsed[name] = true
		}
		return stub(e, st, fr, fn, args, pos)
	}
	if fn.Pkg != nil && e.isRepoPkg(fn.Pkg) || fn.Pkg == nil && fn.Origin() != nil && e.isRepoPkg(fn.Origin().Pkg) {
		if res, ok := e.intrinsic(st, fr, fn, args, pos); ok {
			return res
		}
	}
	if fn.Name() == "init" && fn.Synthetic != "" && fn.Pkg != nil && !e.isRepoPkg(fn.Pkg) {
		return retExit(st, nil) // standard-library initialisers are not run
	}
	if fn.Pkg != nil && !e.isRepoPkg(fn.Pkg) && !allowedStdPkg(fn.Pkg.Pkg.Path()) && fn.Synthetic == "" {
		panic(unsupported("standard-library function without model: " + name))
	}
	if len(fn.Blocks) == 0 {
		panic(unsupported("external function: " + name))
	}
	depth := 0
	if fr != nil {
		depth = fr.depth + 1
	}
	return e.runFunction(st, fn, args, free, depth)
}

// allowedStdPkg lists the standard-library packages whose SSA bodies are interpreted directly
// (byte and integer manipulation only; anything touching unsafe/runtime is stubbed by name).
func allowedStdPkg(path string) bool {
	switch path {
	case "encoding/binary", "bytes", "net", "net/netip", "strconv", "strings", "unicode/utf8", "errors",
		"math/bits", "encoding/hex", "io", "internal/bytealg", "internal/byteorder", "internal/itoa", "internal/stringslite", "unicode", "slices", "sort", "cmp", "math", "sync/atomic":
		return true
	}
	return false
}

// step executes a non-control instruction; returns false if the path ended.
func (e *Engine) step(st *State, fr *Frame, ins ssa.Instruction, idx int, q *pqueue, exits *[]exit) bool {
	c := e.tc
	switch x := ins.(type) {
	case *ssa.Alloc:
		t := x.Type().(*types.Pointer).Elem()
		id := e.alloc(st, e.zero(t))
		fr.regs[x] = PtrV{Obj: id}
	case *ssa.BinOp:
		v, ok := e.binop(st, fr, x.Op, e.get(fr, x.X), e.get(fr, x.Y), x.X.Type(), x.Y.Type(), x.Pos(), exits)
		if !ok {
			return false
		}
		fr.regs[x] = v
	case *ssa.UnOp:
		v, ok := e.unop(st, fr, x, exits)
		if !ok {
			return false
		}
		if ifk, isFork := v.(indexFork); isFork {
			e.forkIndex(st, fr, x, ifk, idx, q, exits)
			return false
		}
		fr.regs[x] = v
	case *ssa.ChangeType:
		fr.regs[x] = e.get(fr, x.X)
	case *ssa.ChangeInterface:
		fr.regs[x] = e.get(fr, x.X)
	case *ssa.Convert:
		fr.regs[x] = e.convert(st, e.get(fr, x.X), x.X.Type(), x.Type())
	case *ssa.MakeInterface:
		fr.regs[x] = e.makeIface(x.X.Type(), e.get(fr, x.X))
	case *ssa.Extract:
		fr.regs[x] = e.get(fr, x.Tuple).(TupleV)[x.Index]
	case *ssa.Field:
		v := e.get(fr, x.X)
		sv, ok := v.(StructV)
		if !ok {
			panic(unsupported(fmt.Sprintf("field %d of %T (%s)", x.Field, v, x.X.Type())))
		}
		fr.regs[x] = sv.F[x.Field]
	case *ssa.FieldAddr:
		p, ok := e.get(fr, x.X).(PtrV)
		if !ok {
			panic(unsupported(fmt.Sprintf("fieldaddr of %T (%s)", e.get(fr, x.X), x.X.Type())))
		}
		p, okp := e.needNonNil(st, fr, p, x.Pos(), exits)
		if !okp {
			return false
		}
		fr.regs[x] = PtrV{Obj: p.Obj, Path: appendPath(p.Path, PathElem{I: x.Field})}
	case *ssa.Index:
		v, ok := e.index(st, fr, e.get(fr, x.X), e.get(fr, x.Index).(*Term), x.Index.Type(), x.Pos(), exits)
		if !ok {
			return false
		}
		if ifk, isFork := v.(indexFork); isFork {
			e.forkIndex(st, fr, x, ifk, idx, q, exits)
			return false
		}
		fr.regs[x] = v
	case *ssa.IndexAddr:
		v, ok := e.indexAddr(st, fr, e.get(fr, x.X), e.get(fr, x.Index).(*Term), x.Index.Type(), x.Pos(), exits)
		if !ok {
			return false
		}
		fr.regs[x] = v
	case *ssa.Lookup:
		xv := e.get(fr, x.X)
		if s, ok := xv.(StrV); ok {
			v, ok := e.index(st, fr, s, e.get(fr, x.Index).(*Term), x.Index.Type(), x.Pos(), exits)
			if !ok {
				return false
			}
			fr.regs[x] = v
			break
		}
		m := xv.(MapV)
		mt := x.X.Type().Underlying().(*types.Map)
		key := e.get(fr, x.Index)
		alts := e.mapLookupAlts(st, m, key, mt.Elem())
		if len(alts) > 1 {
			var feas []mapAlt
			for _, a := range alts {
				if e.feasible(st, a.cond, "map lookup case") {
					feas = append(feas, a)
				}
			}
			alts = feas
		}
		if len(alts) == 0 {
			return false
		}
		set := func(f *Frame, a mapAlt) {
			if x.CommaOk {
				f.regs[x] = TupleV{a.val, a.found}
			} else {
				f.regs[x] = a.val
			}
		}
		if len(alts) == 1 {
			set(fr, alts[0])
			break
		}
		for k, a := range alts {
			s2, f2 := st, fr
			if k < len(alts)-1 {
				s2, f2 = st.fork(), fr.clone()
				e.stats.States++
			}
			s2.assume(a.cond)
			set(f2, a)
			e.execBlock(s2, f2, idx+1, q, exits)
		}
		return false
	case *ssa.MakeMap:
		mt := x.Type().Underlying().(*types.Map)
		id := e.alloc(st, &MapObj{KeyT: mt.Key(), ValT: mt.Elem()})
		fr.regs[x] = MapV{Obj: id}
	case *ssa.MapUpdate:
		m := e.get(fr, x.Map).(MapV)
		if m.Obj == 0 {
			e.panicExit(st, fr, "assignment to entry in nil map", x.Pos(), exits)
			return false
		}
		e.mapUpdate(st, m, e.get(fr, x.Key), e.get(fr, x.Value))
	case *ssa.MakeSlice:
		ln, ok1 := isConstTerm(e.get(fr, x.Len))
		cp, ok2 := isConstTerm(e.get(fr, x.Cap))
		if !ok1 || !ok2 {
			panic(unsupported("make([]T, n) with symbolic n at " + e.posString(x.Pos())))
		}
		et := x.Type().Underlying().(*types.Slice).Elem()
		z := e.zero(et)
		n, cpn := int(ln.SVal()), int(cp.SVal())
		if n < 0 || cpn < n {
			e.panicExit(st, fr, "makeslice: len out of range", x.Pos(), exits)
			return false
		}
		el := make([]Value, cpn)
		for i := range el {
			el[i] = z
		}
		id := e.alloc(st, ArrayV{E: el})
		fr.regs[x] = SliceV{Obj: id, Len: c.BV(uint64(n), 64), Cap: cpn}
	case *ssa.MakeChan:
		sz, ok := isConstTerm(e.get(fr, x.Size))
		if !ok {
			panic(unsupported("make(chan, n) with symbolic n"))
		}
		id := e.alloc(st, &ChanObj{Cap: int(sz.C)})
		fr.regs[x] = ChanV{Obj: id}
	case *ssa.MakeClosure:
		fn := x.Fn.(*ssa.Function)
		free := make([]Value, len(x.Bindings))
		for i, b := range x.Bindings {
			free[i] = e.get(fr, b)
		}
		fr.regs[x] = FuncV{Fn: fn, Free: free}
	case *ssa.Slice:
		if sv, isStr := e.get(fr, x.X).(StrV); isStr && !sv.Opaque {
			// string slicing needs concrete bounds: case split on the feasible values of a symbolic bound
			for _, b := range []ssa.Value{x.Low, x.High} {
				if b == nil {
					continue
				}
				if t, ok := e.get(fr, b).(*Term); ok && !t.IsConst() {
					e.forkOnValue(st, fr, b, len(sv.B), idx, q, exits)
					return false
				}
			}
		}
		if sl, isSlice := e.get(fr, x.X).(SliceV); isSlice && x.Low != nil {
			// a symbolic low bound changes the slice's window: case split on its feasible values
			if t, ok := e.get(fr, x.Low).(*Term); ok && !t.IsConst() {
				e.forkOnValue(st, fr, x.Low, sl.Cap, idx, q, exits)
				return false
			}
		}
		v, ok := e.sliceOp(st, fr, x, exits)
		if !ok {
			return false
		}
		fr.regs[x] = v
	case *ssa.SliceToArrayPointer:
		sl := e.get(fr, x.X).(SliceV)
		at := x.Type().(*types.Pointer).Elem().Underlying().(*types.Array)
		n := int(at.Len())
		if !e.mustHoldF(st, fr, exits, c.BVUle(c.BV(uint64(n), 64), sl.Len), "slice to array pointer: length too short", x.Pos()) {
			e.finish(st, fr, exitPanic, nil, "slice to array conversion", exits)
			return false
		}
		if sl.Off != 0 || n != len(e.getPath(st, e.obj(st, sl.Obj), sl.Path).(ArrayV).E) {
			// a window into a larger backing array: modelled as a read-only copy (the array
			// conversion [N]T(s) compiles to this followed by a load); stores through it are unsupported
			arr := e.getPath(st, e.obj(st, sl.Obj), sl.Path).(ArrayV)
			cp := append([]Value{}, arr.E[sl.Off:sl.Off+n]...)
			id := e.alloc(st, ArrayV{E: cp})
			if st.views == nil {
				st.views = map[ObjID]bool{}
			}
			st.views[id] = true
			fr.regs[x] = PtrV{Obj: id}
			break
		}
		fr.regs[x] = PtrV{Obj: sl.Obj, Path: sl.Path}
	case *ssa.Store:
		p, ok := e.get(fr, x.Addr).(PtrV)
		if !ok {
			panic(unsupported(fmt.Sprintf("store through %T", e.get(fr, x.Addr))))
		}
		p, okp := e.needNonNil(st, fr, p, x.Pos(), exits)
		if !okp {
			return false
		}
		e.store(st, p, e.get(fr, x.Val))
	case *ssa.TypeAssert:
		v, ok := e.typeAssert(st, fr, x, exits)
		if !ok {
			return false
		}
		fr.regs[x] = v
	case *ssa.Range:
		switch v := e.get(fr, x.X).(type) {
		case StrV:
			if v.Opaque {
				panic(unsupported("range over opaque string"))
			}
			s := v
			fr.regs[x] = IterV{Str: &s}
		case MapV:
			fr.regs[x] = IterV{IsMap: true, Map: v.Obj}
		default:
			panic(unsupported(fmt.Sprintf("range over %T", v)))
		}
	case *ssa.Next:
		return e.next(st, fr, x, idx, q, exits)
	case *ssa.Select:
		panic(unsupported("select statement"))
	default:
		panic(unsupported(fmt.Sprintf("instruction %T", ins)))
	}
	return true
}

// forkIndex continues one state per feasible value of a symbolic index (elements of different shapes).
func (e *Engine) forkIndex(st *State, fr *Frame, x ssa.Value, ifk indexFork, idx int, q *pqueue, exits *[]exit) {
	w := ifk.idx.Sort.W
	var feas []int
	for i := range ifk.elems {
		if e.feasible(st, e.tc.Eq(ifk.idx, e.tc.BV(uint64(i), w)), "index value") {
			feas = append(feas, i)
		}
	}
	for k, i := range feas {
		s2, f2 := st, fr
		if k < len(feas)-1 {
			s2, f2 = st.fork(), fr.clone()
			e.stats.States++
		}
		s2.assume(e.tc.Eq(ifk.idx, e.tc.BV(uint64(i), w)))
		f2.regs[x] = ifk.elems[i]
		e.execBlock(s2, f2, idx+1, q, exits)
	}
}

// forkOnValue continues one state per feasible value 0..max of the integer register v (re-executing the
// instruction at idx with the register made concrete); values outside 0..max continue symbolically only if
// feasible, in which case the instruction reports what it cannot do.
func (e *Engine) forkOnValue(st *State, fr *Frame, v ssa.Value, max int, idx int, q *pqueue, exits *[]exit) {
	t := e.get(fr, v).(*Term)
	w := t.Sort.W
	var feas []int
	inRange := e.tc.False
	for i := 0; i <= max; i++ {
		eq := e.tc.Eq(t, e.tc.BV(uint64(i), w))
		inRange = e.tc.Or(inRange, eq)
		if e.feasible(st, eq, "value split") {
			feas = append(feas, i)
		}
	}
	if e.feasible(st, e.tc.Not(inRange), "value split (out of range)") {
		// out of range: the slice operation panics (bounds); continue that side with a definitely bad constant
		s2, f2 := st.fork(), fr.clone()
		e.stats.States++
		s2.assume(e.tc.Not(inRange))
		e.panicExit(s2, f2, "slice bounds out of range (symbolic bound)", v.Pos(), exits)
	}
	for k, i := range feas {
		s2, f2 := st, fr
		if k < len(feas)-1 {
			s2, f2 = st.fork(), fr.clone()
			e.stats.States++
		}
		s2.assume(e.tc.Eq(t, e.tc.BV(uint64(i), w)))
		f2.regs[v] = e.tc.BV(uint64(i), w)
		e.execBlock(s2, f2, idx, q, exits)
	}
}

func (e *Engine) makeIface(t types.Type, v Value) Value {
	if _, ok := t.Underlying().(*types.Interface); ok {
		return v // already an interface value
	}
	return IfaceV{T: t, V: v}
}

func (e *Engine) typeAssert(st *State, fr *Frame, x *ssa.TypeAssert, exits *[]exit) (Value, bool) {
	v := e.get(fr, x.X)
	iv, ok := v.(IfaceV)
	if !ok {
		panic(fmt.Sprintf("internal: type assert on %T", v))
	}
	okb := false
	var res Value
	if iv.T != nil {
		if it, isI := x.AssertedType.Underlying().(*types.Interface); isI {
			okb = e.implements(iv, it)
			res = iv
		} else {
			okb = types.Identical(iv.T, x.AssertedType)
			res = iv.V
		}
	}
	if x.CommaOk {
		if !okb {
			res = e.zero(x.AssertedType)
		}
		return TupleV{res, e.tc.Bool(okb)}, true
	}
	if !okb {
		e.panicExit(st, fr, fmt.Sprintf("interface conversion: %v is not %v", iv.T, x.AssertedType), x.Pos(), exits)
		return nil, false
	}
	return res, true
}

func (e *Engine) implements(iv IfaceV, it *types.Interface) bool {
	if it.NumMethods() == 0 {
		return true
	}
	switch iv.V.(type) {
	case ErrV:
		return it.NumMethods() == 1 && it.Method(0).Name() == "Error"
	}
	return types.Implements(iv.T, it)
}

func (e *Engine) next(st *State, fr *Frame, x *ssa.Next, idx int, q *pqueue, exits *[]exit) bool {
	it := e.get(fr, x.Iter).(IterV)
	c := e.tc
	if x.IsString {
		s := *it.Str
		if it.Pos >= len(s.B) {
			fr.regs[x] = TupleV{c.False, c.BV(0, 64), c.BV(0, 32)}
			return true
		}
		b0 := s.B[it.Pos]
		if b0.IsConst() {
			// concrete decode
			raw := make([]byte, 0, 4)
			for k := it.Pos; k < len(s.B) && k < it.Pos+4 && s.B[k].IsConst(); k++ {
				raw = append(raw, byte(s.B[k].C))
			}
			full := len(raw) == 4 || it.Pos+len(raw) == len(s.B)
			r, size := decodeRune(raw)
			if full || size <= len(raw) && r != 0xFFFD {
				fr.regs[x.Iter] = IterV{Str: it.Str, Pos: it.Pos + size}
				fr.regs[x] = TupleV{c.True, c.BV(uint64(it.Pos), 64), c.BV(uint64(r), 32)}
				return true
			}
		}
		// symbolic first byte: the engine supports the ASCII case exactly and ends
		// other cases by forking on the lead byte class (exact UTF-8 decoding).
		return e.nextRuneSymbolic(st, fr, x, it, idx, q, exits)
	}
	// map iteration
	if it.Map == 0 {
		fr.regs[x] = TupleV{c.False, nil, nil}
		return true
	}
	m := e.obj(st, it.Map).(*MapObj)
	pos := it.Pos
	for pos < len(m.E) {
		en := m.E[pos]
		if en.Present.IsFalse() {
			pos++
			continue
		}
		if !en.Present.IsTrue() {
			// symbolic presence: one path in which the entry is visited, one in which it is absent
			okP := e.feasible(st, en.Present, "map entry present")
			okA := !okP || e.feasible(st, c.Not(en.Present), "map entry absent")
			if okP && okA {
				s2, f2 := st.fork(), fr.clone()
				e.stats.States++
				s2.assume(en.Present)
				f2.regs[x.Iter] = IterV{IsMap: true, Map: it.Map, Pos: pos + 1}
				f2.regs[x] = TupleV{c.True, en.K, en.V}
				e.execBlock(s2, f2, idx+1, q, exits)
				st.assume(c.Not(en.Present))
				pos++
				continue
			}
			if !okP {
				st.assume(c.Not(en.Present))
				pos++
				continue
			}
			st.assume(en.Present)
		}
		fr.regs[x.Iter] = IterV{IsMap: true, Map: it.Map, Pos: pos + 1}
		fr.regs[x] = TupleV{c.True, en.K, en.V}
		return true
	}
	fr.regs[x] = TupleV{c.False, e.zero(m.KeyT), e.zero(m.ValT)}
	return true
}

func decodeRune(b []byte) (rune, int) {
	// utf8.DecodeRune semantics
	s := string(b)
	for _, r := range s {
		n := len(string(r))
		if r == 0xFFFD {
			// invalid → width 1 unless it is a literal U+FFFD
			if len(b) >= 3 && b[0] == 0xEF && b[1] == 0xBF && b[2] == 0xBD {
				return r, 3
			}
			return r, 1
		}
		return r, n
	}
	return 0xFFFD, 1
}
