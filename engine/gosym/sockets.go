package gosym

// The socket script (DESIGN 4.4): net.ListenUDP, net.Dialer.Dial and the connection methods the repo uses
// are engine models over a deterministic clock.
//
//   * time: the clock is a term; it advances only by waiting (a read that waits for a datagram or for its
//     deadline, a TCP connect, time.Sleep).  time.Now() returns the clock.  Code itself takes no time.
//   * the network delivers a script of datagrams (symbolic length and content) at symbolic, non-decreasing
//     arrival instants to whichever socket reads next; a read returns the next datagram if it arrives
//     before the read deadline in force, otherwise it fails with a timeout at the deadline; a read with no
//     deadline and nothing left to arrive blocks for ever (a deadlock of the calling thread, or a parked
//     goroutine that a Close wakes up with an error).  A datagram longer than the buffer is truncated.
//   * opening a socket and writing may fail (a fresh Boolean each); a TCP connect takes a symbolic time and
//     fails at the dialer's deadline if it takes longer, or at once (refused).
//   * every socket, write and deadline is recorded for the harness's assertions.

import (
	"fmt"
	"go/token"
	"go/types"

	"golang.org/x/tools/go/ssa"
)

type SockObj struct {
	Kind   int   // 0 UDP listen socket, 1 dialled UDP, 2 dialled TCP
	Local  Value // PtrV to the local *net.UDPAddr / *net.TCPAddr (or nil pointer)
	Remote Value // dialled sockets: PtrV to the remote address
	Closed bool
	RDl    *Term // read deadline (clock instant), nil: none
	WDl    *Term
	Index  int
}

type sockWrite struct {
	Sock int
	Data []*Term
	To   Value // PtrV to *net.UDPAddr (WriteToUDP) or the socket's Remote
}

type netScript struct {
	Data    []SliceV
	Arrival []*Term
	Other   []bool // the datagram comes from another port of the peer: a connected socket never sees it
}

type netState struct {
	script     *netScript
	pos        int
	writes     []sockWrite
	faults     bool
	connectMax int64 // upper bound of a TCP connect's duration in ns (0: none)
	connectMin int64
}

func (e *Engine) netType(name string) types.Type {
	p := e.prog.ImportedPackage("net")
	if p == nil {
		panic(unsupported("package net not loaded"))
	}
	return p.Pkg.Scope().Lookup(name).Type()
}

// clockOn switches the state to the deterministic clock.
func (e *Engine) clockOn(st *State) *Term {
	if st.clock == nil {
		c := e.tc
		t0 := c.Var("clock.t0", SBV(64))
		st.assume(c.And(c.BVSle(e.bv64(0), t0), c.BVSle(t0, e.bv64(1<<50))))
		st.clock = t0
		e.stubsUsed["deterministic clock: time advances only by waiting (reads, connects, sleeps); time.Now() is the clock"] = true
	}
	return st.clock
}

func (e *Engine) clockMax(st *State, t *Term) {
	c := e.tc
	st.clock = c.Ite(c.BVSlt(st.clock, t), t, st.clock)
}

func (e *Engine) sockOf(st *State, v Value) (*SockObj, ObjID) {
	if iv, ok := v.(IfaceV); ok {
		v = iv.V
	}
	p, ok := v.(PtrV)
	if !ok || p.Obj == 0 {
		panic(unsupported("socket method on a nil / unknown connection"))
	}
	so, ok := e.obj(st, p.Obj).(*SockObj)
	if !ok {
		panic(unsupported("socket method on a value that is not a modelled socket"))
	}
	return so, p.Obj
}

func (e *Engine) netErr(what string) Value {
	return e.errValue("net:"+what, StrV{Opaque: true, Note: what, MinLen: 1})
}

func (e *Engine) netFault(st *State, what string) *Term {
	if st.net == nil || !st.net.faults {
		return e.tc.False
	}
	return e.tc.Var(e.nondetName(st, "net.fail."+what), SBool)
}

func (st *State) netw() *netState {
	if st.net == nil {
		st.net = &netState{}
	} else {
		n := *st.net
		n.writes = n.writes[:len(n.writes):len(n.writes)]
		st.net = &n
	}
	return st.net
}

// deadlineOf: a time.Time argument as a clock instant (nil: the zero time = no deadline).
func (e *Engine) deadlineOf(v Value) *Term {
	t := v.(TimeV)
	if t.Inst == nil {
		return nil // time.Time{} - no deadline (the only civil value the repo passes)
	}
	return t.Inst
}

func (e *Engine) newSock(st *State, kind int, local, remote Value) Value {
	e.clockOn(st)
	so := &SockObj{Kind: kind, Local: local, Remote: remote, Index: len(st.socks)}
	id := e.alloc(st, so)
	st.socks = append(st.socks[:len(st.socks):len(st.socks)], id)
	return PtrV{Obj: id}
}

func (e *Engine) sockUpdate(st *State, id ObjID, f func(s *SockObj)) {
	n := *(e.obj(st, id).(*SockObj))
	f(&n)
	st.heap[id] = &n
}

// forkOn continues with cond on one state and its negation on a fork; either may be infeasible.
func (e *Engine) forkOn(st *State, cond *Term, what string) (yes, no *State) {
	if cond.IsTrue() {
		return st, nil
	}
	if cond.IsFalse() {
		return nil, st
	}
	okY := e.feasible(st, cond, what)
	okN := !okY || e.feasible(st, e.tc.Not(cond), what)
	switch {
	case okY && okN:
		s2 := st.fork()
		e.stats.States++
		st.assume(cond)
		s2.assume(e.tc.Not(cond))
		return st, s2
	case okY:
		st.assume(cond)
		return st, nil
	default:
		st.assume(e.tc.Not(cond))
		return nil, st
	}
}

// sockRead: the common body of ReadFromUDP / Read.
func (e *Engine) sockRead(st *State, recv Value, buf SliceV, udpFrom bool) []exit {
	c := e.tc
	so, id := e.sockOf(st, recv)
	errRes := func(s *State, what string) exit {
		if udpFrom {
			return exit{st: s, kind: exitReturn, val: TupleV{e.bv64(0), PtrV{}, e.netErr(what)}}
		}
		return exit{st: s, kind: exitReturn, val: TupleV{e.bv64(0), e.netErr(what)}}
	}
	if so.Closed {
		return []exit{errRes(st, "use of closed network connection")}
	}
	e.clockOn(st)
	ns := st.net
	var out []exit
	// datagrams from another port than the one a connected socket is connected to are dropped by the kernel
	for ns != nil && ns.script != nil && ns.pos < len(ns.script.Data) && so.Remote != nil && ns.pos < len(ns.script.Other) && ns.script.Other[ns.pos] {
		nn := st.netw()
		nn.pos++
		ns = st.net
	}
	hasNext := ns != nil && ns.script != nil && ns.pos < len(ns.script.Data)
	if !hasNext {
		if so.RDl == nil {
			// nothing will ever arrive and no deadline: the reader blocks until the socket is closed
			return []exit{{st: st, kind: exitPark, wait: id, pmsg: "socket read with no deadline and nothing to receive"}}
		}
		e.clockMax(st, so.RDl)
		return []exit{errRes(st, "i/o timeout")}
	}
	arr := ns.script.Arrival[ns.pos]
	data := ns.script.Data[ns.pos]
	deliver := c.True
	if so.RDl != nil {
		deliver = c.BVSlt(arr, so.RDl)
	}
	yes, no := e.forkOn(st, deliver, "datagram arrives before the read deadline")
	if no != nil {
		e.clockMax(no, so.RDl)
		out = append(out, errRes(no, "i/o timeout"))
	}
	if yes != nil {
		nn := yes.netw()
		nn.pos++
		e.clockMax(yes, arr)
		blen, ok := e.resolveLen(yes, buf.Len)
		dcap := data.Cap
		src := e.getPath(yes, e.obj(yes, data.Obj), data.Path).(ArrayV)
		var n *Term
		if ok {
			n = c.Ite(c.BVUlt(data.Len, e.bv64(int64(blen))), data.Len, e.bv64(int64(blen)))
			// the first n bytes of the buffer are the datagram; the bytes behind them (which the returned count
			// hides) are left arbitrary: they receive the script buffer's unconstrained bytes instead of keeping
			// their old content - an over-approximation that keeps every byte a plain variable
			for j := 0; j < blen && j < dcap; j++ {
				p := PtrV{Obj: buf.Obj, Path: appendPath(buf.Path, PathElem{I: buf.Off + j})}
				e.store(yes, p, src.E[data.Off+j].(*Term))
			}
		} else {
			// a receive buffer of symbolic length (a buffer re-sliced to an earlier datagram's length): the
			// datagram is truncated to it; bytes behind the buffer's length keep their content
			n = c.Ite(c.BVUlt(data.Len, buf.Len), data.Len, buf.Len)
			for j := 0; j < buf.Cap && j < dcap; j++ {
				p := PtrV{Obj: buf.Obj, Path: appendPath(buf.Path, PathElem{I: buf.Off + j})}
				old, _ := e.load(yes, p).(*Term)
				if old == nil {
					panic(unsupported("socket read into a buffer of symbolic length over non-byte storage"))
				}
				e.store(yes, p, c.Ite(c.BVUlt(e.bv64(int64(j)), buf.Len), src.E[data.Off+j].(*Term), old))
			}
		}
		if udpFrom {
			// the sender's address: some IPv4 address and port
			ip := make([]*Term, 4)
			for i := range ip {
				ip[i] = c.Fresh("net.from.ip", SBV(8))
			}
			from := e.alloc(yes, StructV{F: []Value{e.newByteSlice(yes, ip), c.ZeroExt(c.Fresh("net.from.port", SBV(16)), 48), StrV{}}})
			out = append(out, exit{st: yes, kind: exitReturn, val: TupleV{n, PtrV{Obj: from}, IfaceV{}}})
		} else {
			out = append(out, exit{st: yes, kind: exitReturn, val: TupleV{n, IfaceV{}}})
		}
	}
	return out
}

func (e *Engine) sockWrite(st *State, recv Value, data SliceV, to Value) []exit {
	so, _ := e.sockOf(st, recv)
	if so.Closed {
		return []exit{{st: st, kind: exitReturn, val: TupleV{e.bv64(0), e.netErr("use of closed network connection")}}}
	}
	var out []exit
	fail, ok := e.forkOn(st, e.netFault(st, "write"), "write fails")
	if fail != nil {
		out = append(out, exit{st: fail, kind: exitReturn, val: TupleV{e.bv64(0), e.netErr("write failed")}})
	}
	if ok != nil {
		b := e.bytesOf(ok, data)
		nn := ok.netw()
		if to == nil {
			to = so.Remote
		}
		nn.writes = append(nn.writes, sockWrite{Sock: so.Index, Data: append([]*Term{}, b...), To: to})
		out = append(out, exit{st: ok, kind: exitReturn, val: TupleV{e.bv64(int64(len(b))), IfaceV{}}})
	}
	return out
}

func init() {
	type sf = func(e *Engine, st *State, fr *Frame, fn *ssa.Function, args []Value, pos token.Pos) []exit
	reg := func(names []string, f sf) {
		for _, n := range names {
			stubs[n] = f
		}
	}
	conn := func(m string) []string {
		return []string{"(*net.conn)." + m, "(*net.UDPConn)." + m, "(*net.TCPConn)." + m}
	}
	stubs["net.ListenUDP"] = func(e *Engine, st *State, fr *Frame, fn *ssa.Function, args []Value, pos token.Pos) []exit {
		var out []exit
		fail, ok := e.forkOn(st, e.netFault(st, "open"), "socket open fails")
		if fail != nil {
			out = append(out, exit{st: fail, kind: exitReturn, val: TupleV{PtrV{}, e.netErr("listen failed")}})
		}
		if ok != nil {
			out = append(out, exit{st: ok, kind: exitReturn, val: TupleV{e.newSock(ok, 0, args[1], nil), IfaceV{}}})
		}
		return out
	}
	stubs["(*net.Dialer).Dial"] = func(e *Engine, st *State, fr *Frame, fn *ssa.Function, args []Value, pos token.Pos) []exit {
		c := e.tc
		network := concreteString(args[1], "Dial network")
		addr, ok := args[2].(StrV)
		if !ok || addr.Ref == nil {
			panic(unsupported("Dial to an address that is not the text of a *net.UDPAddr / *net.TCPAddr"))
		}
		e.stubsUsed["Dial(network, fmt.Sprintf(\"%v\", addr)) connects to addr (the host:port contract of UDPAddr.String / TCPAddr.String)"] = true
		d := e.load(st, args[0].(PtrV)).(StructV)
		dt := e.netType("Dialer").Underlying().(*types.Struct)
		field := func(name string) Value {
			for i := 0; i < dt.NumFields(); i++ {
				if dt.Field(i).Name() == name {
					return d.F[i]
				}
			}
			panic(unsupported("net.Dialer field " + name))
		}
		var local Value = PtrV{}
		if la, ok := field("LocalAddr").(IfaceV); ok && la.T != nil {
			local = la.V
		}
		dl := e.deadlineOf(field("Deadline"))
		e.clockOn(st)
		var out []exit
		fail, rest := e.forkOn(st, e.netFault(st, "dial"), "dial fails at once")
		if fail != nil {
			out = append(out, exit{st: fail, kind: exitReturn, val: TupleV{IfaceV{}, e.netErr("connection refused")}})
		}
		if rest == nil {
			return out
		}
		// the local address may be in use by another socket (only with a fixed local port)
		if lp, ok := local.(PtrV); ok && !lp.IsNil() {
			port := e.load(rest, lp).(StructV).F[1].(*Term)
			inuse, rest2 := e.forkOn(rest, c.And(e.netFault(rest, "dial.inuse"), c.Not(c.Eq(port, e.bv64(0)))), "bind address in use")
			if inuse != nil {
				if sp := e.prog.ImportedPackage("syscall"); sp != nil {
					errno := sp.Pkg.Scope().Lookup("Errno").Type()
					out = append(out, exit{st: inuse, kind: exitReturn, val: TupleV{IfaceV{}, IfaceV{T: errno, V: c.BV(0x62, 64)}}})
				} else {
					out = append(out, exit{st: inuse, kind: exitReturn, val: TupleV{IfaceV{}, e.netErr("address already in use")}})
				}
			}
			rest = rest2
			if rest == nil {
				return out
			}
		}
		kind := 1
		ct := e.netType("UDPConn")
		if network == "tcp" || network == "tcp4" {
			kind = 2
			ct = e.netType("TCPConn")
			// the connect takes time
			dur := c.Var(e.nondetName(rest, "net.connect"), SBV(64))
			rest.assume(c.And(c.BVSle(e.bv64(0), dur), c.BVSle(dur, e.bv64(1<<50))))
			if rest.net != nil && rest.net.connectMax > 0 {
				rest.assume(c.BVSle(dur, e.bv64(rest.net.connectMax)))
			}
			if rest.net != nil && rest.net.connectMin > 0 {
				rest.assume(c.BVSle(e.bv64(rest.net.connectMin), dur))
			}
			done := c.BVAdd(rest.clock, dur)
			if dl != nil {
				late, intime := e.forkOn(rest, c.BVSle(dl, done), "connect takes longer than the dialer's deadline")
				if late != nil {
					e.clockMax(late, dl)
					out = append(out, exit{st: late, kind: exitReturn, val: TupleV{IfaceV{}, e.netErr("i/o timeout")}})
				}
				rest = intime
			}
			if rest != nil {
				rest.clock = done
			}
		}
		if rest != nil {
			sock := e.newSock(rest, kind, local, addr.Ref)
			out = append(out, exit{st: rest, kind: exitReturn, val: TupleV{IfaceV{T: types.NewPointer(ct), V: sock}, IfaceV{}}})
		}
		return out
	}
	reg(conn("Close"), func(e *Engine, st *State, fr *Frame, fn *ssa.Function, args []Value, pos token.Pos) []exit {
		so, id := e.sockOf(st, args[0])
		if so.Closed {
			return retExit(st, e.netErr("use of closed network connection"))
		}
		e.sockUpdate(st, id, func(s *SockObj) { s.Closed = true })
		var px []exit
		var out []exit
		for _, s2 := range e.wake(st, id, &px) {
			out = append(out, exit{st: s2, kind: exitReturn, val: IfaceV{}})
		}
		return append(out, px...)
	})
	setDl := func(r, w bool) sf {
		return func(e *Engine, st *State, fr *Frame, fn *ssa.Function, args []Value, pos token.Pos) []exit {
			so, id := e.sockOf(st, args[0])
			if so.Closed {
				return retExit(st, e.netErr("use of closed network connection"))
			}
			dl := e.deadlineOf(args[1])
			e.sockUpdate(st, id, func(s *SockObj) {
				if r {
					s.RDl = dl
				}
				if w {
					s.WDl = dl
				}
			})
			return retExit(st, IfaceV{})
		}
	}
	reg(conn("SetDeadline"), setDl(true, true))
	reg(conn("SetReadDeadline"), setDl(true, false))
	reg(conn("SetWriteDeadline"), setDl(false, true))
	stubs["(*net.UDPConn).ReadFromUDP"] = func(e *Engine, st *State, fr *Frame, fn *ssa.Function, args []Value, pos token.Pos) []exit {
		return e.sockRead(st, args[0], args[1].(SliceV), true)
	}
	reg(conn("Read"), func(e *Engine, st *State, fr *Frame, fn *ssa.Function, args []Value, pos token.Pos) []exit {
		return e.sockRead(st, args[0], args[1].(SliceV), false)
	})
	stubs["(*net.UDPConn).WriteToUDP"] = func(e *Engine, st *State, fr *Frame, fn *ssa.Function, args []Value, pos token.Pos) []exit {
		return e.sockWrite(st, args[0], args[1].(SliceV), args[2])
	}
	reg(conn("Write"), func(e *Engine, st *State, fr *Frame, fn *ssa.Function, args []Value, pos token.Pos) []exit {
		return e.sockWrite(st, args[0], args[1].(SliceV), nil)
	})
	reg(conn("RemoteAddr"), func(e *Engine, st *State, fr *Frame, fn *ssa.Function, args []Value, pos token.Pos) []exit {
		so, _ := e.sockOf(st, args[0])
		if p, ok := so.Remote.(PtrV); ok && !p.IsNil() {
			t := "UDPAddr"
			if so.Kind == 2 {
				t = "TCPAddr"
			}
			return retExit(st, IfaceV{T: types.NewPointer(e.netType(t)), V: p})
		}
		return retExit(st, IfaceV{})
	})
	// debug formatting of messages is not the subject of the socket-level harnesses (it is called on every
	// datagram, whatever its length); its own harness (C04) asks for the real body with verifInterpret
	const dump = "github.com/uhppoted/uhppote-core/encoding/UTO311-L0x.Dump"
	stubs[dump] = func(e *Engine, st *State, fr *Frame, fn *ssa.Function, args []Value, pos token.Pos) []exit {
		if e.summaries["interpret:codec.Dump"] {
			depth := 0
			if fr != nil {
				depth = fr.depth + 1
			}
			delete(e.stubsUsed, dump)
			return e.runFunction(st, fn, args, nil, depth)
		}
		return retExit(st, StrV{Opaque: true, Note: "codec.Dump (debug text)"})
	}
}

// ---- harness intrinsics

const peerPort = 60001 // the scripted peer is 127.0.0.1:60001 (UDP and TCP) in the model

// toPeer: the destination address (a *net.UDPAddr / *net.TCPAddr) is the scripted peer.
func (e *Engine) toPeer(st *State, to Value) *Term {
	c := e.tc
	p, ok := to.(PtrV)
	if !ok || p.IsNil() {
		return c.False
	}
	a := e.load(st, p).(StructV)
	ip, ok := a.F[0].(SliceV)
	if !ok || ip.Nil {
		return c.False
	}
	b := e.bytesOf(st, ip)
	if len(b) == 16 {
		b = b[12:]
	}
	if len(b) != 4 {
		return c.False
	}
	want := []uint64{127, 0, 0, 1}
	cond := c.Eq(a.F[1].(*Term), e.bv64(peerPort))
	for i := range want {
		cond = c.And(cond, c.Eq(b[i], c.BV(want[i], 8)))
	}
	return cond
}

func (e *Engine) netIntrinsic(st *State, name string, args []Value) ([]exit, bool) {
	c := e.tc
	switch name {
	case "verifClock":
		return retExit(st, e.clockOn(st)), true
	case "verifNetFaults":
		st.netw().faults = args[0].(*Term).IsTrue()
		return retExit(st, nil), true
	case "verifBindPortBusy":
		return retExit(st, nil), true
	case "verifNetPlayTo":
		return retExit(st, nil), true
	case "verifNetConnectRange":
		n := st.netw()
		n.connectMin, n.connectMax = int64(concreteInt(args[0], name)), int64(concreteInt(args[1], name))
		return retExit(st, nil), true
	case "verifSlowDialTarget":
		return retExit(st, e.bv64(peerPort)), true
	case "verifNetConnectMax":
		st.netw().connectMax = int64(concreteInt(args[0], name))
		return retExit(st, nil), true
	case "verifNetScript":
		e.clockOn(st)
		sl := args[0].(SliceV)
		sc := &netScript{}
		prev := st.clock
		for i, v := range e.sliceElems(st, sl) {
			d, ok := v.(SliceV)
			if !ok {
				panic(unsupported("verifNetScript: element is not a byte slice"))
			}
			a := c.Var(fmt.Sprintf("net.arr#%d", i), SBV(64))
			st.assume(c.And(c.BVSle(prev, a), c.BVSle(a, e.bv64(1<<52))))
			prev = a
			sc.Data = append(sc.Data, d)
			sc.Arrival = append(sc.Arrival, a)
		}
		n := st.netw()
		n.script, n.pos = sc, 0
		return retExit(st, nil), true
	case "verifNetFromOtherPort":
		i := concreteInt(args[0], name)
		if st.net == nil || st.net.script == nil || i >= len(st.net.script.Data) {
			panic(unsupported("verifNetFromOtherPort: no such datagram"))
		}
		sc := *st.net.script
		sc.Other = make([]bool, len(sc.Data))
		copy(sc.Other, st.net.script.Other)
		sc.Other[i] = true
		n := st.netw()
		n.script = &sc
		return retExit(st, nil), true
	case "verifNetArrival":
		i := concreteInt(args[0], name)
		if st.net == nil || st.net.script == nil || i >= len(st.net.script.Arrival) {
			panic(unsupported("verifNetArrival: no such datagram"))
		}
		return retExit(st, st.net.script.Arrival[i]), true
	case "verifNetConsumed":
		n := 0
		if st.net != nil {
			n = st.net.pos
		}
		return retExit(st, e.bv64(int64(n))), true
	case "verifPeerPort", "verifDialTarget":
		return retExit(st, e.bv64(peerPort)), true
	case "verifPeerRequests", "verifNetStray":
		n, stray := e.bv64(0), e.bv64(0)
		if st.net != nil {
			for _, w := range st.net.writes {
				isPeer := e.toPeer(st, w.To)
				n = c.BVAdd(n, c.Ite(isPeer, e.bv64(1), e.bv64(0)))
				stray = c.BVAdd(stray, c.Ite(isPeer, e.bv64(0), e.bv64(1)))
			}
		}
		if name == "verifNetStray" {
			return retExit(st, stray), true
		}
		return retExit(st, n), true
	case "verifPeerRequest":
		k := concreteInt(args[0], name)
		if st.net == nil || k >= len(st.net.writes) {
			panic(unsupported("verifPeerRequest: no such write"))
		}
		return retExit(st, e.newByteSlice(st, st.net.writes[k].Data)), true
	case "verifPeerFromPort":
		k := concreteInt(args[0], name)
		if st.net == nil || k >= len(st.net.writes) {
			panic(unsupported("verifPeerFromPort: no such write"))
		}
		so := e.obj(st, st.socks[st.net.writes[k].Sock]).(*SockObj)
		port := e.bv64(0)
		if p, ok := so.Local.(PtrV); ok && !p.IsNil() {
			port = e.load(st, p).(StructV).F[1].(*Term)
		}
		eph := c.Var(fmt.Sprintf("net.ephemeral#%d", so.Index), SBV(64))
		st.assume(e.inRange(eph, 1024, 65535))
		return retExit(st, c.Ite(c.Eq(port, e.bv64(0)), eph, port)), true
	case "verifSockCount":
		return retExit(st, e.bv64(int64(len(st.socks)))), true
	case "verifSockOpen":
		n := 0
		for _, id := range st.socks {
			if !e.obj(st, id).(*SockObj).Closed {
				n++
			}
		}
		return retExit(st, e.bv64(int64(n))), true
	}
	return nil, false
}

// netEqual: the two states have the same network script position and the same recorded writes.
func netEqual(a, b *netState) bool {
	if a == b {
		return true
	}
	if a == nil || b == nil {
		return false
	}
	if a.pos != b.pos || a.faults != b.faults || a.connectMax != b.connectMax || a.connectMin != b.connectMin || len(a.writes) != len(b.writes) || (a.script == nil) != (b.script == nil) {
		return false
	}
	if a.script != nil && a.script != b.script {
		if len(a.script.Data) != len(b.script.Data) {
			return false
		}
		for i := range a.script.Data {
			if !valEqual(a.script.Data[i], b.script.Data[i]) || a.script.Arrival[i] != b.script.Arrival[i] {
				return false
			}
		}
	}
	for i := range a.writes {
		x, y := a.writes[i], b.writes[i]
		if x.Sock != y.Sock || len(x.Data) != len(y.Data) || !valEqual(x.To, y.To) {
			return false
		}
		for j := range x.Data {
			if x.Data[j] != y.Data[j] {
				return false
			}
		}
	}
	return true
}
