package gosym

// Heap canonicalisation before merging: objects allocated since the current frame was entered are
// garbage-collected (if unreachable) and renumbered in a deterministic traversal order, so that two
// states whose new heap parts are isomorphic get identical object ids.  Objects older than the frame
// keep their ids (caller frames, which the explorer does not see here, can only refer to those).

import (
	"sort"

	"golang.org/x/tools/go/ssa"
)

type renamer struct {
	e     *Engine
	st    *State
	base  ObjID
	ren   map[ObjID]ObjID
	order []ObjID
}

func (r *renamer) obj(id ObjID) {
	if id < r.base || id == 0 {
		return
	}
	if _, ok := r.ren[id]; ok {
		return
	}
	r.ren[id] = r.base + ObjID(len(r.order))
	r.order = append(r.order, id)
	if v, ok := r.st.heap[id]; ok {
		r.visit(v)
	}
}

func (r *renamer) visit(v Value) {
	switch x := v.(type) {
	case PtrV:
		r.obj(x.Obj)
	case SliceV:
		r.obj(x.Obj)
	case MapV:
		r.obj(x.Obj)
	case ChanV:
		r.obj(x.Obj)
	case StructV:
		for _, f := range x.F {
			r.visit(f)
		}
	case ArrayV:
		for _, f := range x.E {
			if _, isTerm := f.(*Term); isTerm {
				continue
			}
			r.visit(f)
		}
	case TupleV:
		for _, f := range x {
			r.visit(f)
		}
	case IfaceV:
		if x.T != nil {
			r.visit(x.V)
		}
	case FuncV:
		for _, f := range x.Free {
			r.visit(f)
		}
	case RVal:
		if x.Ref != nil {
			r.obj(x.Ref.Obj)
		} else if x.Valid {
			r.visit(x.V)
		}
	case boundMethod:
		r.visit(x.Recv)
	case IterV:
		if x.IsMap {
			r.obj(x.Map)
		}
	case *MapObj:
		for _, en := range x.E {
			r.visit(en.K)
			r.visit(en.V)
		}
	case *ChanObj:
		for _, b := range x.Buf {
			r.visit(b)
		}
	case *SockObj:
		r.visit(x.Local)
		r.visit(x.Remote)
	case StrV:
		if x.Ref != nil {
			r.visit(x.Ref)
		}
	}
}

// rewrite returns v with object ids renamed; changed reports whether anything differs.
func (r *renamer) rewrite(v Value) (Value, bool) {
	m := func(id ObjID) (ObjID, bool) {
		if n, ok := r.ren[id]; ok && n != id {
			return n, true
		}
		return id, false
	}
	switch x := v.(type) {
	case PtrV:
		if n, ch := m(x.Obj); ch {
			x.Obj = n
			return x, true
		}
	case SliceV:
		if n, ch := m(x.Obj); ch {
			x.Obj = n
			return x, true
		}
	case MapV:
		if n, ch := m(x.Obj); ch {
			return MapV{Obj: n}, true
		}
	case ChanV:
		if n, ch := m(x.Obj); ch {
			return ChanV{Obj: n}, true
		}
	case StructV:
		if out, ch := r.rewriteList(x.F); ch {
			return StructV{F: out}, true
		}
	case ArrayV:
		if len(x.E) > 0 {
			if _, isTerm := x.E[0].(*Term); isTerm {
				return v, false
			}
		}
		if out, ch := r.rewriteList(x.E); ch {
			return ArrayV{E: out}, true
		}
	case TupleV:
		if out, ch := r.rewriteList(x); ch {
			return TupleV(out), true
		}
	case IfaceV:
		if x.T != nil {
			if n, ch := r.rewrite(x.V); ch {
				x.V = n
				return x, true
			}
		}
	case FuncV:
		if out, ch := r.rewriteList(x.Free); ch {
			x.Free = out
			return x, true
		}
	case RVal:
		if x.Ref != nil {
			if n, ch := m(x.Ref.Obj); ch {
				p := *x.Ref
				p.Obj = n
				x.Ref = &p
				return x, true
			}
		} else if x.Valid {
			if n, ch := r.rewrite(x.V); ch {
				x.V = n
				return x, true
			}
		}
	case boundMethod:
		if n, ch := r.rewrite(x.Recv); ch {
			x.Recv = n
			return x, true
		}
	case IterV:
		if x.IsMap {
			if n, ch := m(x.Map); ch {
				x.Map = n
				return x, true
			}
		}
	case *MapObj:
		changed := false
		out := &MapObj{KeyT: x.KeyT, ValT: x.ValT, E: make([]MapEntry, len(x.E))}
		for i, en := range x.E {
			k, c1 := r.rewrite(en.K)
			val, c2 := r.rewrite(en.V)
			out.E[i] = MapEntry{K: k, V: val, Present: en.Present}
			changed = changed || c1 || c2
		}
		if changed {
			return out, true
		}
	case *ChanObj:
		if out, ch := r.rewriteList(x.Buf); ch {
			n := *x
			n.Buf = out
			return &n, true
		}
	case *SockObj:
		l, c1 := r.rewrite(x.Local)
		rm, c2 := r.rewrite(x.Remote)
		if c1 || c2 {
			n := *x
			n.Local, n.Remote = l, rm
			return &n, true
		}
	case StrV:
		if x.Ref != nil {
			if n, ch := r.rewrite(x.Ref); ch {
				x.Ref = n
				return x, true
			}
		}
	}
	return v, false
}

func (r *renamer) rewriteList(in []Value) ([]Value, bool) {
	var out []Value
	for i, f := range in {
		n, ch := r.rewrite(f)
		if ch && out == nil {
			out = make([]Value, len(in))
			copy(out, in[:i])
		}
		if out != nil {
			out[i] = n
		}
	}
	return out, out != nil
}

func (fi *fnInfo) regOrder(fn *ssa.Function) map[ssa.Value]int {
	if fi.order != nil {
		return fi.order
	}
	o := map[ssa.Value]int{}
	n := 0
	for _, p := range fn.Params {
		o[p] = n
		n++
	}
	for _, p := range fn.FreeVars {
		o[p] = n
		n++
	}
	for _, b := range fn.Blocks {
		for _, ins := range b.Instrs {
			if v, ok := ins.(ssa.Value); ok {
				o[v] = n
				n++
			}
		}
	}
	fi.order = o
	return o
}

// canonicalise renumbers (and collects) the objects of st allocated at or after base, using the given
// root values (in order) plus all older objects as roots.  Returns the rewritten roots.
func (e *Engine) canonicalise(st *State, base ObjID, roots []Value) []Value {
	if st.next <= base {
		return roots
	}

	r := &renamer{e: e, st: st, base: base, ren: map[ObjID]ObjID{}}
	for _, v := range roots {
		r.visit(v)
	}
	for _, o := range st.observe {
		r.visit(o.V)
	}
	// sockets, the network script and recorded writes, parked goroutines: roots as well
	for _, id := range st.socks {
		r.obj(id)
	}
	if st.net != nil {
		if st.net.script != nil {
			for _, d := range st.net.script.Data {
				r.visit(d)
			}
		}
		for _, w := range st.net.writes {
			r.visit(w.To)
		}
	}
	for _, pg := range st.parked {
		r.obj(pg.wait)
		for _, w := range pg.waits {
			r.obj(w)
		}
		if pg.selSend != 0 {
			r.obj(pg.selSend)
		}
		r.visit(pg.sendVal)
		for _, fc := range pg.stack {
			for _, k := range sortedRegs(fc.fr) {
				r.visit(fc.fr.regs[k])
			}
			for _, d := range fc.fr.defers {
				r.visit(d.fn)
				r.visit(TupleV(d.args))
			}
		}
	}
	// older objects (of this state's own heap; base-heap objects cannot point to new ones unless overwritten,
	// in which case they are in st.heap)
	var old []ObjID
	for id := range st.heap {
		if id < base {
			old = append(old, id)
		}
	}
	sort.Slice(old, func(i, j int) bool { return old[i] < old[j] })
	for _, id := range old {
		r.visit(st.heap[id])
	}
	// anything to do?
	identity := true
	for id, n := range r.ren {
		if id != n {
			identity = false
			break
		}
	}
	live := 0
	for id := range st.heap {
		if id >= base {
			live++
		}
	}
	if identity && live == len(r.order) {
		st.next = base + ObjID(len(r.order))
		return roots
	}
	heap := make(map[ObjID]Value, len(st.heap))
	for id, v := range st.heap {
		if id < base {
			nv, _ := r.rewrite(v)
			heap[id] = nv
			continue
		}
		n, ok := r.ren[id]
		if !ok {
			continue // unreachable: collected
		}
		nv, _ := r.rewrite(v)
		heap[n] = nv
	}
	st.heap = heap
	st.next = base + ObjID(len(r.order))
	if len(st.mutexes) > 0 {
		mm := make(map[ObjID]bool, len(st.mutexes))
		for id, v := range st.mutexes {
			if n, ok := r.ren[id]; ok {
				mm[n] = v
			} else {
				mm[id] = v
			}
		}
		st.mutexes = mm
	}
	if len(st.views) > 0 {
		vv := make(map[ObjID]bool, len(st.views))
		for id, v := range st.views {
			if n, ok := r.ren[id]; ok {
				vv[n] = v
			} else if id < base {
				vv[id] = v
			}
		}
		st.views = vv
	}
	if len(st.socks) > 0 {
		ns := make([]ObjID, len(st.socks))
		for i, id := range st.socks {
			ns[i] = id
			if n, ok := r.ren[id]; ok {
				ns[i] = n
			}
		}
		st.socks = ns
	}
	if st.net != nil && !identity {
		n := *st.net
		if n.script != nil {
			sc := &netScript{Arrival: n.script.Arrival, Data: make([]SliceV, len(n.script.Data))}
			for i, d := range n.script.Data {
				nv, _ := r.rewrite(d)
				sc.Data[i] = nv.(SliceV)
			}
			n.script = sc
		}
		ws := make([]sockWrite, len(n.writes))
		for i, w := range n.writes {
			ws[i] = w
			if w.To != nil {
				ws[i].To, _ = r.rewrite(w.To)
			}
		}
		n.writes = ws
		st.net = &n
	}
	if len(st.parked) > 0 && !identity {
		np := make([]*parkedG, len(st.parked))
		for i, pg := range st.parked {
			c := *pg
			c.stack = make([]frameCont, len(pg.stack))
			for l, fc := range pg.stack {
				f := fc.fr.clone()
				for k, v := range f.regs {
					f.regs[k], _ = r.rewrite(v)
				}
				f.defers = append([]deferred{}, f.defers...)
				for j, d := range f.defers {
					fn, _ := r.rewrite(d.fn)
					as, _ := r.rewrite(TupleV(d.args))
					f.defers[j] = deferred{fn: fn, args: []Value(as.(TupleV)), call: d.call}
				}
				c.stack[l] = frameCont{fr: f, idx: fc.idx, call: fc.call}
			}
			if pg.sendVal != nil {
				c.sendVal, _ = r.rewrite(pg.sendVal)
			}
			if n, ok := r.ren[pg.wait]; ok {
				c.wait = n
			}
			if n, ok := r.ren[pg.selSend]; ok && pg.selSend != 0 {
				c.selSend = n
			}
			if len(pg.waits) > 0 {
				c.waits = make([]ObjID, len(pg.waits))
				for k, w := range pg.waits {
					c.waits[k] = w
					if n, ok := r.ren[w]; ok {
						c.waits[k] = n
					}
				}
			}
			np[i] = &c
		}
		st.parked = np
	}
	for i, o := range st.observe {
		nv, ch := r.rewrite(o.V)
		if ch {
			if i == 0 {
				st.observe = append([]Observation{}, st.observe...)
			}
			st.observe[i].V = nv
		}
	}
	out := make([]Value, len(roots))
	for i, v := range roots {
		out[i], _ = r.rewrite(v)
	}
	e.stats.Canon++
	return out
}

func sortedRegs(fr *Frame) []ssa.Value {
	order := fr.info.regOrder(fr.fn)
	keys := make([]ssa.Value, 0, len(fr.regs))
	for k := range fr.regs {
		keys = append(keys, k)
	}
	sort.Slice(keys, func(i, j int) bool { return order[keys[i]] < order[keys[j]] })
	return keys
}

// canonItem canonicalises an (state, frame) pair in place.
func (e *Engine) canonItem(it item) {
	fr := it.fr
	order := fr.info.regOrder(fr.fn)
	keys := make([]ssa.Value, 0, len(fr.regs))
	for k := range fr.regs {
		keys = append(keys, k)
	}
	sort.Slice(keys, func(i, j int) bool { return order[keys[i]] < order[keys[j]] })
	roots := make([]Value, 0, len(keys)+4)
	for _, k := range keys {
		roots = append(roots, fr.regs[k])
	}
	nregs := len(roots)
	for _, d := range fr.defers {
		roots = append(roots, d.fn)
		roots = append(roots, TupleV(d.args))
	}
	out := e.canonicalise(it.st, fr.entryNext, roots)
	for i, k := range keys {
		fr.regs[k] = out[i]
	}
	if len(fr.defers) > 0 {
		nd := make([]deferred, len(fr.defers))
		for i, d := range fr.defers {
			nd[i] = deferred{fn: out[nregs+2*i], args: []Value(out[nregs+2*i+1].(TupleV)), call: d.call}
		}
		fr.defers = nd
	}
}
