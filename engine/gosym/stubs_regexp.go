package gosym

// regexp: patterns are concrete; on a concrete subject the real matcher runs natively, on a symbolic
// subject of concrete length the compiled program is simulated as a Thompson NFA over the byte terms.

import (
	"go/token"
	"regexp"
	"regexp/syntax"

	"golang.org/x/tools/go/ssa"
)

func (e *Engine) compileRe(pat string) RegexpV {
	re, err := regexp.Compile(pat)
	if err != nil {
		panic(unsupported("regexp does not compile: " + pat))
	}
	return RegexpV{Pat: pat, Re: re}
}

// reMatchTerm returns the Bool term "pattern matches somewhere in s".
func (e *Engine) reMatchTerm(pat string, s []*Term) *Term {
	c := e.tc
	rx, err := syntax.Parse(pat, syntax.Perl)
	if err != nil {
		panic(unsupported("regexp/syntax: " + err.Error()))
	}
	prog, err := syntax.Compile(rx.Simplify())
	if err != nil {
		panic(unsupported("regexp/syntax compile: " + err.Error()))
	}
	// check instruction set
	for i := range prog.Inst {
		in := &prog.Inst[i]
		switch in.Op {
		case syntax.InstRune, syntax.InstRune1:
			for _, r := range in.Rune {
				if r >= 0x80 {
					// case folding may add non-ASCII runes (e.g. K -> KELVIN SIGN); a negated class shows up as a range to 0x10FFFF
					if len(in.Rune) >= 2 && in.Rune[len(in.Rune)-1] == 0x10FFFF {
						panic(unsupported("regexp on symbolic text: negated / non-ASCII character class in " + pat))
					}
				}
			}
		case syntax.InstRuneAny, syntax.InstRuneAnyNotNL:
			panic(unsupported("regexp on symbolic text: '.' in " + pat))
		case syntax.InstEmptyWidth:
			if syntax.EmptyOp(in.Arg)&(syntax.EmptyWordBoundary|syntax.EmptyNoWordBoundary) != 0 {
				panic(unsupported("regexp on symbolic text: word boundary in " + pat))
			}
		}
	}
	n := len(s)
	matchRune := func(in *syntax.Inst, b *Term) *Term {
		// ranges in in.Rune (pairs) or single runes for Rune1 / len 1
		var alts []*Term
		runes := in.Rune
		fold := syntax.Flags(in.Arg)&syntax.FoldCase != 0
		add := func(lo, hi rune) {
			if lo >= 0x80 {
				return
			}
			if hi >= 0x80 {
				hi = 0x7f
			}
			if lo == hi {
				alts = append(alts, c.Eq(b, c.BV(uint64(lo), 8)))
			} else {
				alts = append(alts, c.And(c.BVUle(c.BV(uint64(lo), 8), b), c.BVUle(b, c.BV(uint64(hi), 8))))
			}
		}
		if len(runes) == 1 {
			r := runes[0]
			add(r, r)
			if fold {
				for r1 := unicodeSimpleFold(r); r1 != r; r1 = unicodeSimpleFold(r1) {
					add(r1, r1)
				}
			}
		} else {
			for i := 0; i+1 < len(runes); i += 2 {
				add(runes[i], runes[i+1])
			}
		}
		return c.Or(alts...)
	}
	// add state pc (following empty transitions) with condition g at text position pos
	type set map[uint32]*Term
	var addState func(cur set, pc uint32, g *Term, pos int, depth int)
	addState = func(cur set, pc uint32, g *Term, pos int, depth int) {
		if g.IsFalse() {
			return
		}
		// cur holds every visited instruction (also the empty ones) so that empty cycles terminate:
		// a revisit is expanded only with a condition that strictly grows the recorded one
		if old, ok := cur[pc]; ok {
			ng := c.Or(old, g)
			if ng == old {
				return
			}
			cur[pc] = ng
		} else {
			cur[pc] = g
		}
		in := &prog.Inst[pc]
		switch in.Op {
		case syntax.InstAlt, syntax.InstAltMatch:
			addState(cur, in.Out, g, pos, depth+1)
			addState(cur, in.Arg, g, pos, depth+1)
		case syntax.InstNop, syntax.InstCapture:
			addState(cur, in.Out, g, pos, depth+1)
		case syntax.InstEmptyWidth:
			op := syntax.EmptyOp(in.Arg)
			ok := c.True
			if op&syntax.EmptyBeginText != 0 && pos != 0 {
				ok = c.False
			}
			if op&syntax.EmptyEndText != 0 && pos != n {
				ok = c.False
			}
			if op&syntax.EmptyBeginLine != 0 && pos != 0 {
				ok = c.And(ok, c.Eq(s[pos-1], c.BV('\n', 8)))
			}
			if op&syntax.EmptyEndLine != 0 && pos != n {
				ok = c.And(ok, c.Eq(s[pos], c.BV('\n', 8)))
			}
			addState(cur, in.Out, c.And(g, ok), pos, depth+1)
		}
	}
	matched := c.False
	cur := set{}
	for pos := 0; pos <= n; pos++ {
		// unanchored search: a new thread may start at every position
		addState(cur, uint32(prog.Start), c.True, pos, 0)
		next := set{}
		for pc, g := range cur {
			in := &prog.Inst[pc]
			switch in.Op {
			case syntax.InstMatch:
				matched = c.Or(matched, g)
			case syntax.InstRune, syntax.InstRune1:
				if pos < n {
					addState(next, in.Out, c.And(g, matchRune(in, s[pos])), pos+1, 0)
				}
			}
		}
		cur = next
	}
	return matched
}

func unicodeSimpleFold(r rune) rune {
	// ASCII letters only; other folds are irrelevant for ASCII subjects
	switch {
	case r >= 'a' && r <= 'z':
		return r - 32
	case r >= 'A' && r <= 'Z':
		return r + 32
	}
	return r
}

// fixedWidth reports whether every string matched by re has positions determined by its length
// (anchored at both ends, no alternation/repetition of varying width).
func fixedWidthAnchored(pat string) bool {
	rx, err := syntax.Parse(pat, syntax.Perl)
	if err != nil {
		return false
	}
	rx = rx.Simplify()
	var width func(r *syntax.Regexp) (int, bool)
	width = func(r *syntax.Regexp) (int, bool) {
		switch r.Op {
		case syntax.OpLiteral:
			return len(r.Rune), true
		case syntax.OpCharClass:
			return 1, true
		case syntax.OpBeginText, syntax.OpEndText, syntax.OpEmptyMatch:
			return 0, true
		case syntax.OpCapture:
			return width(r.Sub[0])
		case syntax.OpConcat:
			t := 0
			for _, s := range r.Sub {
				w, ok := width(s)
				if !ok {
					return 0, false
				}
				t += w
			}
			return t, true
		case syntax.OpRepeat:
			if r.Min != r.Max {
				return 0, false
			}
			w, ok := width(r.Sub[0])
			return w * r.Min, ok
		}
		return 0, false
	}
	if rx.Op != syntax.OpConcat || len(rx.Sub) < 2 || rx.Sub[0].Op != syntax.OpBeginText || rx.Sub[len(rx.Sub)-1].Op != syntax.OpEndText {
		return false
	}
	_, ok := width(rx)
	return ok
}

func (e *Engine) reMatch(st *State, re RegexpV, s StrV) *Term {
	if s.Opaque {
		panic(unsupported("regexp match on opaque string"))
	}
	if cs, ok := s.Concrete(); ok {
		return e.tc.Bool(re.Re.MatchString(cs))
	}
	return e.reMatchTerm(re.Pat, s.B)
}

func (e *Engine) strSliceValue(st *State, ss []StrV) Value {
	el := make([]Value, len(ss))
	for i, s := range ss {
		el[i] = s
	}
	return e.newSlice(st, el, len(el), StrV{})
}

// reRecv: the *regexp.Regexp receiver; a nil pointer is a nil-pointer dereference in the real method.
func reRecv(e *Engine, st *State, v Value, pos token.Pos) (RegexpV, []exit) {
	if re, ok := v.(RegexpV); ok {
		return re, nil
	}
	if p, ok := v.(PtrV); ok && p.IsNil() {
		e.reportPanic(st, e.tc.True, "nil pointer dereference (method call on a nil *regexp.Regexp)", pos)
		return RegexpV{}, []exit{{st: st, kind: exitPanic, pmsg: "nil pointer dereference"}}
	}
	panic(unsupported("regexp method on a value that is not a modelled *regexp.Regexp"))
}

func init() {
	stubs["regexp.MustCompile"] = func(e *Engine, st *State, fr *Frame, fn *ssa.Function, args []Value, pos token.Pos) []exit {
		return retExit(st, e.compileRe(concreteString(args[0], "regexp pattern")))
	}
	stubs["regexp.Compile"] = func(e *Engine, st *State, fr *Frame, fn *ssa.Function, args []Value, pos token.Pos) []exit {
		return retExit(st, TupleV{e.compileRe(concreteString(args[0], "regexp pattern")), IfaceV{}})
	}
	stubs["regexp.MatchString"] = func(e *Engine, st *State, fr *Frame, fn *ssa.Function, args []Value, pos token.Pos) []exit {
		re := e.compileRe(concreteString(args[0], "regexp pattern"))
		return retExit(st, TupleV{e.reMatch(st, re, args[1].(StrV)), IfaceV{}})
	}
	stubs["(*regexp.Regexp).MatchString"] = func(e *Engine, st *State, fr *Frame, fn *ssa.Function, args []Value, pos token.Pos) []exit {
		re, px := reRecv(e, st, args[0], pos)
		if px != nil {
			return px
		}
		return retExit(st, e.reMatch(st, re, args[1].(StrV)))
	}
	stubs["(*regexp.Regexp).Match"] = func(e *Engine, st *State, fr *Frame, fn *ssa.Function, args []Value, pos token.Pos) []exit {
		sl := args[1].(SliceV)
		var s StrV
		if !sl.Nil {
			s = StrV{B: e.bytesOf(st, sl)}
		}
		re, px := reRecv(e, st, args[0], pos)
		if px != nil {
			return px
		}
		return retExit(st, e.reMatch(st, re, s))
	}
	stubs["(*regexp.Regexp).ReplaceAllString"] = func(e *Engine, st *State, fr *Frame, fn *ssa.Function, args []Value, pos token.Pos) []exit {
		re, px := reRecv(e, st, args[0], pos)
		if px != nil {
			return px
		}
		src, ok1 := args[1].(StrV).Concrete()
		repl, ok2 := args[2].(StrV).Concrete()
		if !ok1 || !ok2 {
			if args[1].(StrV).Opaque {
				return retExit(st, StrV{Opaque: true, Note: "ReplaceAllString"})
			}
			panic(unsupported("regexp.ReplaceAllString on symbolic text"))
		}
		return retExit(st, e.strConst(re.Re.ReplaceAllString(src, repl)))
	}
	// FindString on symbolic text: the span the native matcher finds on one concrete witness of the text, accepted
	// only when the solver shows that it is the span for every text the path admits: the pattern matches exactly
	// s[i:j], no match starts before i, and no other end is possible for a match starting at i.
	stubs["(*regexp.Regexp).FindString"] = func(e *Engine, st *State, fr *Frame, fn *ssa.Function, args []Value, pos token.Pos) []exit {
		re, px := reRecv(e, st, args[0], pos)
		if px != nil {
			return px
		}
		s := args[1].(StrV)
		if cs, ok := s.Concrete(); ok {
			return retExit(st, e.strConst(re.Re.FindString(cs)))
		}
		if s.Opaque {
			panic(unsupported("FindString on opaque string"))
		}
		c := e.tc
		cond := e.reMatchTerm(re.Pat, s.B)
		var out []exit
		okF := e.feasible(st, cond, "regexp match")
		noF := e.feasible(st, c.Not(cond), "regexp no match")
		if noF {
			s2 := st
			if okF {
				s2 = st.fork()
				e.stats.States++
			}
			s2.assume(c.Not(cond))
			out = append(out, exit{st: s2, kind: exitReturn, val: StrV{}})
		}
		if okF {
			st.assume(cond)
			v, m, _ := e.sol.Check("regexp witness", st.pc)
			if v != Sat {
				panic(unsupported("regexp witness query failed"))
			}
			full := e.padModel(m, s.B...)
			wit := make([]byte, len(s.B))
			for i, b := range s.B {
				r, _ := c.Eval(b, full)
				wit[i] = byte(r.C)
			}
			loc := re.Re.FindStringIndex(string(wit))
			if loc == nil {
				panic(unsupported("regexp simulation disagrees with the native matcher on " + re.Pat))
			}
			i, j := loc[0], loc[1]
			// the span is the same for every admitted text when every byte falls, for all its admitted values,
			// on one side of every character class of the pattern (then the matcher takes the same steps)
			rx, err := syntax.Parse(re.Pat, syntax.Perl)
			if err != nil {
				panic(unsupported("regexp/syntax: " + err.Error()))
			}
			prog, err := syntax.Compile(rx.Simplify())
			if err != nil {
				panic(unsupported("regexp/syntax compile: " + err.Error()))
			}
			for k := range prog.Inst {
				in := &prog.Inst[k]
				if in.Op != syntax.InstRune && in.Op != syntax.InstRune1 {
					continue
				}
				if syntax.Flags(in.Arg)&syntax.FoldCase != 0 {
					panic(unsupported("FindString on symbolic text: case-folding class in " + re.Pat))
				}
				for _, b := range s.B {
					member := c.False
					if len(in.Rune) == 1 {
						member = c.Eq(b, c.BV(uint64(in.Rune[0])&0xff, 8))
						if in.Rune[0] > 0xff {
							member = c.False
						}
					} else {
						for r := 0; r+1 < len(in.Rune); r += 2 {
							lo, hi := in.Rune[r], in.Rune[r+1]
							if lo > 0xff {
								continue
							}
							if hi > 0xff {
								hi = 0xff
							}
							member = c.Or(member, c.And(c.BVUle(c.BV(uint64(lo), 8), b), c.BVUle(b, c.BV(uint64(hi), 8))))
						}
					}
					if member.IsTrue() || member.IsFalse() {
						continue
					}
					if e.feasible(st, member, "byte in class") && e.feasible(st, c.Not(member), "byte not in class") {
						panic(unsupported("FindString on symbolic text whose match span depends on the text: " + re.Pat))
					}
				}
			}
			out = append(out, exit{st: st, kind: exitReturn, val: StrV{B: append([]*Term{}, s.B[i:j]...)}})
		}
		return out
	}
	stubs["(*regexp.Regexp).FindStringSubmatch"] = func(e *Engine, st *State, fr *Frame, fn *ssa.Function, args []Value, pos token.Pos) []exit {
		re, px := reRecv(e, st, args[0], pos)
		if px != nil {
			return px
		}
		s := args[1].(StrV)
		if cs, ok := s.Concrete(); ok {
			m := re.Re.FindStringSubmatch(cs)
			if m == nil {
				return retExit(st, SliceV{Nil: true, Len: e.tc.BV(0, 64)})
			}
			var ss []StrV
			for _, x := range m {
				ss = append(ss, e.strConst(x))
			}
			return retExit(st, e.strSliceValue(st, ss))
		}
		if s.Opaque {
			panic(unsupported("FindStringSubmatch on opaque string"))
		}
		cond := e.reMatchTerm(re.Pat, s.B)
		var out []exit
		okF := e.feasible(st, cond, "regexp match")
		noF := e.feasible(st, e.tc.Not(cond), "regexp no match")
		if noF {
			s2 := st
			if okF {
				s2 = st.fork()
				e.stats.States++
			}
			s2.assume(e.tc.Not(cond))
			out = append(out, exit{st: s2, kind: exitReturn, val: SliceV{Nil: true, Len: e.tc.BV(0, 64)}})
		}
		if okF {
			if !fixedWidthAnchored(re.Pat) {
				panic(unsupported("FindStringSubmatch on symbolic text with a pattern whose group positions are not fixed: " + re.Pat))
			}
			st.assume(cond)
			// group positions from a concrete witness of the same length
			v, m, _ := e.sol.Check("regexp witness", st.pc)
			if v != Sat {
				panic(unsupported("regexp witness query failed"))
			}
			full := e.padModel(m, s.B...)
			wit := make([]byte, len(s.B))
			for i, b := range s.B {
				r, _ := e.tc.Eval(b, full)
				wit[i] = byte(r.C)
			}
			idx := re.Re.FindStringSubmatchIndex(string(wit))
			if idx == nil {
				panic(unsupported("regexp simulation disagrees with the native matcher on " + re.Pat))
			}
			var ss []StrV
			for k := 0; k+1 < len(idx); k += 2 {
				if idx[k] < 0 {
					ss = append(ss, StrV{})
				} else {
					ss = append(ss, StrV{B: s.B[idx[k]:idx[k+1]]})
				}
			}
			out = append(out, exit{st: st, kind: exitReturn, val: e.strSliceValue(st, ss)})
		}
		return out
	}
}
