package gosym

// The civil-record model of package time (DESIGN 4.1).

import (
	"go/token"
	"strings"
	"time"

	"golang.org/x/tools/go/ssa"
)

const zoneName = "VFZ" // abbreviation of the modelled fixed-offset local zone (replay uses the same name)

type zoneModel struct {
	e *Engine
}

func newZoneModel(e *Engine) *zoneModel { return &zoneModel{e: e} }

// offsetBV: offset (seconds east of UTC) of time.Local, as a BV64 term.
func (z *zoneModel) offsetBV(st *State) *Term {
	c := z.e.tc
	switch z.e.opt.Zone {
	case 0:
		return c.BV(0, 64)
	default:
		return c.Var("tz.offset", SBV(64))
	}
}

func (e *Engine) zoneAssumptions(st *State) {
	c := e.tc
	if e.opt.Zone >= 1 {
		off := c.Var("tz.offset", SBV(64))
		st.assume(c.BVSle(e.bv64(-50400), off))
		st.assume(c.BVSle(off, c.BV(50400, 64)))
	}
}

func (e *Engine) bv64(v int64) *Term { return e.tc.BV(uint64(v), 64) }

func (e *Engine) inRange(x *Term, lo, hi int64) *Term {
	return e.tc.And(e.tc.BVSle(e.bv64(lo), x), e.tc.BVSle(x, e.bv64(hi)))
}

// isLeap(y) for y in 0..9999 without division: y = 100*c + r, witness digits; leap ⇔ r%4==0 ∧ (r != 0 ∨ c%4 == 0).
// To stay division-free the low two bits are used: y%4 == 0 ⇔ low 2 bits of y are 0 (y >= 0);
// y%100 == 0 and y%400 == 0 need the century witness.
func (e *Engine) isLeap(st *State, y *Term) *Term {
	c := e.tc
	if y.IsConst() {
		v := y.SVal()
		return c.Bool(v%4 == 0 && (v%100 != 0 || v%400 == 0))
	}
	cen, rem := e.yearParts(st, y)
	div4 := c.Eq(c.Extract(y, 1, 0), c.BV(0, 2))
	div100 := c.Eq(rem, e.bv64(0))
	div400 := c.And(div100, c.Eq(c.Extract(cen, 1, 0), c.BV(0, 2)))
	return c.And(div4, c.Or(c.Not(div100), div400))
}

func (e *Engine) daysIn(st *State, m, y *Term) *Term {
	c := e.tc
	is := func(k int64) *Term { return c.Eq(m, e.bv64(k)) }
	feb := c.Ite(e.isLeap(st, y), e.bv64(29), e.bv64(28))
	return c.Ite(is(2), feb, c.Ite(c.Or(is(4), is(6), is(9), is(11)), e.bv64(30), e.bv64(31)))
}

// validCivil: all fields in range (year 0..9999).
func (e *Engine) validCivil(st *State, t TimeV) *Term {
	c := e.tc
	return c.And(e.inRange(t.Y, 0, 9999), e.inRange(t.M, 1, 12), e.inRange(t.D, 1, 31), c.BVSle(t.D, e.daysIn(st, t.M, t.Y)),
		e.inRange(t.H, 0, 23), e.inRange(t.Mi, 0, 59), e.inRange(t.S, 0, 59), e.inRange(t.Ns, 0, 999999999))
}

func (e *Engine) sod(t TimeV) *Term {
	c := e.tc
	return c.BVAdd(c.BVAdd(c.BVMul(t.H, e.bv64(3600)), c.BVMul(t.Mi, e.bv64(60))), t.S)
}

func (e *Engine) timeOffset(st *State, t TimeV) *Term {
	if t.UTC.IsTrue() {
		return e.bv64(0)
	}
	if t.Off != nil {
		return e.tc.Ite(t.UTC, e.bv64(0), t.Off)
	}
	if e.opt.Zone == 2 {
		panic(unsupported("zone offset of a local time that was not built by a modelled constructor under zone view Z2"))
	}
	return e.tc.Ite(t.UTC, e.bv64(0), e.zone.offsetBV(st))
}

func (e *Engine) timeIsZero(st *State, t TimeV) *Term {
	c := e.tc
	if t.Inst != nil {
		return c.False
	}
	off := e.timeOffset(st, t)
	sod := e.sod(t)
	is := func(x *Term, k int64) *Term { return c.Eq(x, e.bv64(k)) }
	a := c.And(is(t.Y, 1), is(t.M, 1), is(t.D, 1), c.Eq(sod, off))
	b := c.And(is(t.Y, 0), is(t.M, 12), is(t.D, 31), c.Eq(sod, c.BVAdd(off, e.bv64(86400))))
	return c.And(is(t.Ns, 0), c.Or(a, b))
}

// two decimal digits of a value known to be in 0..99 (witnesses)
func (e *Engine) twoDigits(st *State, x *Term) (*Term, *Term) {
	c := e.tc
	if x.IsConst() {
		v := x.C
		return c.BV('0'+v/10%10, 8), c.BV('0'+v%10, 8)
	}
	hi := c.Fresh("dhi", SBV(4))
	lo := c.Fresh("dlo", SBV(4))
	// definitional (conditional on the range, so that it can never cut a path); 8-bit arithmetic: 99 < 2^8.
	// The characters are concat(#x3, digit): their ASCII-ness is syntactic.
	x8 := c.Extract(x, 7, 0)
	st.assume(c.Implies(c.BVUle(x, e.bv64(99)), c.And(c.BVUle(hi, c.BV(9, 4)), c.BVUle(lo, c.BV(9, 4)),
		c.Eq(x8, c.BVAdd(c.BVMul(c.ZeroExt(hi, 4), c.BV(10, 8)), c.ZeroExt(lo, 4))))))
	return c.Concat(c.BV(3, 4), hi), c.Concat(c.BV(3, 4), lo)
}

// yearParts: y = 100*cc + yy with 0 <= cc,yy <= 99 (y in 0..9999)
func (e *Engine) yearParts(st *State, y *Term) (*Term, *Term) {
	c := e.tc
	if y.IsConst() {
		return e.bv64(int64(y.C / 100)), e.bv64(int64(y.C % 100))
	}
	cc16 := c.Fresh("ycc", SBV(16))
	yy16 := c.Fresh("yyy", SBV(16))
	// 16-bit arithmetic: 9999 < 2^16
	y16 := c.Extract(y, 15, 0)
	st.assume(c.Implies(c.BVUle(y, e.bv64(9999)), c.And(c.BVUle(cc16, c.BV(99, 16)), c.BVUle(yy16, c.BV(99, 16)), c.Eq(y16, c.BVAdd(c.BVMul(cc16, c.BV(100, 16)), yy16)))))
	return c.ZeroExt(cc16, 48), c.ZeroExt(yy16, 48)
}

type layoutTok struct {
	kind string // "2006" "06" "01" "02" "15" "04" "05" "MST" "lit"
	lit  string
}

func parseLayout(layout string) []layoutTok {
	var toks []layoutTok
	i := 0
	lit := func(s string) {
		if n := len(toks); n > 0 && toks[n-1].kind == "lit" {
			toks[n-1].lit += s
		} else {
			toks = append(toks, layoutTok{"lit", s})
		}
	}
	for i < len(layout) {
		rest := layout[i:]
		switch {
		case hasPrefix(rest, "2006"):
			toks = append(toks, layoutTok{kind: "2006"})
			i += 4
		case hasPrefix(rest, "MST"):
			toks = append(toks, layoutTok{kind: "MST"})
			i += 3
		case hasPrefix(rest, "01"), hasPrefix(rest, "02"), hasPrefix(rest, "04"), hasPrefix(rest, "05"), hasPrefix(rest, "06"), hasPrefix(rest, "15"):
			toks = append(toks, layoutTok{kind: rest[:2]})
			i += 2
		default:
			ch := rest[0]
			if ch >= '0' && ch <= '9' || ch >= 'A' && ch <= 'Z' || ch >= 'a' && ch <= 'z' || ch == '.' || ch == ',' || ch == '_' {
				// other layout elements (Jan, Mon, 1, 2, 3, PM, Z07, .000 …) are not modelled
				return nil
			}
			lit(string(ch))
			i++
		}
	}
	return toks
}

func hasPrefix(s, p string) bool { return len(s) >= len(p) && s[:len(p)] == p }

// extremeConstDate: all fields concrete and the year outside 0..9999: the natively normalised value.
func (e *Engine) extremeConstDate(t TimeV) (TimeV, bool) {
	if e.opt.Zone == 2 {
		return t, false
	}
	for _, x := range []*Term{t.Y, t.M, t.D, t.H, t.Mi, t.S, t.Ns} {
		if x == nil || !x.IsConst() {
			return t, false
		}
	}
	y := t.Y.SVal()
	if (y >= 0 && y <= 9999) || y < -200000 || y > 200000 {
		return t, false
	}
	nt := time.Date(int(y), time.Month(t.M.SVal()), int(t.D.SVal()), int(t.H.SVal()), int(t.Mi.SVal()), int(t.S.SVal()), int(t.Ns.SVal()), time.UTC)
	if ny := nt.Year(); ny >= 0 && ny <= 9999 {
		return t, false
	}
	out := t
	out.Y, out.M, out.D = e.bv64(int64(nt.Year())), e.bv64(int64(nt.Month())), e.bv64(int64(nt.Day()))
	out.H, out.Mi, out.S, out.Ns = e.bv64(int64(nt.Hour())), e.bv64(int64(nt.Minute())), e.bv64(int64(nt.Second())), e.bv64(int64(nt.Nanosecond()))
	e.stubsUsed["concrete dates with a year outside 0..9999: normalised and formatted natively"] = true
	return out, true
}

func (e *Engine) timeFormat(st *State, t TimeV, layout string) StrV {
	c := e.tc
	toks := parseLayout(layout)
	if toks == nil {
		return StrV{Opaque: true, Note: "time layout " + layout}
	}
	if t.Inst == nil && t.Y != nil && t.Y.IsConst() && (t.Y.SVal() < 0 || t.Y.SVal() > 9999) {
		conc, zone := true, false
		for _, x := range []*Term{t.M, t.D, t.H, t.Mi, t.S, t.Ns} {
			if !x.IsConst() {
				conc = false
			}
		}
		for _, tk := range toks {
			if tk.kind == "MST" {
				zone = true
			}
		}
		if conc && !zone {
			nt := time.Date(int(t.Y.SVal()), time.Month(t.M.SVal()), int(t.D.SVal()), int(t.H.SVal()), int(t.Mi.SVal()), int(t.S.SVal()), int(t.Ns.SVal()), time.UTC)
			return e.strConst(nt.Format(layout))
		}
		panic(unsupported("time.Format of a date whose year lies outside 0..9999"))
	}
	if t.Inst != nil {
		return StrV{Opaque: true, Note: "format of abstract instant"}
	}
	var b []*Term
	two := func(x *Term) {
		h, l := e.twoDigits(st, x)
		b = append(b, h, l)
	}
	for _, tk := range toks {
		switch tk.kind {
		case "lit":
			b = append(b, e.strConst(tk.lit).B...)
		case "2006":
			cc, yy := e.yearParts(st, t.Y)
			two(cc)
			two(yy)
		case "06":
			_, yy := e.yearParts(st, t.Y)
			two(yy)
		case "01":
			two(t.M)
		case "02":
			two(t.D)
		case "15":
			two(t.H)
		case "04":
			two(t.Mi)
		case "05":
			two(t.S)
		case "MST":
			name := "UTC"
			if t.Other {
				return StrV{Opaque: true, Note: "zone abbreviation of the controller zone"}
			}
			if e.opt.Zone == 2 && !t.UTC.IsTrue() {
				if t.Bef == nil || !t.UTC.IsFalse() {
					return StrV{Opaque: true, Note: "zone abbreviation under zone view Z2"}
				}
				// the two intervals of the zone are named VFA (before the transition) and VFB (the native
				// synthetic zone uses the same names)
				b = append(b, c.BV('V', 8), c.BV('F', 8), c.Ite(t.Bef, c.BV('A', 8), c.BV('B', 8)))
				continue
			}
			if e.opt.Zone >= 1 {
				if t.UTC.IsFalse() {
					name = zoneName
				} else if !t.UTC.IsTrue() {
					return StrV{Opaque: true, Note: "zone abbreviation of a time whose location is symbolic"}
				}
			}
			b = append(b, e.strConst(name).B...)
		}
	}
	_ = c
	return StrV{B: b}
}

// timeParse models time.ParseInLocation for fixed-width numeric layouts.
// Returns alternatives (ok, time) / (error).
func (e *Engine) timeParse(st *State, layout string, s StrV, loc int, pos token.Pos) []exit {
	c := e.tc
	toks := parseLayout(layout)
	if toks == nil {
		panic(unsupported("time.Parse layout " + layout))
	}
	if s.Opaque {
		panic(unsupported("time.Parse of opaque string"))
	}
	errExit := func(s2 *State) exit {
		return exit{st: s2, kind: exitReturn, val: TupleV{e.zeroTime(), e.errValue("time.ParseError", StrV{Opaque: true, Note: "parse error"})}}
	}
	// expected length
	want := 0
	for _, tk := range toks {
		switch tk.kind {
		case "lit":
			want += len(tk.lit)
		case "2006":
			want += 4
		case "MST":
			want += 3
		default:
			want += 2
		}
	}
	if len(s.B) != want {
		// shorter: some element fails to parse; longer: "extra text".  (A three-letter zone may also be
		// written GMT+N / four letters; those strings have a different length and are rejected by the
		// model only if they could not parse: flag them instead of guessing.)
		for _, tk := range toks {
			if tk.kind == "MST" && len(s.B) > want {
				panic(unsupported("time.Parse: zone abbreviation of non-standard length"))
			}
		}
		return []exit{errExit(st)}
	}
	ok := c.True
	digit := func(b *Term) (*Term, *Term) {
		if b.Op == OpConcat && b.Args[0].IsConst() && b.Args[0].C == 3 && b.Args[1].Sort.W == 4 {
			// '0' + nibble, written as concat(#x3, nibble)
			return c.ZeroExt(b.Args[1], 4), c.BVUle(b.Args[1], c.BV(9, 4))
		}
		d := c.BVSub(b, c.BV('0', 8))
		return d, c.BVUle(d, c.BV(9, 8))
	}
	num2 := func(i int) *Term {
		h, okh := digit(s.B[i])
		l, okl := digit(s.B[i+1])
		ok = c.And(ok, okh, okl)
		// 8-bit arithmetic (value <= 99 whenever both are digits), then widened
		return c.ZeroExt(c.BVAdd(c.BVMul(h, c.BV(10, 8)), l), 56)
	}
	t := TimeV{Y: e.bv64(0), M: e.bv64(1), D: e.bv64(1), H: e.bv64(0), Mi: e.bv64(0), S: e.bv64(0), Ns: e.bv64(0), UTC: e.tc.Bool(loc == 1), Other: loc == 3}
	hasYear := false
	i := 0
	zoneOK := c.True
	var namedA *Term // zone view Z2: the text names the zone interval before the transition
	for _, tk := range toks {
		switch tk.kind {
		case "lit":
			for k := 0; k < len(tk.lit); k++ {
				ok = c.And(ok, c.Eq(s.B[i+k], c.BV(uint64(tk.lit[k]), 8)))
			}
			i += len(tk.lit)
		case "2006":
			hi := num2(i)
			lo := num2(i + 2)
			t.Y = c.ZeroExt(c.BVAdd(c.BVMul(c.Extract(hi, 15, 0), c.BV(100, 16)), c.Extract(lo, 15, 0)), 48)
			hasYear = true
			i += 4
		case "06":
			yy := num2(i)
			t.Y = c.Ite(c.BVSle(e.bv64(69), yy), c.BVAdd(yy, e.bv64(1900)), c.BVAdd(yy, e.bv64(2000)))
			hasYear = true
			i += 2
		case "01":
			t.M = num2(i)
			ok = c.And(ok, e.inRange(t.M, 1, 12))
			i += 2
		case "02":
			t.D = num2(i)
			ok = c.And(ok, e.inRange(t.D, 1, 31))
			i += 2
		case "15":
			t.H = num2(i)
			ok = c.And(ok, e.inRange(t.H, 0, 23))
			i += 2
		case "04":
			t.Mi = num2(i)
			ok = c.And(ok, e.inRange(t.Mi, 0, 59))
			i += 2
		case "05":
			t.S = num2(i)
			ok = c.And(ok, e.inRange(t.S, 0, 59))
			i += 2
		case "MST":
			if loc == 3 {
				panic(unsupported("time.Parse: zone abbreviation in the controller zone"))
			}
			if loc == 2 && e.opt.Zone == 2 {
				// VFA / VFB: the named interval's offset decides the instant
				isV := c.And(c.Eq(s.B[i], c.BV('V', 8)), c.Eq(s.B[i+1], c.BV('F', 8)))
				isA, isB := c.Eq(s.B[i+2], c.BV('A', 8)), c.Eq(s.B[i+2], c.BV('B', 8))
				zoneOK = c.And(isV, c.Or(isA, isB))
				namedA = isA
				i += 3
				continue
			}
			name := "UTC"
			if loc == 2 && e.opt.Zone >= 1 {
				name = zoneName
			}
			eq := c.True
			for k := 0; k < 3; k++ {
				eq = c.And(eq, c.Eq(s.B[i+k], c.BV(uint64(name[k]), 8)))
			}
			zoneOK = eq
			i += 3
		}
	}
	t.Year0 = !hasYear
	// day of month against the month's length (Go: "day out of range")
	// ok is accumulated first so that the leap-year witnesses are only constrained on the ok side
	var out []exit
	okFeasible := e.feasible(st, ok, "time.Parse ok")
	errFeasible := true
	if okFeasible {
		errFeasible = e.feasible(st, c.Not(ok), "time.Parse err")
	}
	if errFeasible && !ok.IsTrue() {
		s2 := st
		if okFeasible {
			s2 = st.fork()
			e.stats.States++
		}
		s2.assume(c.Not(ok))
		out = append(out, errExit(s2))
	}
	if !okFeasible {
		return out
	}
	st.assume(ok)
	if !zoneOK.IsTrue() {
		if e.feasible(st, c.Not(zoneOK), "time.Parse zone") {
			panic(unsupported("time.Parse: zone abbreviation other than the local zone's"))
		}
		st.assume(zoneOK)
	}
	dayOK := c.BVSle(t.D, e.daysIn(st, t.M, t.Y))
	dOK := e.feasible(st, dayOK, "time.Parse day ok")
	dBad := true
	if dOK {
		dBad = e.feasible(st, c.Not(dayOK), "time.Parse day range")
	}
	if dBad && !dayOK.IsTrue() {
		s2 := st
		if dOK {
			s2 = st.fork()
			e.stats.States++
		}
		s2.assume(c.Not(dayOK))
		out = append(out, errExit(s2))
	}
	if dOK && namedA != nil {
		st.assume(dayOK)
		// the civil time in the named interval: instant = civil - its offset; the fields shown are those of
		// that instant in the zone
		zv := e.zv
		named := c.Ite(namedA, e.lo24(zv.O1), e.lo24(zv.O2))
		rel := c.BVSub(e.civilRel(st, t), named)
		bef := c.BVSlt(rel, e.lo24(zv.Tau))
		off := c.Ite(bef, e.lo24(zv.O1), e.lo24(zv.O2))
		out2 := e.relToCivil(st, t, c.BVAdd(rel, off), "zn")
		out2.Off, out2.Bef, out2.Rel = c.Ite(bef, zv.O1, zv.O2), bef, rel
		out = append(out, exit{st: st, kind: exitReturn, val: TupleV{out2, IfaceV{}}})
		return out
	}
	if dOK {
		st.assume(dayOK)
		for _, r := range e.resolveCivil(st, t, pos) {
			out = append(out, exit{st: r.st, kind: exitReturn, val: TupleV{r.t, IfaceV{}}})
		}
	}
	return out
}

// normaliseCivil: time.Date's normalisation of out-of-range fields, for single overflows: seconds and
// minutes 0..119, hours 0..47, day 1..32 (+1 carried), month 1..24, nanoseconds in range.  Anything further
// out is UNSUPPORTED.
func (e *Engine) normaliseCivil(st *State, t TimeV) TimeV {
	c := e.tc
	ext := c.And(e.inRange(t.Y, 0, 9999), e.inRange(t.M, 1, 24), e.inRange(t.D, 1, 32), e.inRange(t.H, 0, 47), e.inRange(t.Mi, 0, 119),
		e.inRange(t.S, 0, 119), e.inRange(t.Ns, 0, 999999999))
	if e.feasible(st, c.Not(ext), "time.Date normalisation range") {
		panic(unsupported("time.Date with fields further out of range than a single overflow (normalisation model); constrain the harness inputs"))
	}
	st.assume(ext)
	one := e.bv64(1)
	carry := func(x *Term, lim int64) (*Term, *Term) {
		ov := c.BVSle(e.bv64(lim), x)
		return c.Ite(ov, c.BVSub(x, e.bv64(lim)), x), c.Ite(ov, one, e.bv64(0))
	}
	s, cs := carry(t.S, 60)
	mi, cm := carry(c.BVAdd(t.Mi, cs), 60)
	h, ch := carry(c.BVAdd(t.H, cm), 24)
	mo, cy := carry(c.BVSub(t.M, one), 12) // zero-based month
	mo = c.BVAdd(mo, one)
	y := c.BVAdd(t.Y, cy)
	d := c.BVAdd(t.D, ch)
	dim := e.daysIn(st, mo, y)
	ovd := c.BVSlt(dim, d)
	d2 := c.Ite(ovd, c.BVSub(d, dim), d)
	dec := c.Eq(mo, e.bv64(12))
	mo2 := c.Ite(ovd, c.Ite(dec, one, c.BVAdd(mo, one)), mo)
	y2 := c.Ite(c.And(ovd, dec), c.BVAdd(y, one), y)
	// a result in year 10000 is outside the time model: that corner is assumed away (stated)
	e.stubsUsed["time.Date normalisation model (single overflow per field; results beyond year 9999 assumed away)"] = true
	st.assume(c.BVSle(y2, e.bv64(9999)))
	t.Y, t.M, t.D, t.H, t.Mi, t.S = y2, mo2, d2, h, mi, s
	return t
}

type civilAlt struct {
	st *State
	t  TimeV
}

// resolveCivil maps requested civil fields in a location to the time.Time Go would build
// (identity for UTC and fixed-offset zones; gap/overlap handling for the two-interval zone view).
func (e *Engine) resolveCivil(st *State, t TimeV, pos token.Pos) []civilAlt {
	if t.Other || (!t.UTC.IsTrue() && e.opt.Zone == 2) {
		return e.resolveCivilZ2(st, t, pos)
	}
	return []civilAlt{{st, t}}
}

func stubTimeMethod(f func(e *Engine, st *State, t TimeV, args []Value, pos token.Pos) Value) stubFn {
	return func(e *Engine, st *State, fr *Frame, fn *ssa.Function, args []Value, pos token.Pos) []exit {
		t, ok := args[0].(TimeV)
		if !ok {
			panic(unsupported("time method on non-model value"))
		}
		return retExit(st, f(e, st, t, args[1:], pos))
	}
}

func (e *Engine) needCivil(t TimeV, what string) {
	if t.Inst != nil {
		panic(unsupported(what + " of an abstract instant"))
	}
}

func init() {
	field := func(name string, get func(t TimeV) *Term) {
		stubs["(time.Time)."+name] = stubTimeMethod(func(e *Engine, st *State, t TimeV, args []Value, pos token.Pos) Value {
			e.needCivil(t, name)
			return get(t)
		})
	}
	field("Year", func(t TimeV) *Term { return t.Y })
	field("Month", func(t TimeV) *Term { return t.M })
	field("Day", func(t TimeV) *Term { return t.D })
	field("Hour", func(t TimeV) *Term { return t.H })
	field("Minute", func(t TimeV) *Term { return t.Mi })
	field("Second", func(t TimeV) *Term { return t.S })
	field("Nanosecond", func(t TimeV) *Term { return t.Ns })
	stubs["(time.Time).Date"] = stubTimeMethod(func(e *Engine, st *State, t TimeV, args []Value, pos token.Pos) Value {
		e.needCivil(t, "Date")
		return TupleV{t.Y, t.M, t.D}
	})
	stubs["(time.Time).Clock"] = stubTimeMethod(func(e *Engine, st *State, t TimeV, args []Value, pos token.Pos) Value {
		e.needCivil(t, "Clock")
		return TupleV{t.H, t.Mi, t.S}
	})
	stubs["(time.Time).ZoneBounds"] = func(e *Engine, st *State, fr *Frame, fn *ssa.Function, args []Value, pos token.Pos) []exit {
		t, ok := args[0].(TimeV)
		if !ok {
			panic(unsupported("time method on non-model value"))
		}
		e.needCivil(t, "ZoneBounds")
		zero := e.zeroTime()
		if t.UTC.IsTrue() || e.opt.Zone < 2 {
			if !t.UTC.IsTrue() && !t.UTC.IsFalse() {
				panic(unsupported("ZoneBounds of a time whose location is symbolic"))
			}
			// UTC and fixed-offset zones have no transitions
			return retExit(st, TupleV{zero, zero})
		}
		if t.Bef == nil || !t.UTC.IsFalse() {
			panic(unsupported("ZoneBounds of a local time not built by a modelled constructor"))
		}
		// the time lies before the zone's transition (end = the transition) or after it (start = the
		// transition); the other bound is either absent (zero time) or a far transition of the real zone,
		// which the two-interval view does not contain: an arbitrary local time at least two days away
		far := func(s *State, later bool) TimeV {
			c := e.tc
			v := func(n string, lo, hi int64) *Term {
				x := c.Fresh("zb."+n, SBV(64))
				s.assume(e.inRange(x, lo, hi))
				return x
			}
			t := TimeV{Y: v("y", 1, 9999), M: v("m", 1, 12), D: v("d", 1, 31), H: v("h", 0, 23), Mi: v("mi", 0, 59), S: v("s", 0, 59), Ns: e.bv64(0), UTC: c.False}
			s.assume(c.BVSle(t.D, e.daysIn(s, t.M, t.Y)))
			zv := e.zv
			ny, nm, nd := e.nextDay(s, zv.Y, zv.M, zv.D)
			n2y, n2m, n2d := e.nextDay(s, ny, nm, nd)
			py, pm, pd := e.prevDay(s, zv.Y, zv.M, zv.D)
			p2y, p2m, p2d := e.prevDay(s, py, pm, pd)
			lexLess := func(a1, a2, a3, b1, b2, b3 *Term) *Term {
				return c.Or(c.BVSlt(a1, b1), c.And(c.Eq(a1, b1), c.Or(c.BVSlt(a2, b2), c.And(c.Eq(a2, b2), c.BVSlt(a3, b3)))))
			}
			if later {
				s.assume(lexLess(n2y, n2m, n2d, t.Y, t.M, t.D))
			} else {
				s.assume(lexLess(t.Y, t.M, t.D, p2y, p2m, p2d))
			}
			off := c.Fresh("zb.off", SBV(64))
			s.assume(e.inRange(off, -50400, 50400))
			t.Off, t.Bef = off, c.Bool(!later)
			return t
		}
		var out []exit
		befOK := e.feasible(st, t.Bef, "ZoneBounds before")
		aftOK := !befOK || e.feasible(st, e.tc.Not(t.Bef), "ZoneBounds after")
		if befOK {
			s2 := st
			if aftOK {
				s2 = st.fork()
				e.stats.States++
			}
			s2.assume(t.Bef)
			s3 := s2.fork()
			e.stats.States++
			out = append(out, exit{st: s2, kind: exitReturn, val: TupleV{zero, e.transitionTime(s2)}})
			out = append(out, exit{st: s3, kind: exitReturn, val: TupleV{far(s3, false), e.transitionTime(s3)}})
		}
		if aftOK {
			st.assume(e.tc.Not(t.Bef))
			s3 := st.fork()
			e.stats.States++
			out = append(out, exit{st: st, kind: exitReturn, val: TupleV{e.transitionTime(st), zero}})
			out = append(out, exit{st: s3, kind: exitReturn, val: TupleV{e.transitionTime(s3), far(s3, true)}})
		}
		return out
	}
	stubs["(time.Time).YearDay"] = stubTimeMethod(func(e *Engine, st *State, t TimeV, args []Value, pos token.Pos) Value {
		e.needCivil(t, "YearDay")
		c := e.tc
		cum := []int64{0, 31, 59, 90, 120, 151, 181, 212, 243, 273, 304, 334}
		before := e.bv64(334)
		for m := 11; m >= 1; m-- {
			before = c.Ite(c.Eq(t.M, e.bv64(int64(m))), e.bv64(cum[m-1]), before)
		}
		leapAdj := c.Ite(c.And(e.isLeap(st, t.Y), c.BVSlt(e.bv64(2), t.M)), e.bv64(1), e.bv64(0))
		return c.BVAdd(c.BVAdd(before, t.D), leapAdj)
	})
	stubs["(time.Time).IsZero"] = stubTimeMethod(func(e *Engine, st *State, t TimeV, args []Value, pos token.Pos) Value {
		return e.timeIsZero(st, t)
	})
	stubs["(time.Time).Format"] = stubTimeMethod(func(e *Engine, st *State, t TimeV, args []Value, pos token.Pos) Value {
		return e.timeFormat(st, t, concreteString(args[0], "time layout"))
	})
	stubs["(time.Time).String"] = stubTimeMethod(func(e *Engine, st *State, t TimeV, args []Value, pos token.Pos) Value {
		return StrV{Opaque: true, Note: "time.Time.String"}
	})
	stubs["(time.Time).Weekday"] = stubTimeMethod(func(e *Engine, st *State, t TimeV, args []Value, pos token.Pos) Value {
		e.needCivil(t, "Weekday")
		w := e.tc.App("weekday", SBV(64), t.Y, t.M, t.D)
		st.assume(e.tc.BVUle(w, e.bv64(6)))
		return w
	})
	stubs["(time.Time).Truncate"] = stubTimeMethod(func(e *Engine, st *State, t TimeV, args []Value, pos token.Pos) Value {
		d, ok := isConstTerm(args[0])
		if !ok || d.SVal() != 1000000000 {
			panic(unsupported("Truncate by other than 1s"))
		}
		if t.Inst != nil {
			return t
		}
		// the zero time truncates to itself; every other modelled time has whole-second zone offsets
		t.Ns = e.bv64(0)
		return t
	})
	stubs["(time.Time).Location"] = stubTimeMethod(func(e *Engine, st *State, t TimeV, args []Value, pos token.Pos) Value {
		if t.Other {
			return LocV{Kind: 3}
		}
		if t.UTC.IsTrue() {
			return LocV{Kind: 1}
		}
		if t.UTC.IsFalse() {
			return LocV{Kind: 2}
		}
		panic(unsupported("Location of a time whose location is symbolic"))
	})
	stubs["(time.Time).In"] = stubTimeMethod(func(e *Engine, st *State, t TimeV, args []Value, pos token.Pos) Value {
		l := args[0].(LocV)
		if l.Kind == 3 || t.Other {
			if l.Kind == 3 && t.Other {
				return t
			}
			if l.Kind == 3 && e.zv != nil && e.opt.Zone == 0 && t.Inst == nil && !t.Year0 {
				// a time of the (UTC) process zone shown in the controller zone: the instant relative to the
				// anchor day decides the offset in effect, the civil fields are the instant plus that offset
				c, zv := e.tc, e.zv
				rel := e.civilRel(st, t)
				bef := c.BVSlt(rel, e.lo24(zv.Tau))
				out := e.relToCivil(st, t, c.BVAdd(rel, c.Ite(bef, e.lo24(zv.O1), e.lo24(zv.O2))), "cz")
				out.UTC, out.Other = c.False, true
				out.Off, out.Bef, out.Rel = c.Ite(bef, zv.O1, zv.O2), bef, rel
				return out
			}
			panic(unsupported("Time.In between the controller zone and another location"))
		}
		if (l.Kind == 1 && t.UTC.IsTrue()) || (l.Kind == 2 && t.UTC.IsFalse()) {
			return t
		}
		if l.Kind == 1 {
			e.needCivil(t, "In")
			return e.timeToUTC(st, t)
		}
		if l.Kind == 2 && !t.UTC.IsTrue() && !t.UTC.IsFalse() && e.opt.Zone == 1 && t.Inst == nil {
			// a time that is in UTC on some paths (the zero value) and local on the others: convert the UTC case
			asUTC, asLocal := t, t
			asUTC.UTC, asLocal.UTC = e.tc.True, e.tc.False
			d := e.tc.BVMul(e.zone.offsetBV(st), e.bv64(1000000000))
			s2 := st.fork() // (range assumptions of the conversion must not leak into the local case)
			conv := e.civilAddQuiet(s2, asUTC, d)
			if conv != nil {
				conv.UTC = e.tc.False
				if m, ok := e.mergeVal(t.UTC, *conv, asLocal); ok {
					return m
				}
			}
			panic(unsupported("Time.In(Local) of a time whose location is symbolic"))
		}
		if l.Kind == 2 && t.UTC.IsTrue() && e.opt.Zone != 2 {
			// UTC -> process zone: the same wall clock (UTC process zone) or civil + offset (fixed offset)
			e.needCivil(t, "In")
			if e.opt.Zone == 0 {
				t.UTC = e.tc.False
				return t
			}
			if t.Y.IsConst() && t.Y.SVal() <= 1 {
				panic(unsupported("Time.In(Local) of the zero time (the year before 1 is outside the time model)"))
			}
			d := e.tc.BVMul(e.zone.offsetBV(st), e.bv64(1000000000))
			out := e.civilAdd(st, t, d).(TimeV)
			out.UTC = e.tc.False
			return out
		}
		panic(unsupported("Time.In(Local) of a UTC time"))
	})
	stubs["(time.Time).UTC"] = stubTimeMethod(func(e *Engine, st *State, t TimeV, args []Value, pos token.Pos) Value {
		e.needCivil(t, "UTC")
		return e.timeToUTC(st, t)
	})
	stubs["(time.Time).Local"] = stubTimeMethod(func(e *Engine, st *State, t TimeV, args []Value, pos token.Pos) Value {
		if t.UTC.IsFalse() || e.opt.Zone == 0 {
			t.UTC = e.tc.False
			return t
		}
		panic(unsupported("Time.Local of a UTC time under a symbolic zone"))
	})
	stubs["time.ParseInLocation"] = func(e *Engine, st *State, fr *Frame, fn *ssa.Function, args []Value, pos token.Pos) []exit {
		layout := concreteString(args[0], "time layout")
		loc, ok := args[2].(LocV)
		isNil := ok && loc.Kind == 0
		if p, isPtr := args[2].(PtrV); isPtr && p.IsNil() {
			isNil = true
		}
		if isNil {
			// a nil location: text that does not parse is an error as usual; text that parses reaches
			// Date(..., nil), which panics
			var out []exit
			for _, r := range e.timeParse(st, layout, args[1].(StrV), 2, pos) {
				if tv, isT := r.val.(TupleV); r.kind == exitReturn && isT && len(tv) == 2 {
					if ev, isI := tv[1].(IfaceV); isI && ev.T == nil {
						e.reportPanic(r.st, e.tc.True, "time: missing Location in call to Date", pos)
						out = append(out, exit{st: r.st, kind: exitPanic, pmsg: "time: missing Location in call to Date"})
						continue
					}
				}
				out = append(out, r)
			}
			return out
		}
		if !ok {
			panic(unsupported("ParseInLocation with an unknown location"))
		}
		return e.timeParse(st, layout, args[1].(StrV), loc.Kind, pos)
	}
	stubs["time.Parse"] = func(e *Engine, st *State, fr *Frame, fn *ssa.Function, args []Value, pos token.Pos) []exit {
		return e.timeParse(st, concreteString(args[0], "time layout"), args[1].(StrV), 1, pos)
	}
	stubs["time.Date"] = func(e *Engine, st *State, fr *Frame, fn *ssa.Function, args []Value, pos token.Pos) []exit {
		loc, ok := args[7].(LocV)
		if !ok || loc.Kind == 0 {
			// time.Date panics on a nil location
			e.reportPanic(st, e.tc.True, "time: missing Location in call to Date", pos)
			return []exit{{st: st, kind: exitPanic, pmsg: "time.Date nil location"}}
		}
		t := TimeV{Y: args[0].(*Term), M: args[1].(*Term), D: args[2].(*Term), H: args[3].(*Term), Mi: args[4].(*Term), S: args[5].(*Term), Ns: args[6].(*Term), UTC: e.tc.Bool(loc.Kind == 1), Other: loc.Kind == 3}
		if xt, ok := e.extremeConstDate(t); ok {
			// a concrete date whose year lies outside 0..9999 (outside the symbolic calendar model): its
			// fields are normalised natively; it can be formatted and compared, nothing else
			return retExit(st, xt)
		}
		valid := e.validCivil(st, t)
		if e.feasible(st, e.tc.Not(valid), "time.Date normalisation") {
			t = e.normaliseCivil(st, t)
		} else {
			st.assume(valid)
		}
		var out []exit
		for _, r := range e.resolveCivil(st, t, pos) {
			out = append(out, exit{st: r.st, kind: exitReturn, val: r.t})
		}
		return out
	}
	// time.After: a channel whose value becomes available when the deterministic clock reaches now + d
	stubs["time.After"] = func(e *Engine, st *State, fr *Frame, fn *ssa.Function, args []Value, pos token.Pos) []exit {
		now := e.clockOn(st)
		d := args[0].(*Term)
		pos64 := e.tc.Ite(e.tc.BVSlt(d, e.bv64(0)), e.bv64(0), d)
		at := e.tc.BVAdd(now, pos64)
		v := e.timeNow(st)
		v.Inst = at
		id := e.alloc(st, &ChanObj{Cap: 1, Buf: []Value{v}, ReadyAt: at})
		return retExit(st, ChanV{Obj: id})
	}
	instOf := func(e *Engine, st *State, t TimeV, what string) *Term {
		if t.Inst == nil {
			panic(unsupported(what + " of a civil time (only instants of the deterministic clock are modelled)"))
		}
		return t.Inst
	}
	stubs["time.Until"] = func(e *Engine, st *State, fr *Frame, fn *ssa.Function, args []Value, pos token.Pos) []exit {
		t := args[0].(TimeV)
		return retExit(st, e.tc.BVSub(instOf(e, st, t, "time.Until"), e.timeNow(st).Inst))
	}
	stubs["time.Since"] = func(e *Engine, st *State, fr *Frame, fn *ssa.Function, args []Value, pos token.Pos) []exit {
		t := args[0].(TimeV)
		return retExit(st, e.tc.BVSub(e.timeNow(st).Inst, instOf(e, st, t, "time.Since")))
	}
	if _, have := stubs["(time.Time).Sub"]; !have {
		stubs["(time.Time).Sub"] = stubTimeMethod(func(e *Engine, st *State, t TimeV, args []Value, pos token.Pos) Value {
			u := args[0].(TimeV)
			if t.Inst == nil && u.Inst == nil {
				// civil times: through the epoch-second variables (exact within a calendar day, ordered beyond)
				x, _ := e.timeUnixNano(st, t).(*Term)
				y, _ := e.timeUnixNano(st, u).(*Term)
				return e.tc.BVSub(x, y)
			}
			return e.tc.BVSub(instOf(e, st, t, "Time.Sub"), instOf(e, st, u, "Time.Sub"))
		})
	}
	stubs["time.Now"] = func(e *Engine, st *State, fr *Frame, fn *ssa.Function, args []Value, pos token.Pos) []exit {
		return retExit(st, e.timeNow(st))
	}
	stubs["time.Sleep"] = func(e *Engine, st *State, fr *Frame, fn *ssa.Function, args []Value, pos token.Pos) []exit {
		return e.timeSleep(st, fr, args[0].(*Term), pos)
	}
	stubs["(time.Time).Add"] = stubTimeMethod(func(e *Engine, st *State, t TimeV, args []Value, pos token.Pos) Value {
		return e.timeAdd(st, t, args[0].(*Term))
	})
	stubs["(time.Time).UnixMilli"] = stubTimeMethod(func(e *Engine, st *State, t TimeV, args []Value, pos token.Pos) Value {
		return e.timeUnixMilli(st, t)
	})
	stubs["(time.Time).UnixNano"] = stubTimeMethod(func(e *Engine, st *State, t TimeV, args []Value, pos token.Pos) Value {
		return e.timeUnixNano(st, t)
	})
	stubs["(time.Time).Unix"] = stubTimeMethod(func(e *Engine, st *State, t TimeV, args []Value, pos token.Pos) Value {
		e.needCivil(t, "Unix")
		return e.epochSecond(st, t)
	})
	stubs["(time.Time).Before"] = stubTimeMethod(func(e *Engine, st *State, t TimeV, args []Value, pos token.Pos) Value {
		return e.timeBefore(st, t, args[0].(TimeV))
	})
	stubs["(time.Time).After"] = stubTimeMethod(func(e *Engine, st *State, t TimeV, args []Value, pos token.Pos) Value {
		return e.timeBefore(st, args[0].(TimeV), t)
	})
	stubs["(time.Time).Equal"] = stubTimeMethod(func(e *Engine, st *State, t TimeV, args []Value, pos token.Pos) Value {
		u := args[0].(TimeV)
		return e.tc.And(e.tc.Not(e.timeBefore(st, t, u)), e.tc.Not(e.timeBefore(st, u, t)))
	})
	stubs["(*time.Location).String"] = func(e *Engine, st *State, fr *Frame, fn *ssa.Function, args []Value, pos token.Pos) []exit {
		return retExit(st, StrV{Opaque: true, Note: "location name"})
	}
	stubs["(time.Month).String"] = func(e *Engine, st *State, fr *Frame, fn *ssa.Function, args []Value, pos token.Pos) []exit {
		return retExit(st, StrV{Opaque: true, Note: "month name"})
	}
	stubs["(time.Weekday).String"] = func(e *Engine, st *State, fr *Frame, fn *ssa.Function, args []Value, pos token.Pos) []exit {
		if t, ok := isConstTerm(args[0]); ok && t.C < 7 {
			names := []string{"Sunday", "Monday", "Tuesday", "Wednesday", "Thursday", "Friday", "Saturday"}
			return retExit(st, e.strConst(names[t.C]))
		}
		return retExit(st, StrV{Opaque: true, Note: "weekday name"})
	}
	stubs["(time.Duration).String"] = func(e *Engine, st *State, fr *Frame, fn *ssa.Function, args []Value, pos token.Pos) []exit {
		return retExit(st, StrV{Opaque: true, Note: "duration"})
	}
}

// timeBefore: t < u as instants.
func (e *Engine) timeBefore(st *State, t, u TimeV) *Term {
	c := e.tc
	if t.Inst != nil && u.Inst != nil {
		return c.BVSlt(t.Inst, u.Inst)
	}
	if t.Inst != nil || u.Inst != nil {
		panic(unsupported("comparison of an abstract instant with a civil time"))
	}
	if e.opt.Zone == 2 && t.Rel != nil && u.Rel != nil {
		// instants relative to the anchor day (correct inside an overlap, where civil fields repeat)
		return c.Or(c.BVSlt(t.Rel, u.Rel), c.And(c.Eq(t.Rel, u.Rel), c.BVSlt(t.Ns, u.Ns)))
	}
	if t.UTC != u.UTC && e.opt.Zone == 1 && !t.Other && !u.Other && (t.UTC.IsTrue() || t.UTC.IsFalse()) && (u.UTC.IsTrue() || u.UTC.IsFalse()) {
		// one time in UTC, the other in the fixed-offset process zone: compare the instants on the UTC axis
		t, u = e.timeToUTC(st, t), e.timeToUTC(st, u)
	} else if t.UTC != u.UTC && e.opt.Zone != 0 {
		panic(unsupported("comparison of times in different locations under a symbolic zone"))
	}
	// same offset: lexicographic on civil fields
	lt := c.BVSlt(t.Ns, u.Ns)
	for _, p := range [][2]*Term{{t.S, u.S}, {t.Mi, u.Mi}, {t.H, u.H}, {t.D, u.D}, {t.M, u.M}, {t.Y, u.Y}} {
		lt = c.Or(c.BVSlt(p[0], p[1]), c.And(c.Eq(p[0], p[1]), lt))
	}
	return lt
}

// ---- instants (deadlines): time.Now() yields an abstract instant on a monotonic axis

func (e *Engine) timeNow(st *State) TimeV {
	c := e.tc
	if st.clock != nil {
		return TimeV{Inst: st.clock, Y: e.bv64(1), M: e.bv64(1), D: e.bv64(1), H: e.bv64(0), Mi: e.bv64(0), S: e.bv64(0), Ns: e.bv64(0), UTC: e.tc.False}
	}
	st.nowSeq++
	name := "now"
	if st.nowSeq > 1 {
		name = "now#" + itoa(st.nowSeq-1)
	}
	t := c.Var(name, SBV(64))
	// non-decreasing, non-negative, far from overflow
	st.assume(c.And(c.BVSle(e.bv64(0), t), c.BVSle(t, e.bv64(1<<60))))
	if st.lastNow != nil {
		st.assume(c.BVSle(st.lastNow, t))
	}
	st.lastNow = t
	return TimeV{Inst: t, Y: e.bv64(1), M: e.bv64(1), D: e.bv64(1), H: e.bv64(0), Mi: e.bv64(0), S: e.bv64(0), Ns: e.bv64(0), UTC: e.tc.False}
}

func itoa(n int) string {
	if n == 0 {
		return "0"
	}
	s := ""
	for n > 0 {
		s = string(rune('0'+n%10)) + s
		n /= 10
	}
	return s
}

func (e *Engine) timeAdd(st *State, t TimeV, d *Term) Value {
	if t.Inst != nil {
		t.Inst = e.tc.BVAdd(t.Inst, d)
		return t
	}
	if d.IsConst() && d.C == 0 {
		return t
	}
	return e.civilAdd(st, t, d)
}

// exactDiv: t / k for a term that is syntactically a sum of multiples of k (durations built from
// time.Hour, time.Minute, time.Second); ok=false otherwise.
func (e *Engine) exactDiv(t *Term, k uint64) (*Term, bool) {
	c := e.tc
	w := t.Sort.W
	cval := func(x *Term) int64 {
		if w == 64 {
			return x.SVal()
		}
		return int64(x.C) // narrow terms come from width reduction of non-negative values
	}
	switch t.Op {
	case OpConst:
		if v := cval(t); v%int64(k) == 0 {
			return c.BV(uint64(v/int64(k)), w), true
		}
	case OpZeroExt:
		if a, ok := e.exactDiv(t.Args[0], k); ok {
			return c.ZeroExt(a, t.Hi), true
		}
	case OpBVAdd, OpBVSub:
		a, ok1 := e.exactDiv(t.Args[0], k)
		b, ok2 := e.exactDiv(t.Args[1], k)
		if ok1 && ok2 {
			if t.Op == OpBVAdd {
				return c.BVAdd(a, b), true
			}
			return c.BVSub(a, b), true
		}
	case OpBVMul:
		for i := 0; i < 2; i++ {
			if t.Args[i].Op == OpConst && cval(t.Args[i])%int64(k) == 0 {
				return c.BVMul(t.Args[1-i], c.BV(uint64(cval(t.Args[i])/int64(k)), w)), true
			}
		}
		for i := 0; i < 2; i++ {
			if a, ok := e.exactDiv(t.Args[i], k); ok {
				return c.BVMul(a, t.Args[1-i]), true
			}
		}
	case OpBVNeg:
		if a, ok := e.exactDiv(t.Args[0], k); ok {
			return c.BVNeg(a), true
		}
	case OpIte:
		a, ok1 := e.exactDiv(t.Args[1], k)
		b, ok2 := e.exactDiv(t.Args[2], k)
		if ok1 && ok2 {
			return c.Ite(t.Args[0], a, b), true
		}
	}
	return nil, false
}

// relToCivil: civil fields for civ seconds after 00:00 of the anchor day on the civil axis (zone view Z2).
func (e *Engine) relToCivil(st *State, out TimeV, civ *Term, tag string) TimeV {
	c := e.tc
	zv := e.zv
	lt := func(k int64) *Term { return c.BVSlt(civ, e.z24(k)) }
	okR := c.And(c.Not(lt(-2*86400)), lt(3*86400))
	e.requireOrAssume(st, okR, "civil day range (within two days of the anchor day)", "time arithmetic: result more than two days from the anchor day")
	st.assume(okR)
	dayOff := c.Ite(lt(-86400), e.z24(-2*86400), c.Ite(lt(0), e.z24(-86400), c.Ite(lt(86400), e.z24(0), c.Ite(lt(172800), e.z24(86400), e.z24(2*86400)))))
	sod := c.BVSub(civ, dayOff)
	hw, mw, sw := e.hmsWitness(st, c.True, sod, tag)
	py, pm, pd := e.prevDay(st, zv.Y, zv.M, zv.D)
	p2y, p2m, p2d := e.prevDay(st, py, pm, pd)
	ny, nm, nd := e.nextDay(st, zv.Y, zv.M, zv.D)
	n2y, n2m, n2d := e.nextDay(st, ny, nm, nd)
	pick := func(a2, a1, a0, b1, b2 *Term) *Term {
		return c.Ite(lt(-86400), a2, c.Ite(lt(0), a1, c.Ite(lt(86400), a0, c.Ite(lt(172800), b1, b2))))
	}
	out.Y, out.M, out.D = pick(p2y, py, zv.Y, ny, n2y), pick(p2m, pm, zv.M, nm, n2m), pick(p2d, pd, zv.D, nd, n2d)
	out.H, out.Mi, out.S = hw, mw, sw
	return out
}

// timeToUTC: t.UTC() / t.In(time.UTC) for a local civil time.
func (e *Engine) timeToUTC(st *State, t TimeV) TimeV {
	c := e.tc
	if t.UTC.IsTrue() {
		return t
	}
	if !t.UTC.IsFalse() {
		if e.opt.Zone == 1 && t.Inst == nil {
			// UTC on some paths (the zero value), local on the others: convert the local case only
			asUTC, asLocal := t, t
			asUTC.UTC, asLocal.UTC = c.True, c.False
			d := c.BVMul(c.BVNeg(e.zone.offsetBV(st)), e.bv64(1000000000))
			if conv := e.civilAddQuiet(st.fork(), asLocal, d); conv != nil {
				conv.UTC = c.True
				if m, ok := e.mergeVal(t.UTC, asUTC, *conv); ok {
					return m.(TimeV)
				}
			}
		}
		panic(unsupported("UTC() of a time whose location is symbolic"))
	}
	if e.opt.Zone == 0 {
		t.UTC = c.True
		return t
	}
	if e.opt.Zone == 2 {
		if t.Rel == nil {
			panic(unsupported("UTC() of a local time not built by a modelled constructor (zone view Z2)"))
		}
		out := e.relToCivil(st, t, t.Rel, "ut")
		out.UTC, out.Off, out.Bef, out.Rel = c.True, nil, nil, nil
		return out
	}
	// fixed offset: civil - offset
	off := e.zone.offsetBV(st)
	d := c.BVMul(c.BVNeg(off), e.bv64(1000000000))
	out := e.civilAdd(st, t, d).(TimeV)
	out.UTC = c.True
	return out
}

// civilAddQuiet: civilAdd that reports failure instead of raising unsupported.
func (e *Engine) civilAddQuiet(st *State, t TimeV, d *Term) (out *TimeV) {
	defer func() {
		if r := recover(); r != nil {
			if _, ok := r.(unsupportedErr); ok {
				out = nil
				return
			}
			panic(r)
		}
	}()
	v := e.civilAdd(st, t, d).(TimeV)
	return &v
}

// civilAdd: t.Add(d) for a civil time: whole seconds, |d| < 2 days (anything else is UNSUPPORTED).
func (e *Engine) civilAdd(st *State, t TimeV, d *Term) Value {
	c := e.tc
	secs, ok := e.exactDiv(d, 1000000000)
	if !ok && t.Ns.IsConst() && t.Ns.C == 0 {
		// a sub-second duration added to a whole second: only the nanoseconds change
		if _, okms := e.exactDiv(d, 1000000); okms && !e.feasible(st, c.Not(e.inRange(d, 0, 999999999)), "Time.Add sub-second") {
			st.assume(e.inRange(d, 0, 999999999))
			out := t
			out.Ns = d
			return out
		}
	}
	if !ok {
		panic(unsupported("Time.Add with a duration that is not syntactically a whole number of seconds: " + trunc(d.SMT(), 400)))
	}
	rng := e.inRange(secs, -172800, 172800)
	if e.feasible(st, c.Not(rng), "Time.Add range") {
		panic(unsupported("Time.Add by two days or more"))
	}
	st.assume(rng)
	s24 := e.lo24(secs)
	out := t
	if e.opt.Zone == 2 && !t.UTC.IsTrue() {
		if t.Rel == nil || !t.UTC.IsFalse() {
			panic(unsupported("Time.Add on a local time not built by a modelled constructor (zone view Z2)"))
		}
		zv := e.zv
		o1, o2, tau := e.lo24(zv.O1), e.lo24(zv.O2), e.lo24(zv.Tau)
		rel := c.BVAdd(t.Rel, s24)
		bef := c.BVSlt(rel, tau)
		off := c.Ite(bef, o1, o2)
		out = e.relToCivil(st, out, c.BVAdd(rel, off), "ad")
		out.Off, out.Bef, out.Rel = c.Ite(bef, zv.O1, zv.O2), bef, rel
		return out
	}
	// UTC or a fixed-offset zone: civil arithmetic
	total := c.BVAdd(e.sod24(t), s24)
	under := c.BVSlt(total, e.z24(0))
	under2 := c.BVSlt(total, e.z24(-86400))
	over := c.BVSle(e.z24(86400), total)
	over2 := c.BVSle(e.z24(2*86400), total)
	sod := c.Ite(under2, c.BVAdd(total, e.z24(2*86400)), c.Ite(under, c.BVAdd(total, e.z24(86400)), c.Ite(over2, c.BVSub(total, e.z24(2*86400)), c.Ite(over, c.BVSub(total, e.z24(86400)), total))))
	hw, mw, sw := e.hmsWitness(st, c.True, sod, "ad")
	py, pm, pd := e.prevDay(st, t.Y, t.M, t.D)
	p2y, p2m, p2d := e.prevDay(st, py, pm, pd)
	ny, nm, nd := e.nextDay(st, t.Y, t.M, t.D)
	n2y, n2m, n2d := e.nextDay(st, ny, nm, nd)
	pick := func(a2, a1, a0, b1, b2 *Term) *Term {
		return c.Ite(under2, a2, c.Ite(under, a1, c.Ite(over2, b2, c.Ite(over, b1, a0))))
	}
	out.Y, out.M, out.D = pick(p2y, py, t.Y, ny, n2y), pick(p2m, pm, t.M, nm, n2m), pick(p2d, pd, t.D, nd, n2d)
	out.H, out.Mi, out.S = hw, mw, sw
	return out
}

func (e *Engine) timeSleep(st *State, fr *Frame, d *Term, pos token.Pos) []exit {
	return e.schedSleep(st, fr, d, pos)
}

// secBefore: a's whole second lies before b's (both civil).
func (e *Engine) secBefore(st *State, a, b TimeV) *Term {
	c := e.tc
	if e.opt.Zone == 2 && a.Rel != nil && b.Rel != nil {
		return c.BVSlt(a.Rel, b.Rel)
	}
	if a.UTC != b.UTC && e.opt.Zone != 0 {
		panic(unsupported("comparison of times in different locations under a symbolic zone"))
	}
	if e.opt.Zone == 2 && !a.UTC.IsTrue() {
		panic(unsupported("comparison of local times without a known instant under zone view Z2"))
	}
	lt := c.False
	for _, p := range [][2]*Term{{a.S, b.S}, {a.Mi, b.Mi}, {a.H, b.H}, {a.D, b.D}, {a.M, b.M}, {a.Y, b.Y}} {
		lt = c.Or(c.BVSlt(p[0], p[1]), c.And(c.Eq(p[0], p[1]), lt))
	}
	return lt
}

// timeUnixMilli: Unix milliseconds as S*1000 + ms, where the epoch second S of each time is a variable
// constrained only by its order relative to the epoch seconds of the other times seen (calendar arithmetic
// is never bit-blasted; enough for comparisons, which is what the repo uses it for).
func (e *Engine) timeUnixMilli(st *State, t TimeV) Value {
	c := e.tc
	e.needCivil(t, "UnixMilli")
	ms, ok := e.exactDiv(t.Ns, 1000000)
	if !ok {
		if t.Ns.IsConst() {
			ms = e.bv64(int64(t.Ns.C / 1000000))
		} else {
			panic(unsupported("UnixMilli of a time whose nanoseconds are not syntactically whole milliseconds"))
		}
	}
	S := e.epochSecond(st, t)
	return c.BVAdd(c.BVMul(S, e.bv64(1000)), ms)
}

// timeUnixNano: S*1e9 + ns in wrapping 64-bit arithmetic (overflows for years beyond 2262, like the real one).
func (e *Engine) timeUnixNano(st *State, t TimeV) Value {
	c := e.tc
	e.needCivil(t, "UnixNano")
	return c.BVAdd(c.BVMul(e.epochSecond(st, t), e.bv64(1000000000)), t.Ns)
}

// epochSecond: the Unix second of t as a variable ordered consistently with the other times seen and tied to
// the year ((Y-1970) * 365 d <= S < (Y-1969) * 366 d).
func (e *Engine) epochSecond(st *State, t TimeV) *Term {
	c := e.tc
	for _, r := range st.epochs {
		if r.t == t {
			return r.S
		}
	}
	S := c.Fresh("epoch.s", SBV(64))
	st.assume(e.inRange(S, 0, 1<<40))
	if e.feasible(st, c.BVSlt(t.Y, e.bv64(1970)), "epoch year") {
		panic(unsupported("Unix time of a date before 1970"))
	}
	yr := c.BVSub(t.Y, e.bv64(1970))
	st.assume(c.And(c.BVSle(c.BVMul(yr, e.bv64(365*86400)), S), c.BVSlt(S, c.BVMul(c.BVAdd(yr, e.bv64(1)), e.bv64(366*86400)))))
	for _, r := range st.epochs {
		lt, gt := e.secBefore(st, t, r.t), e.secBefore(st, r.t, t)
		st.assume(c.And(c.Implies(lt, c.BVSlt(S, r.S)), c.Implies(gt, c.BVSlt(r.S, S)), c.Implies(c.Not(c.Or(lt, gt)), c.Eq(S, r.S))))
		if e.opt.Zone != 2 && t.Rel == nil && r.t.Rel == nil {
			// on the same calendar day (same location, fixed offset) the difference is exact
			sod := func(x TimeV) *Term {
				return c.BVAdd(c.BVAdd(c.BVMul(x.H, e.bv64(3600)), c.BVMul(x.Mi, e.bv64(60))), x.S)
			}
			same := c.And(c.Eq(t.Y, r.t.Y), c.Eq(t.M, r.t.M), c.Eq(t.D, r.t.D))
			st.assume(c.Implies(same, c.Eq(c.BVSub(S, r.S), c.BVSub(sod(t), sod(r.t)))))
		}
	}
	st.epochs = append(st.epochs[:len(st.epochs):len(st.epochs)], epochRec{t, S})
	e.stubsUsed["Time.UnixMilli / UnixNano: epoch seconds as variables ordered like the instants and bounded by the year (from 1970 on)"] = true
	return S
}

type epochRec struct {
	t TimeV
	S *Term
}

// ---- zone view Z2: the process zone is a two-interval zone (offset o1 before instant T, o2 from T on).
//
// T is expressed relative to the harness's anchor day A (declared with verifZoneAt(y, m, d)):
// T = unix(A 00:00:00 UTC) + tau, -50400 <= tau <= 136800 - a transition outside that window cannot
// influence the resolution of a civil time on day A (|offset| <= 14 h), where the zone acts as a
// fixed-offset zone (covered by o1 == o2 or by tau at the window's edge).  Civil times on other days
// are placed relative to A exactly for A-1 .. A+2 and by calendar order beyond (which is exact too,
// because T lies within the window).  time.Date / ParseInLocation resolve civil fields with Go's own
// algorithm (time.go, func Date: lookup at the civil time as if UTC, re-lookup when the guess falls
// outside the zone interval found).

type zoneView struct {
	Y, M, D     *Term // anchor day
	O1, O2, Tau *Term
}

func (e *Engine) prevDay(st *State, y, m, d *Term) (*Term, *Term, *Term) {
	c := e.tc
	one := e.bv64(1)
	firstOfMonth := c.Eq(d, one)
	jan := c.Eq(m, one)
	pm := c.Ite(jan, e.bv64(12), c.BVSub(m, one))
	py := c.Ite(jan, c.BVSub(y, one), y)
	return c.Ite(firstOfMonth, py, y), c.Ite(firstOfMonth, pm, m), c.Ite(firstOfMonth, e.daysIn(st, pm, py), c.BVSub(d, one))
}

func (e *Engine) nextDay(st *State, y, m, d *Term) (*Term, *Term, *Term) {
	c := e.tc
	one := e.bv64(1)
	last := c.Eq(d, e.daysIn(st, m, y))
	dec := c.Eq(m, e.bv64(12))
	nm := c.Ite(dec, one, c.BVAdd(m, one))
	ny := c.Ite(dec, c.BVAdd(y, one), y)
	return c.Ite(last, ny, y), c.Ite(last, nm, m), c.Ite(last, one, c.BVAdd(d, one))
}

// declareZoneAt: intrinsic verifZoneAt(y, m, d).
func (e *Engine) declareZoneAt(st *State, y, m, d *Term) {
	c := e.tc
	e.opt.Zone = 2
	zv := &zoneView{Y: y, M: m, D: d, O1: c.Var("tz.o1", SBV(64)), O2: c.Var("tz.o2", SBV(64)), Tau: c.Var("tz.tau", SBV(64))}
	st.assume(e.inRange(zv.O1, -50400, 50400))
	st.assume(e.inRange(zv.O2, -50400, 50400))
	st.assume(e.inRange(zv.Tau, -50400, 136800))
	// jumps shorter than 24 h (a zone that skips a whole calendar day is exempt from the property)
	dlt := c.BVSub(zv.O2, zv.O1)
	st.assume(e.inRange(dlt, -86399, 86399))
	e.zv = zv
	if e.zoneTable != nil {
		// table mode: (o1, o2, tau, anchor day) is one of the transitions of the installed tzdata
		var rows []*Term
		for _, r := range e.zoneTable {
			rows = append(rows, c.And(c.Eq(zv.O1, e.bv64(int64(r.O1))), c.Eq(zv.O2, e.bv64(int64(r.O2))), c.Eq(zv.Tau, e.bv64(r.Tau)),
				c.Eq(y, e.bv64(int64(r.Y))), c.Eq(m, e.bv64(int64(r.M))), c.Eq(d, e.bv64(int64(r.D)))))
		}
		st.assume(c.Or(rows...))
	}
}

// The zone arithmetic runs in 24-bit two's complement: every quantity is bounded by
// 3 days + 14 h + 38 h < 2^19 seconds in absolute value (the ranges are assumptions of declareZoneAt).
const zw = 24

func (e *Engine) z24(v int64) *Term  { return e.tc.BV(uint64(v)&(1<<zw-1), zw) }
func (e *Engine) lo24(x *Term) *Term { return e.tc.Extract(x, zw-1, 0) }

func (e *Engine) sod24(t TimeV) *Term {
	c := e.tc
	return c.BVAdd(c.BVAdd(c.BVMul(e.lo24(t.H), e.z24(3600)), c.BVMul(e.lo24(t.Mi), e.z24(60))), e.lo24(t.S))
}

// hmsWitness: h, m, s with 3600h + 60m + s == sod (0 <= sod < 86400), as 64-bit terms.
func (e *Engine) hmsWitness(st *State, guard, sod *Term, tag string) (*Term, *Term, *Term) {
	c := e.tc
	hw := c.Fresh(tag+"h", SBV(8))
	mw := c.Fresh(tag+"m", SBV(8))
	sw := c.Fresh(tag+"s", SBV(8))
	x := func(w *Term) *Term { return c.ZeroExt(w, zw-8) }
	st.assume(c.Implies(guard, c.And(c.BVUle(hw, c.BV(23, 8)), c.BVUle(mw, c.BV(59, 8)), c.BVUle(sw, c.BV(59, 8)),
		c.Eq(sod, c.BVAdd(c.BVAdd(c.BVMul(x(hw), e.z24(3600)), c.BVMul(x(mw), e.z24(60))), x(sw))))))
	return c.ZeroExt(hw, 56), c.ZeroExt(mw, 56), c.ZeroExt(sw, 56)
}

// civilRel: the civil time as seconds after 00:00 of the anchor day on the civil axis (24-bit).
func (e *Engine) civilRel(st *State, t TimeV) *Term {
	c := e.tc
	zv := e.zv
	if zv == nil {
		panic(unsupported("zone view Z2 without an anchor day (verifZoneAt)"))
	}
	eq3 := func(y, m, d *Term) *Term { return c.And(c.Eq(t.Y, y), c.Eq(t.M, m), c.Eq(t.D, d)) }
	py, pm, pd := e.prevDay(st, zv.Y, zv.M, zv.D)
	ny, nm, nd := e.nextDay(st, zv.Y, zv.M, zv.D)
	n2y, n2m, n2d := e.nextDay(st, ny, nm, nd)
	less := c.Or(c.BVSlt(t.Y, zv.Y), c.And(c.Eq(t.Y, zv.Y), c.Or(c.BVSlt(t.M, zv.M), c.And(c.Eq(t.M, zv.M), c.BVSlt(t.D, zv.D)))))
	const far = 3 * 86400
	dayRel := c.Ite(eq3(zv.Y, zv.M, zv.D), e.z24(0),
		c.Ite(eq3(py, pm, pd), e.z24(-86400),
			c.Ite(eq3(ny, nm, nd), e.z24(86400),
				c.Ite(eq3(n2y, n2m, n2d), e.z24(2*86400),
					c.Ite(less, e.z24(-far), e.z24(far))))))
	return c.BVAdd(dayRel, e.sod24(t))
}

func (e *Engine) resolveCivilZ2(st *State, t TimeV, pos token.Pos) []civilAlt {
	c := e.tc
	zv := e.zv
	if zv == nil {
		panic(unsupported("zone view Z2 without an anchor day (verifZoneAt)"))
	}
	if t.Year0 {
		// time.Parse("150405"...) style values live in year 0, centuries before any zone's first transition
		t.Off = zv.O1
		t.Bef = c.True
		return []civilAlt{{st, t}}
	}
	o1, o2, tau := e.lo24(zv.O1), e.lo24(zv.O2), e.lo24(zv.Tau)
	eq3 := func(y, m, d *Term) *Term { return c.And(c.Eq(t.Y, y), c.Eq(t.M, m), c.Eq(t.D, d)) }
	py, pm, pd := e.prevDay(st, zv.Y, zv.M, zv.D)
	ny, nm, nd := e.nextDay(st, zv.Y, zv.M, zv.D)
	n2y, n2m, n2d := e.nextDay(st, ny, nm, nd)
	less := c.Or(c.BVSlt(t.Y, zv.Y), c.And(c.Eq(t.Y, zv.Y), c.Or(c.BVSlt(t.M, zv.M), c.And(c.Eq(t.M, zv.M), c.BVSlt(t.D, zv.D)))))
	const far = 3 * 86400
	dayRel := c.Ite(eq3(zv.Y, zv.M, zv.D), e.z24(0),
		c.Ite(eq3(py, pm, pd), e.z24(-86400),
			c.Ite(eq3(ny, nm, nd), e.z24(86400),
				c.Ite(eq3(n2y, n2m, n2d), e.z24(2*86400),
					c.Ite(less, e.z24(-far), e.z24(far))))))
	sod := e.sod24(t)
	u := c.BVAdd(dayRel, sod)
	before := c.BVSlt(u, tau)
	off1 := c.Ite(before, o1, o2)
	utc := c.BVSub(u, off1)
	utcBefore := c.BVSlt(utc, tau)
	// "if offset != 0 { if utc < start || utc >= end { re-lookup } }"
	inside := c.Ite(before, utcBefore, c.Not(utcBefore))
	off := c.Ite(c.Or(inside, c.Eq(off1, e.z24(0))), off1, c.Ite(utcBefore, o1, o2))
	inst := c.BVSub(u, off)
	bef := c.BVSlt(inst, tau)
	offI := c.Ite(bef, o1, o2)
	delta := c.BVSub(offI, off)
	// the civil fields Go reports: (day, sod) + delta
	sod2 := c.BVAdd(sod, delta)
	under := c.BVSlt(sod2, e.z24(0))
	over := c.BVSle(e.z24(86400), sod2)
	sod3 := c.Ite(under, c.BVAdd(sod2, e.z24(86400)), c.Ite(over, c.BVSub(sod2, e.z24(86400)), sod2))
	same := c.Eq(delta, e.z24(0))
	out := t
	if !same.IsTrue() {
		hw, mw, sw := e.hmsWitness(st, c.Not(same), sod3, "z2")
		ty, tm, td := e.prevDay(st, t.Y, t.M, t.D)
		uy, um, ud := e.nextDay(st, t.Y, t.M, t.D)
		out.H = c.Ite(same, t.H, hw)
		out.Mi = c.Ite(same, t.Mi, mw)
		out.S = c.Ite(same, t.S, sw)
		out.Y = c.Ite(under, ty, c.Ite(over, uy, t.Y))
		out.M = c.Ite(under, tm, c.Ite(over, um, t.M))
		out.D = c.Ite(under, td, c.Ite(over, ud, t.D))
	}
	out.Off = c.Ite(bef, zv.O1, zv.O2)
	out.Bef = bef
	out.Rel = inst
	return []civilAlt{{st, out}}
}

// transitionTime: the zone's transition instant as a local time.Time (zone view Z2).
func (e *Engine) transitionTime(st *State) TimeV {
	c := e.tc
	zv := e.zv
	v := c.BVAdd(e.lo24(zv.Tau), e.lo24(zv.O2)) // seconds after 00:00 of the anchor day on the civil axis: -100800 .. 187200
	lt := func(k int64) *Term { return c.BVSlt(v, e.z24(k)) }
	dayOff := c.Ite(lt(-86400), e.z24(-2*86400), c.Ite(lt(0), e.z24(-86400), c.Ite(lt(86400), e.z24(0), c.Ite(lt(172800), e.z24(86400), e.z24(2*86400)))))
	sod := c.BVSub(v, dayOff)
	hw, mw, sw := e.hmsWitness(st, c.True, sod, "zt")
	py, pm, pd := e.prevDay(st, zv.Y, zv.M, zv.D)
	p2y, p2m, p2d := e.prevDay(st, py, pm, pd)
	ny, nm, nd := e.nextDay(st, zv.Y, zv.M, zv.D)
	n2y, n2m, n2d := e.nextDay(st, ny, nm, nd)
	pick := func(a2, a1, a0, b1, b2 *Term) *Term {
		return c.Ite(lt(-86400), a2, c.Ite(lt(0), a1, c.Ite(lt(86400), a0, c.Ite(lt(172800), b1, b2))))
	}
	return TimeV{Y: pick(p2y, py, zv.Y, ny, n2y), M: pick(p2m, pm, zv.M, nm, n2m), D: pick(p2d, pd, zv.D, nd, n2d),
		H: hw, Mi: mw, S: sw, Ns: e.bv64(0), UTC: c.False, Off: zv.O2, Bef: c.False, Rel: e.lo24(zv.Tau)}
}

// mergeTimes: ite(g, a, b) on two time values.
func (e *Engine) iteTime(g *Term, a, b TimeV) TimeV {
	v, ok := e.mergeVal(g, a, b)
	if !ok {
		panic(unsupported("ite over time values of different kinds"))
	}
	return v.(TimeV)
}

// Times in the controller zone (LocV kind 3, TimeV.Other) support their civil fields, formatting and
// IsZero only: the zone is a second symbolic two-interval zone, and conversions between it and the
// process zone are not modelled.
var otherZoneMethods = map[string]bool{"Year": true, "Month": true, "Day": true, "Hour": true, "Minute": true, "Second": true,
	"Nanosecond": true, "Date": true, "Clock": true, "Format": true, "Location": true, "String": true, "IsZero": true, "In": true, "Weekday": true}

func guardOtherZone() {
	for name, f := range stubs {
		if !strings.HasPrefix(name, "(time.Time).") || otherZoneMethods[strings.TrimPrefix(name, "(time.Time).")] {
			continue
		}
		name, f := name, f
		stubs[name] = func(e *Engine, st *State, fr *Frame, fn *ssa.Function, args []Value, pos token.Pos) []exit {
			for _, a := range args {
				if t, ok := a.(TimeV); ok && t.Other {
					panic(unsupported(name + " of a time in the controller zone"))
				}
			}
			return f(e, st, fr, fn, args, pos)
		}
	}
}

// declareControllerZoneAt: intrinsic verifControllerZoneAt(y, m, d) - the process zone is UTC and the
// returned *time.Location is a symbolic two-interval zone anchored at the given day (the zone view of
// declareZoneAt, attached to the location instead of time.Local).
func (e *Engine) declareControllerZoneAt(st *State, y, m, d *Term) Value {
	e.declareZoneAt(st, y, m, d)
	e.opt.Zone = 0
	e.stubsUsed["controller zone: a second symbolic two-interval zone (process zone UTC); only civil fields, Format and IsZero of times in it"] = true
	return LocV{Kind: 3}
}
