package gosym

// encoding/json (DESIGN 4.5): exact only for plain strings; for composite values json.Marshal walks the
// type the way encoding/json does and calls the MarshalJSON / MarshalText methods it would call, so that
// panics inside them are found; the produced text is opaque.

import (
	"go/token"
	"go/types"

	"golang.org/x/tools/go/ssa"
)

func (e *Engine) jsonSafe(b *Term) *Term {
	c := e.tc
	// printable ASCII other than " \ < > &
	in := c.And(c.BVUle(c.BV(0x20, 8), b), c.BVUle(b, c.BV(0x7e, 8)))
	for _, ch := range []byte{'"', '\\', '<', '>', '&'} {
		in = c.And(in, c.Ne(b, c.BV(uint64(ch), 8)))
	}
	return in
}

type jsonAlt struct {
	st       *State
	panicked bool
	pmsg     string
}

// jsonWalk calls the marshal methods encoding/json would call on v (of static type t).
func (e *Engine) jsonWalk(st *State, fr *Frame, v Value, t types.Type, pos token.Pos, depth int) []jsonAlt {
	if depth > 12 {
		return []jsonAlt{{st: st}}
	}
	// nil pointers / interfaces encode as null without calling methods (pointer receivers on nil are not called)
	if p, ok := v.(PtrV); ok && p.IsNil() {
		return []jsonAlt{{st: st}}
	}
	if iv, ok := v.(IfaceV); ok {
		if iv.T == nil {
			return []jsonAlt{{st: st}}
		}
		return e.jsonWalk(st, fr, iv.V, iv.T, pos, depth+1)
	}
	for _, name := range []string{"MarshalJSON", "MarshalText"} {
		ms := e.prog.MethodSets.MethodSet(t)
		sel := ms.Lookup(nil, name)
		if sel == nil {
			continue
		}
		sig, ok := sel.Type().(*types.Signature)
		if !ok || sig.Params().Len() != 0 || sig.Results().Len() != 2 {
			continue
		}
		m := e.prog.MethodValue(sel)
		if m == nil {
			continue
		}
		if !e.isRepoFn(m) {
			// marshal methods of standard-library types (net.IP, netip.AddrPort, ...) are trusted not to panic
			return []jsonAlt{{st: st}}
		}
		var out []jsonAlt
		for _, r := range e.callFunction(st, fr, m, []Value{v}, nil, pos) {
			if r.kind == exitPanic {
				out = append(out, jsonAlt{st: r.st, panicked: true, pmsg: r.pmsg})
			} else {
				out = append(out, jsonAlt{st: r.st})
			}
		}
		return out
	}
	if e.isTimeType(t) {
		return []jsonAlt{{st: st}}
	}
	alts := []jsonAlt{{st: st}}
	each := func(vals []Value, ts func(i int) types.Type) []jsonAlt {
		cur := alts
		for i, x := range vals {
			var next []jsonAlt
			for _, a := range cur {
				if a.panicked {
					next = append(next, a)
					continue
				}
				next = append(next, e.jsonWalk(a.st, fr, x, ts(i), pos, depth+1)...)
			}
			cur = next
		}
		return cur
	}
	switch u := t.Underlying().(type) {
	case *types.Struct:
		sv, ok := v.(StructV)
		if !ok {
			return alts
		}
		var vals []Value
		var tt []types.Type
		for i := 0; i < u.NumFields(); i++ {
			if u.Field(i).Exported() {
				vals = append(vals, sv.F[i])
				tt = append(tt, u.Field(i).Type())
			}
		}
		return each(vals, func(i int) types.Type { return tt[i] })
	case *types.Pointer:
		p, ok := v.(PtrV)
		if !ok || p.NilIf != nil {
			return alts
		}
		return e.jsonWalk(st, fr, e.load(st, p), u.Elem(), pos, depth+1)
	case *types.Slice:
		sl, ok := v.(SliceV)
		if !ok || sl.Nil {
			return alts
		}
		if b, ok := u.Elem().Underlying().(*types.Basic); ok && b.Kind() == types.Uint8 {
			return alts
		}
		n, ok := e.resolveLen(st, sl.Len)
		if !ok {
			return alts
		}
		arr := e.getPath(st, e.obj(st, sl.Obj), sl.Path).(ArrayV)
		return each(append([]Value{}, arr.E[sl.Off:sl.Off+n]...), func(int) types.Type { return u.Elem() })
	case *types.Array:
		av, ok := v.(ArrayV)
		if !ok {
			return alts
		}
		return each(av.E, func(int) types.Type { return u.Elem() })
	case *types.Map:
		m, ok := v.(MapV)
		if !ok || m.Obj == 0 {
			return alts
		}
		mo := e.mapObj(st, m)
		var vals []Value
		for _, en := range mo.E {
			vals = append(vals, en.V)
		}
		return each(vals, func(int) types.Type { return u.Elem() })
	}
	return alts
}

func init() {
	stubs["encoding/json.Marshal"] = func(e *Engine, st *State, fr *Frame, fn *ssa.Function, args []Value, pos token.Pos) []exit {
		iv := args[0].(IfaceV)
		c := e.tc
		if iv.T != nil {
			if s, ok := iv.V.(StrV); ok && !s.Opaque {
				if b, isStr := iv.T.Underlying().(*types.Basic); isStr && b.Info()&types.IsString != 0 {
					safe := c.True
					for _, ch := range s.B {
						safe = c.And(safe, e.jsonSafe(ch))
					}
					if !safe.IsTrue() && e.feasible(st, c.Not(safe), "json string needs escaping") {
						// escaping is outside the model: the text becomes opaque
						return retExit(st, TupleV{e.opaqueBytes(st), IfaceV{}})
					}
					out := make([]*Term, 0, len(s.B)+2)
					out = append(out, c.BV('"', 8))
					out = append(out, s.B...)
					out = append(out, c.BV('"', 8))
					return retExit(st, TupleV{e.newByteSlice(st, out), IfaceV{}})
				}
			}
		}
		var out []exit
		if iv.T == nil {
			return retExit(st, TupleV{e.newByteSlice(st, e.constBytes("null")), IfaceV{}})
		}
		for _, a := range e.jsonBuild(st, fr, iv.V, iv.T, pos, 0) {
			switch {
			case a.panicked:
				out = append(out, exit{st: a.st, kind: exitPanic, pmsg: a.pmsg})
			case a.err != nil:
				out = append(out, exit{st: a.st, kind: exitReturn, val: TupleV{SliceV{Nil: true, Len: c.BV(0, 64)}, a.err}})
			default:
				out = append(out, exit{st: a.st, kind: exitReturn, val: TupleV{e.jsonDocBytes(a.st, a.d), IfaceV{}}})
			}
		}
		return out
	}
	stubs["encoding/json.Unmarshal"] = func(e *Engine, st *State, fr *Frame, fn *ssa.Function, args []Value, pos token.Pos) []exit {
		return e.jsonUnmarshal(st, fr, args[0].(SliceV), args[1].(IfaceV), pos)
	}
}

// opaqueBytes: a []byte whose content is not modelled (a short symbolic buffer nobody should inspect).
func (e *Engine) opaqueBytes(st *State) Value {
	b := make([]*Term, 2)
	for i := range b {
		b[i] = e.tc.Fresh("jsontext", SBV(8))
	}
	return e.newByteSlice(st, b)
}

func (e *Engine) jsonUnmarshal(st *State, fr *Frame, data SliceV, target IfaceV, pos token.Pos) []exit {
	c := e.tc
	errV := e.errValue("json.SyntaxError", StrV{Opaque: true, Note: "json error"})
	p, ok := target.V.(PtrV)
	if !ok || target.T == nil || p.IsNil() {
		return retExit(st, errV)
	}
	et := target.T.Underlying().(*types.Pointer).Elem()
	if d := e.jsonDocOf(st, data); d != nil {
		var out []exit
		for _, a := range e.jsonDecode(st, fr, d, p, et, pos, 0) {
			switch {
			case a.panicked:
				out = append(out, exit{st: a.st, kind: exitPanic, pmsg: a.pmsg})
			case a.err:
				out = append(out, exit{st: a.st, kind: exitReturn, val: errV})
			default:
				out = append(out, exit{st: a.st, kind: exitReturn, val: IfaceV{}})
			}
		}
		return out
	}
	if b, isStr := et.Underlying().(*types.Basic); isStr && b.Info()&types.IsString != 0 {
		bs := e.bytesOf(st, data)
		n := len(bs)
		// modelled form: "text" with text made of safe characters; anything else is outside the model
		if n < 2 {
			if e.opt.JSONStrict {
				panic(unsupported("json.Unmarshal into string: input shorter than 2 bytes"))
			}
			return retExit(st, errV)
		}
		form := c.And(c.Eq(bs[0], c.BV('"', 8)), c.Eq(bs[n-1], c.BV('"', 8)))
		for _, ch := range bs[1 : n-1] {
			form = c.And(form, e.jsonSafe(ch))
		}
		if !form.IsTrue() && e.feasible(st, c.Not(form), "json string form") {
			panic(unsupported("json.Unmarshal into string: input is not provably a plain quoted string of safe characters (escapes, whitespace, null and non-ASCII are outside the model); constrain the harness input"))
		}
		e.store(st, p, StrV{B: bs[1 : n-1]})
		return retExit(st, IfaceV{})
	}
	// a JSON string into a type with UnmarshalText (netip.AddrPort, ...): encoding/json hands it the text
	if sel := e.prog.MethodSets.MethodSet(types.NewPointer(et)).Lookup(nil, "UnmarshalText"); sel != nil && e.prog.MethodSets.MethodSet(types.NewPointer(et)).Lookup(nil, "UnmarshalJSON") == nil {
		if m := e.prog.MethodValue(sel); m != nil && m.Pkg != nil && (e.isRepoFn(m) || allowedStdPkg(m.Pkg.Pkg.Path())) && !data.Nil {
			if n, ok := e.sliceLenConst(data); ok && n >= 2 {
				bs := e.bytesOf(st, data)
				if inner, ok := e.jsonTextString(st, bs); ok {
					var out []exit
					for _, r := range e.callFunction(st, fr, m, []Value{p, e.newByteSlice(st, inner.B)}, nil, pos) {
						if r.kind == exitPanic {
							out = append(out, r)
							continue
						}
						if ev, ok := r.val.(IfaceV); ok && ev.T != nil {
							out = append(out, exit{st: r.st, kind: exitReturn, val: errV})
							continue
						}
						out = append(out, exit{st: r.st, kind: exitReturn, val: IfaceV{}})
					}
					return out
				}
			}
		}
	}
	// composite targets: havoc stub (DESIGN 4.5) - either an error, or an arbitrary value of the static type
	var out []exit
	s2 := st.fork()
	e.stats.States++
	out = append(out, exit{st: s2, kind: exitReturn, val: errV})
	e.store(st, p, e.arbitrary(st, et, "json", 0))
	out = append(out, exit{st: st, kind: exitReturn, val: IfaceV{}})
	return out
}

// arbitrary: a fresh symbolic value of type t (maps nil, slices nil, pointers nil at depth > 2; strings of length 3).
func (e *Engine) arbitrary(st *State, t types.Type, tag string, depth int) Value {
	c := e.tc
	if e.isTimeType(t) {
		return e.zero(t)
	}
	switch u := t.Underlying().(type) {
	case *types.Basic:
		switch {
		case u.Info()&types.IsBoolean != 0:
			return c.Fresh(tag, SBool)
		case u.Info()&types.IsInteger != 0:
			w, _ := intWidth(u)
			return c.Fresh(tag, SBV(w))
		case u.Info()&types.IsString != 0:
			b := make([]*Term, 3)
			for i := range b {
				b[i] = c.Fresh(tag, SBV(8))
			}
			return StrV{B: b}
		}
	case *types.Struct:
		f := make([]Value, u.NumFields())
		for i := range f {
			f[i] = e.arbitrary(st, u.Field(i).Type(), tag, depth+1)
		}
		return StructV{F: f}
	case *types.Array:
		el := make([]Value, int(u.Len()))
		for i := range el {
			el[i] = e.arbitrary(st, u.Elem(), tag, depth+1)
		}
		return ArrayV{E: el}
	case *types.Map:
		// a map with the small keys the callers look up, each present or not
		id := e.alloc(st, &MapObj{KeyT: u.Key(), ValT: u.Elem()})
		mo := &MapObj{KeyT: u.Key(), ValT: u.Elem()}
		if kb, ok := u.Key().Underlying().(*types.Basic); ok && kb.Info()&types.IsInteger != 0 {
			w, _ := intWidth(kb)
			for k := 0; k <= 4; k++ {
				mo.E = append(mo.E, MapEntry{K: c.BV(uint64(k), w), V: e.arbitrary(st, u.Elem(), tag, depth+1), Present: c.Fresh(tag+".has", SBool)})
			}
		}
		st.heap[id] = mo
		return MapV{Obj: id}
	case *types.Slice:
		if depth > 2 {
			return e.zero(t)
		}
		el := []Value{e.arbitrary(st, u.Elem(), tag, depth+1), e.arbitrary(st, u.Elem(), tag, depth+1)}
		return e.newSlice(st, el, 2, e.zero(u.Elem()))
	}
	return e.zero(t)
}
