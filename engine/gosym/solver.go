package gosym

// Solver back ends: long-lived processes spoken to in SMT-LIB2 over pipes.

import (
	"bufio"
	"fmt"
	"io"
	"os"
	"os/exec"
	"path/filepath"
	"strconv"
	"strings"
	"sync"
	"time"
)

type Verdict int

const (
	Unsat Verdict = iota
	Sat
	Unknown
)

func (v Verdict) String() string {
	return [...]string{"unsat", "sat", "unknown"}[v]
}

type proc struct {
	name  string
	argv  []string
	cmd   *exec.Cmd
	in    io.WriteCloser
	out   *bufio.Reader
	decl  map[*Term]bool
	fdecl map[string]bool
	dead  bool
	stack []*Term // incremental mode: assertions currently pushed (one push level each)
	mu    sync.Mutex
}

type QueryLog struct {
	Harness string  `json:"harness"`
	What    string  `json:"what"`
	Verdict string  `json:"verdict"`
	Solver  string  `json:"solver"`
	Ms      float64 `json:"ms"`
	Size    int     `json:"size"`
}

// Solver is a portfolio: the first back end answers; on unknown / error the
// next ones are tried.
type Solver struct {
	ctx       *TermCtx
	procs     []*proc
	TimeoutMs int
	Queries   int
	TimeTotal time.Duration
	Log       []QueryLog
	Harness   string
	Errors    []string
	Incremental bool
	DiffEvery int // every n-th query is answered by a second solver and compared
	RaceAfterMs int // start the other back ends when the default one has not answered after this long (default 4000)
	Diffs     int
	DiffBad   int
	Dump      io.Writer // optional transcript
}

var solverCmds = [][]string{
	{"z3", "-in", "-smt2"},
	{"z3-new", "-in", "-smt2"},
	{"cvc5", "--incremental", "--lang=smt2", "--produce-models"},
	// integer encoding that keeps the mod-2^k semantics: decides multiply/divide-by-constant kernels
	// (decimal digits, BCD, seconds-of-day) in a fraction of the time bit-blasting needs
	{"cvc5", "--incremental", "--lang=smt2", "--produce-models", "--solve-bv-as-int=sum"},
}

func NewSolver(ctx *TermCtx, timeoutMs int) *Solver {
	s := &Solver{ctx: ctx, TimeoutMs: timeoutMs, DiffEvery: 0}
	for _, argv := range solverCmds {
		name := argv[0]
		if len(argv) > 4 {
			name = "cvc5-int"
		}
		s.procs = append(s.procs, &proc{name: name, argv: argv})
	}
	return s
}

func (s *Solver) Close() {
	for _, p := range s.procs {
		p.kill()
	}
}

func (p *proc) kill() {
	p.mu.Lock()
	defer p.mu.Unlock()
	if p.cmd != nil {
		p.in.Close()
		p.cmd.Process.Kill()
		p.cmd.Wait()
		p.cmd = nil
	}
}

// abort kills the solver process from another goroutine (a blocked ask returns with a read error).
func (p *proc) abort() {
	p.mu.Lock()
	defer p.mu.Unlock()
	if p.cmd != nil && p.cmd.Process != nil {
		p.cmd.Process.Kill()
		p.dead = true
	}
}

func (p *proc) start(timeoutMs int) error {
	if p.cmd != nil && p.dead {
		p.kill() // aborted by a race: start afresh
	}
	if p.cmd != nil {
		return nil
	}
	argv := append([]string{}, p.argv...)
	switch p.name {
	case "z3", "z3-new":
		argv = append(argv, fmt.Sprintf("-t:%d", timeoutMs))
	case "cvc5", "cvc5-int":
		argv = append(argv, fmt.Sprintf("--tlimit-per=%d", timeoutMs))
	}
	cmd := exec.Command(argv[0], argv[1:]...)
	in, err := cmd.StdinPipe()
	if err != nil {
		return err
	}
	out, err := cmd.StdoutPipe()
	if err != nil {
		return err
	}
	cmd.Stderr = cmd.Stdout
	if err := cmd.Start(); err != nil {
		return err
	}
	p.cmd, p.in, p.out = cmd, in, bufio.NewReaderSize(out, 1<<20)
	p.decl = map[*Term]bool{}
	p.fdecl = map[string]bool{}
	p.dead = false
	p.stack = nil
	io.WriteString(p.in, "(set-option :produce-models true)\n(set-option :global-declarations true)\n(set-logic ALL)\n")
	return nil
}

// readSexp reads one balanced s-expression or atom line.
func (p *proc) readReply() (string, error) {
	var b strings.Builder
	depth := 0
	started := false
	for {
		line, err := p.out.ReadString('\n')
		if err != nil && line == "" {
			return b.String(), err
		}
		inStr := false
		inBar := false
		for _, ch := range line {
			switch {
			case inStr:
				if ch == '"' {
					inStr = false
				}
			case inBar:
				if ch == '|' {
					inBar = false
				}
			case ch == '"':
				inStr = true
			case ch == '|':
				inBar = true
			case ch == '(':
				depth++
				started = true
			case ch == ')':
				depth--
			}
		}
		b.WriteString(line)
		if strings.TrimSpace(line) != "" {
			started = true
		}
		if started && depth <= 0 {
			return strings.TrimSpace(b.String()), nil
		}
	}
}

func (s *Solver) declsFor(p *proc, ts []*Term) string {
	var b strings.Builder
	seen := map[*Term]bool{}
	var walk func(x *Term)
	walk = func(x *Term) {
		if seen[x] {
			return
		}
		seen[x] = true
		for _, a := range x.Args {
			walk(a)
		}
		if x.Op == OpVar && !p.decl[x] {
			p.decl[x] = true
			fmt.Fprintf(&b, "(declare-const %s %s)\n", smtName(x.Name), x.Sort)
		}
		if x.Op == OpApp && !p.fdecl[x.Name] {
			p.fdecl[x.Name] = true
			d := s.ctx.funs[x.Name]
			var as []string
			for _, a := range d.args {
				as = append(as, a.String())
			}
			fmt.Fprintf(&b, "(declare-fun %s (%s) %s)\n", smtName(x.Name), strings.Join(as, " "), d.ret)
		}
	}
	for _, t := range ts {
		walk(t)
	}
	return b.String()
}

// Model maps variable names to values (BV/Bool as uint64, Int as int64 bits).
type Model map[string]uint64

func (s *Solver) ask(p *proc, asserts []*Term, want []*Term) (Verdict, Model, []uint64, error) {
	if err := p.start(s.TimeoutMs); err != nil {
		return Unknown, nil, nil, err
	}
	var q strings.Builder
	all := append(append([]*Term{}, asserts...), want...)
	q.WriteString(s.declsFor(p, all))
	size := 0
	if s.Incremental {
		k := 0
		for k < len(p.stack) && k < len(asserts) && p.stack[k] == asserts[k] {
			k++
		}
		if n := len(p.stack) - k; n > 0 {
			fmt.Fprintf(&q, "(pop %d)\n", n)
			p.stack = p.stack[:k]
		}
		for _, a := range asserts[k:] {
			q.WriteString("(push 1)\n(assert ")
			q.WriteString(a.SMT())
			q.WriteString(")\n")
			p.stack = append(p.stack, a)
		}
	} else {
		q.WriteString("(push 1)\n")
		for _, a := range asserts {
			t := a.SMT()
			size += len(t)
			q.WriteString("(assert ")
			q.WriteString(t)
			q.WriteString(")\n")
		}
	}
	q.WriteString("(check-sat)\n")
	if s.Dump != nil {
		io.WriteString(s.Dump, q.String())
	}
	if _, err := io.WriteString(p.in, q.String()); err != nil {
		p.kill()
		return Unknown, nil, nil, err
	}
	type res struct {
		s   string
		err error
	}
	ch := make(chan res, 1)
	go func() {
		r, err := p.readReply()
		ch <- res{r, err}
	}()
	var reply string
	select {
	case r := <-ch:
		if r.err != nil {
			p.kill()
			return Unknown, nil, nil, fmt.Errorf("%s: read: %v (%s)", p.name, r.err, r.s)
		}
		reply = r.s
	case <-time.After(time.Duration(s.TimeoutMs)*time.Millisecond*2 + 5*time.Second):
		p.kill()
		return Unknown, nil, nil, fmt.Errorf("%s: hard timeout", p.name)
	}
	var verdict Verdict
	switch {
	case reply == "unsat":
		verdict = Unsat
	case reply == "sat":
		verdict = Sat
	case reply == "unknown" || strings.HasPrefix(reply, "timeout"):
		verdict = Unknown
	default:
		// an (error ...) line or anything unexpected: inconclusive, restart the process
		p.kill()
		return Unknown, nil, nil, fmt.Errorf("%s: unexpected reply %q", p.name, trunc(reply, 300))
	}
	var model Model
	var vals []uint64
	if verdict == Sat {
		// all declared variables occurring in the asserts, plus wanted terms
		vs := map[*Term]bool{}
		CollectVars(all, vs)
		var names []*Term
		for v := range vs {
			names = append(names, v)
		}
		var gv strings.Builder
		gv.WriteString("(get-value (")
		for _, v := range names {
			gv.WriteString(smtName(v.Name))
			gv.WriteByte(' ')
		}
		for _, w := range want {
			gv.WriteString(w.SMT())
			gv.WriteByte(' ')
		}
		gv.WriteString("))\n")
		if len(names)+len(want) > 0 {
			io.WriteString(p.in, gv.String())
			r, err := p.readReply()
			if err != nil || strings.Contains(r, "(error") {
				p.kill()
				return Unknown, nil, nil, fmt.Errorf("%s: get-value: %v %s", p.name, err, trunc(r, 300))
			}
			parsed, perr := parseValues(r)
			if perr != nil || len(parsed) != len(names)+len(want) {
				p.kill()
				return Unknown, nil, nil, fmt.Errorf("%s: cannot parse model (%v): %s", p.name, perr, trunc(r, 300))
			}
			model = Model{}
			for i, v := range names {
				model[v.Name] = parsed[i]
			}
			vals = parsed[len(names):]
		} else {
			model = Model{}
		}
	}
	if !s.Incremental {
		io.WriteString(p.in, "(pop 1)\n")
	}
	_ = size
	return verdict, model, vals, nil
}

func trunc(s string, n int) string {
	if len(s) > n {
		return s[:n] + "..."
	}
	return s
}

// parseValues parses the reply of get-value: ((name value) (expr value) ...)
// and returns the values in order.
func parseValues(r string) ([]uint64, error) {
	toks := tokenize(r)
	pos := 0
	var parse func() (interface{}, error)
	parse = func() (interface{}, error) {
		if pos >= len(toks) {
			return nil, fmt.Errorf("eof")
		}
		t := toks[pos]
		pos++
		if t == "(" {
			var l []interface{}
			for pos < len(toks) && toks[pos] != ")" {
				x, err := parse()
				if err != nil {
					return nil, err
				}
				l = append(l, x)
			}
			if pos >= len(toks) {
				return nil, fmt.Errorf("unbalanced")
			}
			pos++
			return l, nil
		}
		return t, nil
	}
	top, err := parse()
	if err != nil {
		return nil, err
	}
	lst, ok := top.([]interface{})
	if !ok {
		return nil, fmt.Errorf("not a list")
	}
	var out []uint64
	for _, e := range lst {
		pair, ok := e.([]interface{})
		if !ok || len(pair) != 2 {
			return nil, fmt.Errorf("bad pair")
		}
		v, err := valueOf(pair[1])
		if err != nil {
			return nil, err
		}
		out = append(out, v)
	}
	return out, nil
}

func valueOf(x interface{}) (uint64, error) {
	switch v := x.(type) {
	case string:
		switch {
		case v == "true":
			return 1, nil
		case v == "false":
			return 0, nil
		case strings.HasPrefix(v, "#x"):
			n, err := strconv.ParseUint(v[2:], 16, 64)
			return n, err
		case strings.HasPrefix(v, "#b"):
			n, err := strconv.ParseUint(v[2:], 2, 64)
			return n, err
		default:
			n, err := strconv.ParseInt(v, 10, 64)
			return uint64(n), err
		}
	case []interface{}:
		// (- n)   or (_ bvN w)
		if len(v) == 2 {
			if s, ok := v[0].(string); ok && s == "-" {
				n, err := valueOf(v[1])
				return uint64(-int64(n)), err
			}
		}
		if len(v) == 3 {
			if s, ok := v[0].(string); ok && s == "_" {
				if bv, ok := v[1].(string); ok && strings.HasPrefix(bv, "bv") {
					n, err := strconv.ParseUint(bv[2:], 10, 64)
					return n, err
				}
			}
		}
	}
	return 0, fmt.Errorf("unparsed value %v", x)
}

func tokenize(s string) []string {
	var toks []string
	i := 0
	for i < len(s) {
		ch := s[i]
		switch {
		case ch == '(' || ch == ')':
			toks = append(toks, string(ch))
			i++
		case ch == ' ' || ch == '\n' || ch == '\t' || ch == '\r':
			i++
		case ch == '|':
			j := i + 1
			for j < len(s) && s[j] != '|' {
				j++
			}
			toks = append(toks, s[i:j+1])
			i = j + 1
		case ch == '"':
			j := i + 1
			for j < len(s) && s[j] != '"' {
				j++
			}
			toks = append(toks, s[i:j+1])
			i = j + 1
		default:
			j := i
			for j < len(s) && !strings.ContainsRune("() \n\t\r", rune(s[j])) {
				j++
			}
			toks = append(toks, s[i:j])
			i = j
		}
	}
	return toks
}

// Check decides the conjunction of asserts.  want are extra terms whose
// values are returned (in order) when the answer is sat.
func (s *Solver) Check(what string, asserts []*Term, want ...*Term) (Verdict, Model, []uint64) {
	// trivial cases without the solver
	for _, a := range asserts {
		if a.IsFalse() {
			return Unsat, nil, nil
		}
	}
	s.Queries++
	t0 := time.Now()
	verdict := Unknown
	var model Model
	var vals []uint64
	used := ""
	// portfolio with a race: the default back end answers alone if it does so quickly; otherwise the other
	// back ends are started on the same query and the first definite verdict wins (the losers are killed and
	// restart with a fresh incremental stack at their next use)
	type askRes struct {
		p    *proc
		v    Verdict
		m    Model
		vals []uint64
		err  error
	}
	ch := make(chan askRes, len(s.procs))
	run := func(p *proc) {
		go func() {
			v, m, vs, err := s.ask(p, asserts, want)
			ch <- askRes{p, v, m, vs, err}
		}()
	}
	pending := 0
	var raceErrs []string
	started := map[*proc]bool{}
	if len(s.procs) > 0 {
		run(s.procs[0])
		started[s.procs[0]] = true
		pending++
	}
	raceAfter := time.Duration(s.RaceAfterMs) * time.Millisecond
	if s.RaceAfterMs == 0 {
		raceAfter = 3 * time.Second
	}
	timer := time.NewTimer(raceAfter)
	launchRest := func() {
		for _, p := range s.procs {
			if !started[p] {
				started[p] = true
				run(p)
				pending++
			}
		}
	}
	for pending > 0 && verdict == Unknown {
		select {
		case r := <-ch:
			pending--
			if r.err != nil {
				raceErrs = append(raceErrs, r.err.Error())
				launchRest()
				continue
			}
			used = r.p.name
			if r.v != Unknown {
				verdict, model, vals = r.v, r.m, r.vals
			} else {
				launchRest()
			}
		case <-timer.C:
			launchRest()
		}
	}
	timer.Stop()
	if verdict == Unknown {
		// nobody gave a definite answer: back-end failures make the query inconclusive
		s.Errors = append(s.Errors, raceErrs...)
	}
	if pending > 0 {
		// losers still running: kill them and drain
		for _, p := range s.procs {
			if started[p] && (p.name != used || verdict == Unknown) {
				p.abort()
			}
		}
		for pending > 0 {
			<-ch
			pending--
		}
	}
	d := time.Since(t0)
	s.TimeTotal += d
	if dir := os.Getenv("VERIF_DUMPUNKNOWN"); dir != "" && verdict == Unknown {
		s.dumpStandalone(filepath.Join(dir, fmt.Sprintf("%s-%d.smt2", s.Harness, s.Queries)), what, asserts)
	}
	if len(s.Log) < 4000 {
		s.Log = append(s.Log, QueryLog{Harness: s.Harness, What: what, Verdict: verdict.String(), Solver: used, Ms: float64(d.Microseconds()) / 1000, Size: len(asserts)})
	}
	if s.DiffEvery > 0 && verdict != Unknown && s.Queries%s.DiffEvery == 0 {
		// second opinion from another back end
		for _, p := range s.procs {
			if p.name == used {
				continue
			}
			v2, _, _, err := s.ask(p, asserts, nil)
			if err != nil || v2 == Unknown {
				continue
			}
			s.Diffs++
			if v2 != verdict {
				s.DiffBad++
				s.Errors = append(s.Errors, fmt.Sprintf("solver disagreement on %q: %s=%v %s=%v", what, used, verdict, p.name, v2))
			}
			break
		}
	}
	return verdict, model, vals
}

// dumpStandalone writes a self-contained SMT-LIB2 file for one query (debugging aid).
func (s *Solver) dumpStandalone(path, what string, asserts []*Term) {
	tmp := &proc{decl: map[*Term]bool{}, fdecl: map[string]bool{}}
	var b strings.Builder
	b.WriteString("; " + what + "\n(set-logic ALL)\n")
	b.WriteString(s.declsFor(tmp, asserts))
	for _, a := range asserts {
		b.WriteString("(assert " + a.SMT() + ")\n")
	}
	b.WriteString("(check-sat)\n")
	os.WriteFile(path, []byte(b.String()), 0644)
}
