package gosym

import (
	"fmt"
	"go/token"
	"go/types"
	"unicode/utf8"

	"golang.org/x/tools/go/ssa"
)

func (e *Engine) binop(st *State, fr *Frame, op token.Token, a, b Value, ta, tb types.Type, pos token.Pos, exits *[]exit) (Value, bool) {
	c := e.tc
	switch op {
	case token.EQL:
		return e.eqVal(a, b), true
	case token.NEQ:
		return c.Not(e.eqVal(a, b)), true
	}
	// strings
	if sa, ok := a.(StrV); ok {
		sb := b.(StrV)
		switch op {
		case token.ADD:
			if sa.Opaque || sb.Opaque {
				return StrV{Opaque: true, Note: "concat"}, true
			}
			out := make([]*Term, 0, len(sa.B)+len(sb.B))
			out = append(append(out, sa.B...), sb.B...)
			return StrV{B: out}, true
		case token.LSS, token.LEQ, token.GTR, token.GEQ:
			return e.strCompare(op, sa, sb), true
		}
		panic(unsupported("string operator " + op.String()))
	}
	if fa, ok := a.(FloatV); ok {
		fb := b.(FloatV)
		switch op {
		case token.ADD:
			return FloatV{fa.F + fb.F}, true
		case token.SUB:
			return FloatV{fa.F - fb.F}, true
		case token.MUL:
			return FloatV{fa.F * fb.F}, true
		case token.QUO:
			return FloatV{fa.F / fb.F}, true
		case token.LSS:
			return c.Bool(fa.F < fb.F), true
		case token.GTR:
			return c.Bool(fa.F > fb.F), true
		case token.LEQ:
			return c.Bool(fa.F <= fb.F), true
		case token.GEQ:
			return c.Bool(fa.F >= fb.F), true
		}
		panic(unsupported("float operator"))
	}
	x, ok1 := a.(*Term)
	y, ok2 := b.(*Term)
	if !ok1 || !ok2 {
		panic(unsupported(fmt.Sprintf("binop %s on %T, %T", op, a, b)))
	}
	if x.Sort.K == KBool {
		switch op {
		case token.AND, token.LAND:
			return c.And(x, y), true
		case token.OR, token.LOR:
			return c.Or(x, y), true
		case token.XOR:
			return c.Not(c.Eq(x, y)), true
		}
		panic(unsupported("bool operator " + op.String()))
	}
	signed := isSigned(ta)
	switch op {
	case token.ADD:
		return c.BVAdd(x, y), true
	case token.SUB:
		return c.BVSub(x, y), true
	case token.MUL:
		return c.BVMul(x, y), true
	case token.QUO, token.REM:
		if !e.mustHoldF(st, fr, exits, c.Ne(y, c.BV(0, y.Sort.W)), "integer divide by zero", pos) {
			e.finish(st, fr, exitPanic, nil, "integer divide by zero", exits)
			return nil, false
		}
		if op == token.QUO {
			if signed {
				return c.BVSDiv(x, y), true
			}
			return c.BVUDiv(x, y), true
		}
		if signed {
			return c.BVSRem(x, y), true
		}
		return c.BVURem(x, y), true
	case token.AND:
		return c.BVAnd(x, y), true
	case token.OR:
		return c.BVOr(x, y), true
	case token.XOR:
		return c.BVXor(x, y), true
	case token.AND_NOT:
		return c.BVAnd(x, c.BVNot(y)), true
	case token.SHL, token.SHR:
		w := x.Sort.W
		if isSigned(tb) {
			if !e.mustHoldF(st, fr, exits, c.BVSle(c.BV(0, y.Sort.W), y), "negative shift amount", pos) {
				e.finish(st, fr, exitPanic, nil, "negative shift amount", exits)
				return nil, false
			}
		}
		// bring the shift count to the width of x, saturating
		var cnt *Term
		if y.Sort.W > w {
			big := c.BVUle(c.BV(uint64(w), y.Sort.W), y)
			cnt = c.Ite(big, c.BV(uint64(w), w), c.Extract(y, w-1, 0))
		} else {
			cnt = c.ZeroExt(y, w-y.Sort.W)
		}
		switch {
		case op == token.SHL:
			return c.BVShl(x, cnt), true
		case signed:
			return c.BVAshr(x, cnt), true
		default:
			return c.BVLshr(x, cnt), true
		}
	case token.LSS:
		if signed {
			return c.BVSlt(x, y), true
		}
		return c.BVUlt(x, y), true
	case token.LEQ:
		if signed {
			return c.BVSle(x, y), true
		}
		return c.BVUle(x, y), true
	case token.GTR:
		if signed {
			return c.BVSlt(y, x), true
		}
		return c.BVUlt(y, x), true
	case token.GEQ:
		if signed {
			return c.BVSle(y, x), true
		}
		return c.BVUle(y, x), true
	}
	panic(unsupported("operator " + op.String()))
}

func (e *Engine) strCompare(op token.Token, a, b StrV) *Term {
	c := e.tc
	if a.Opaque || b.Opaque {
		panic(unsupported("comparison of opaque strings"))
	}
	// lexicographic: lt(i) = a[i]<b[i] or (a[i]==b[i] and lt(i+1)); at the end: len(a) < len(b)
	n := len(a.B)
	if len(b.B) < n {
		n = len(b.B)
	}
	lt := c.Bool(len(a.B) < len(b.B))
	eq := c.Bool(len(a.B) == len(b.B))
	for i := n - 1; i >= 0; i-- {
		lt = c.Or(c.BVUlt(a.B[i], b.B[i]), c.And(c.Eq(a.B[i], b.B[i]), lt))
		eq = c.And(c.Eq(a.B[i], b.B[i]), eq)
	}
	switch op {
	case token.LSS:
		return lt
	case token.LEQ:
		return c.Or(lt, eq)
	case token.GTR:
		return c.Not(c.Or(lt, eq))
	default:
		return c.Not(lt)
	}
}

// eqVal: Go's == on two values, as a Bool term.
func (e *Engine) eqVal(a, b Value) *Term {
	c := e.tc
	switch x := a.(type) {
	case *Term:
		y, ok := b.(*Term)
		if !ok {
			panic(unsupported(fmt.Sprintf("== of term and %T", b)))
		}
		return c.Eq(x, y)
	case StrV:
		y := b.(StrV)
		if x.Opaque || y.Opaque {
			// the only thing known about an opaque string is a lower bound on its length
			if x.Opaque && !y.Opaque && len(y.B) < x.MinLen || y.Opaque && !x.Opaque && len(x.B) < y.MinLen {
				return c.False
			}
			panic(unsupported("== on opaque string " + x.Note + y.Note))
		}
		if len(x.B) != len(y.B) {
			return c.False
		}
		r := c.True
		for i := range x.B {
			r = c.And(r, c.Eq(x.B[i], y.B[i]))
		}
		return r
	case PtrV:
		switch y := b.(type) {
		case PtrV:
			nx, ny := e.ptrNilTerm(x), e.ptrNilTerm(y)
			if x.Obj == y.Obj && pathEq(x.Path, y.Path) {
				return c.Eq(nx, ny)
			}
			return c.And(nx, ny)
		case LocV:
			return c.Bool(x.IsNil() && y.Kind == 0)
		case RegexpV:
			return c.False
		}
	case LocV:
		switch y := b.(type) {
		case LocV:
			return c.Bool(x.Kind == y.Kind)
		case PtrV:
			return c.Bool(x.Kind == 0 && y.IsNil())
		}
	case RegexpV:
		if p, ok := b.(PtrV); ok && p.IsNil() {
			return c.False
		}
	case SliceV:
		y, ok := b.(SliceV)
		if ok && (x.Nil || y.Nil) {
			return c.Bool(x.Nil && y.Nil)
		}
	case MapV:
		y, ok := b.(MapV)
		if ok && (x.Obj == 0 || y.Obj == 0) {
			return c.Bool(x.Obj == y.Obj)
		}
		if ok {
			return c.Bool(x.Obj == y.Obj)
		}
	case ChanV:
		if y, ok := b.(ChanV); ok {
			return c.Bool(x.Obj == y.Obj)
		}
	case FuncV:
		y, ok := b.(FuncV)
		if ok && (x.IsNil() || y.IsNil()) {
			return c.Bool(x.IsNil() && y.IsNil())
		}
	case IfaceV:
		y, ok := b.(IfaceV)
		if !ok {
			// comparison of interface with concrete nil pointer etc.
			break
		}
		if x.T == nil || y.T == nil {
			return c.Bool(x.T == nil && y.T == nil)
		}
		if !types.Identical(x.T, y.T) {
			return c.False
		}
		return e.eqVal(x.V, y.V)
	case StructV:
		y := b.(StructV)
		r := c.True
		for i := range x.F {
			r = c.And(r, e.eqVal(x.F[i], y.F[i]))
		}
		return r
	case ArrayV:
		y := b.(ArrayV)
		r := c.True
		for i := range x.E {
			r = c.And(r, e.eqVal(x.E[i], y.E[i]))
		}
		return r
	case ErrV:
		if y, ok := b.(ErrV); ok {
			return c.Bool(x.ID == y.ID)
		}
		return c.False
	case RType:
		if y, ok := b.(RType); ok {
			return c.Bool(types.Identical(x.T, y.T))
		}
		return c.False
	case TimeV:
		y := b.(TimeV)
		if (x.Inst == nil) != (y.Inst == nil) {
			panic(unsupported("== on an abstract instant and a civil time"))
		}
		if x.Inst != nil {
			return c.And(c.Eq(x.Inst, y.Inst), c.Eq(x.UTC, y.UTC))
		}
		// struct equality: same wall/ext encoding and the same *Location (UTC flag: nil / Local)
		return c.And(c.Eq(x.UTC, y.UTC), c.Eq(x.Y, y.Y), c.Eq(x.M, y.M), c.Eq(x.D, y.D), c.Eq(x.H, y.H), c.Eq(x.Mi, y.Mi), c.Eq(x.S, y.S), c.Eq(x.Ns, y.Ns))
	case FloatV:
		return c.Bool(x.F == b.(FloatV).F)
	case nil:
		if b == nil {
			return c.True
		}
	}
	panic(unsupported(fmt.Sprintf("== on %T and %T", a, b)))
}

func (e *Engine) unop(st *State, fr *Frame, x *ssa.UnOp, exits *[]exit) (Value, bool) {
	c := e.tc
	v := e.get(fr, x.X)
	switch x.Op {
	case token.MUL: // load
		switch p := v.(type) {
		case PtrV:
			p, ok := e.needNonNil(st, fr, p, x.Pos(), exits)
			if !ok {
				return nil, false
			}
			if n := len(p.Path); n > 0 && p.Path[n-1].S != nil {
				// load through a symbolic array index: fork when the elements cannot be merged into one value
				if arr, isArr := e.getPath(st, e.obj(st, p.Obj), p.Path[:n-1]).(ArrayV); isArr {
					if v, ok := e.trySelectElem(arr.E, p.Path[n-1].S); ok {
						return v, true
					}
					return indexFork{elems: arr.E, idx: p.Path[n-1].S}, true
				}
			}
			return e.load(st, p), true
		case LocV, RegexpV:
			panic(unsupported("dereference of abstract pointer"))
		}
		panic(unsupported(fmt.Sprintf("load through %T", v)))
	case token.NOT:
		return c.Not(v.(*Term)), true
	case token.SUB:
		if f, ok := v.(FloatV); ok {
			return FloatV{-f.F}, true
		}
		return c.BVNeg(v.(*Term)), true
	case token.XOR:
		return c.BVNot(v.(*Term)), true
	case token.ARROW:
		ch := v.(ChanV)
		val, ok, done := e.chanRecv(st, ch, x.Type(), x.CommaOk)
		if !done {
			panic(unsupported("blocking channel receive at " + e.posString(x.Pos())))
		}
		if x.CommaOk {
			return TupleV{val, e.tc.Bool(ok)}, true
		}
		return val, true
	}
	panic(unsupported("unary operator " + x.Op.String()))
}

func (e *Engine) convert(st *State, v Value, from, to types.Type) Value {
	c := e.tc
	fu, tu := from.Underlying(), to.Underlying()
	if fb, ok := fu.(*types.Basic); ok {
		if tb, ok := tu.(*types.Basic); ok {
			switch {
			case fb.Info()&types.IsInteger != 0 && tb.Info()&types.IsInteger != 0:
				tw, _ := intWidth(tb)
				_, fs := intWidth(fb)
				return c.Resize(v.(*Term), tw, fs)
			case fb.Info()&types.IsString != 0 && tb.Info()&types.IsString != 0:
				return v
			case fb.Info()&types.IsInteger != 0 && tb.Info()&types.IsString != 0:
				t := v.(*Term)
				if t.IsConst() {
					return e.strConst(string(rune(t.SVal())))
				}
				panic(unsupported("string(rune) of a symbolic rune"))
			case fb.Info()&types.IsInteger != 0 && tb.Info()&types.IsFloat != 0:
				if t, ok := isConstTerm(v); ok {
					return FloatV{float64(t.SVal())}
				}
				panic(unsupported("int→float of symbolic value"))
			case fb.Info()&types.IsFloat != 0 && tb.Info()&types.IsInteger != 0:
				tw, _ := intWidth(tb)
				return c.BV(uint64(int64(v.(FloatV).F)), tw)
			case fb.Info()&types.IsFloat != 0 && tb.Info()&types.IsFloat != 0:
				return v
			case fb.Kind() == types.UnsafePointer || tb.Kind() == types.UnsafePointer:
				panic(unsupported("unsafe.Pointer conversion"))
			}
		}
		if _, ok := tu.(*types.Slice); ok && fb.Info()&types.IsString != 0 {
			s := v.(StrV)
			if s.Opaque {
				panic(unsupported("[]byte(opaque string)"))
			}
			el := tu.(*types.Slice).Elem().Underlying().(*types.Basic)
			if el.Kind() == types.Uint8 {
				return e.newByteSlice(st, s.B)
			}
			panic(unsupported("[]rune(string)"))
		}
	}
	if _, ok := fu.(*types.Slice); ok {
		if tb, ok := tu.(*types.Basic); ok && tb.Info()&types.IsString != 0 {
			sl := v.(SliceV)
			if sl.Nil {
				return StrV{}
			}
			return StrV{B: e.bytesOf(st, sl)}
		}
	}
	if _, ok := tu.(*types.Pointer); ok {
		return v
	}
	panic(unsupported(fmt.Sprintf("conversion %s → %s", from, to)))
}

// index: x[i] on arrays (values) and strings.
func (e *Engine) index(st *State, fr *Frame, xv Value, idx *Term, it types.Type, pos token.Pos, exits *[]exit) (Value, bool) {
	c := e.tc
	idx = c.Resize(idx, 64, isSigned(it))
	var elems []Value
	switch x := xv.(type) {
	case ArrayV:
		elems = x.E
	case StrV:
		if x.Opaque {
			panic(unsupported("index into opaque string"))
		}
		elems = make([]Value, len(x.B))
		for i, b := range x.B {
			elems[i] = b
		}
	default:
		panic(unsupported(fmt.Sprintf("index of %T", xv)))
	}
	n := len(elems)
	if idx.IsConst() {
		i := idx.SVal()
		if i < 0 || i >= int64(n) {
			e.panicExit(st, fr, fmt.Sprintf("index out of range [%d] with length %d", i, n), pos, exits)
			return nil, false
		}
		return elems[i], true
	}
	if !e.mustHoldF(st, fr, exits, c.BVUlt(idx, c.BV(uint64(n), 64)), fmt.Sprintf("index out of range with length %d", n), pos) {
		e.finish(st, fr, exitPanic, nil, "index out of range", exits)
		return nil, false
	}
	if v, ok := e.trySelectElem(elems, idx); ok {
		return v, true
	}
	return indexFork{elems: elems, idx: idx}, true
}

// indexFork: the result of a symbolic index whose candidate elements have different shapes; the
// instruction handler forks one state per feasible index value.
type indexFork struct {
	elems []Value
	idx   *Term
}

func (e *Engine) trySelectElem(elems []Value, idx *Term) (v Value, ok bool) {
	defer func() {
		if r := recover(); r != nil {
			if _, isU := r.(unsupportedErr); isU {
				v, ok = nil, false
				return
			}
			panic(r)
		}
	}()
	return e.selectElem(elems, idx), true
}

func (e *Engine) indexAddr(st *State, fr *Frame, xv Value, idx *Term, it types.Type, pos token.Pos, exits *[]exit) (Value, bool) {
	c := e.tc
	idx = c.Resize(idx, 64, isSigned(it))
	switch x := xv.(type) {
	case SliceV:
		if idx.IsConst() && x.Len.IsConst() {
			i := idx.SVal()
			if i < 0 || i >= int64(x.Len.C) {
				e.panicExit(st, fr, fmt.Sprintf("index out of range [%d] with length %d", i, x.Len.C), pos, exits)
				return nil, false
			}
			return PtrV{Obj: x.Obj, Path: appendPath(x.Path, PathElem{I: x.Off + int(i)})}, true
		}
		if !e.mustHoldF(st, fr, exits, c.BVUlt(idx, x.Len), "index out of range (slice)", pos) {
			e.finish(st, fr, exitPanic, nil, "index out of range", exits)
			return nil, false
		}
		if idx.IsConst() {
			i := int(idx.C)
			if i >= x.Cap {
				// length is symbolic but cannot exceed the capacity
				e.panicExit(st, fr, "index beyond capacity", pos, exits)
				return nil, false
			}
			return PtrV{Obj: x.Obj, Path: appendPath(x.Path, PathElem{I: x.Off + i})}, true
		}
		return PtrV{Obj: x.Obj, Path: appendPath(x.Path, PathElem{S: c.BVAdd(idx, c.BV(uint64(x.Off), 64))})}, true
	case PtrV: // *array
		x, okp := e.needNonNil(st, fr, x, pos, exits)
		if !okp {
			return nil, false
		}
		arr, ok := e.load(st, x).(ArrayV)
		if !ok {
			panic(unsupported("IndexAddr through pointer to non-array"))
		}
		n := len(arr.E)
		if idx.IsConst() {
			i := idx.SVal()
			if i < 0 || i >= int64(n) {
				e.panicExit(st, fr, fmt.Sprintf("index out of range [%d] with length %d", i, n), pos, exits)
				return nil, false
			}
			return PtrV{Obj: x.Obj, Path: appendPath(x.Path, PathElem{I: int(i)})}, true
		}
		if !e.mustHoldF(st, fr, exits, c.BVUlt(idx, c.BV(uint64(n), 64)), fmt.Sprintf("index out of range with length %d", n), pos) {
			e.finish(st, fr, exitPanic, nil, "index out of range", exits)
			return nil, false
		}
		return PtrV{Obj: x.Obj, Path: appendPath(x.Path, PathElem{S: idx})}, true
	}
	panic(unsupported(fmt.Sprintf("IndexAddr of %T", xv)))
}

func (e *Engine) sliceOp(st *State, fr *Frame, x *ssa.Slice, exits *[]exit) (Value, bool) {
	c := e.tc
	xv := e.get(fr, x.X)
	opt := func(v ssa.Value) *Term {
		if v == nil {
			return nil
		}
		return c.Resize(e.get(fr, v).(*Term), 64, isSigned(v.Type()))
	}
	lo, hi, max := opt(x.Low), opt(x.High), opt(x.Max)
	if lo == nil {
		lo = c.BV(0, 64)
	}
	fail := func(msg string) (Value, bool) {
		e.finish(st, fr, exitPanic, nil, msg, exits)
		return nil, false
	}
	switch v := xv.(type) {
	case StrV:
		if v.Opaque {
			panic(unsupported("slice of opaque string"))
		}
		n := len(v.B)
		if hi == nil {
			hi = c.BV(uint64(n), 64)
		}
		if !lo.IsConst() || !hi.IsConst() {
			panic(unsupported("string slice with symbolic bounds"))
		}
		l, h := lo.SVal(), hi.SVal()
		if l < 0 || h < l || h > int64(n) {
			e.panicExit(st, fr, fmt.Sprintf("slice bounds out of range [%d:%d] with length %d", l, h, n), x.Pos(), exits)
			return nil, false
		}
		return StrV{B: v.B[l:h]}, true
	case SliceV:
		if hi == nil {
			hi = v.Len
		}
		capT := c.BV(uint64(v.Cap), 64)
		if max == nil {
			max = capT
		}
		// 0 <= lo <= hi <= max <= cap
		cond := c.And(c.BVUle(lo, hi), c.BVUle(hi, max), c.BVUle(max, capT))
		if !cond.IsTrue() {
			if cond.IsFalse() {
				e.panicExit(st, fr, fmt.Sprintf("slice bounds out of range [%s:%s] with capacity %d", lo, hi, v.Cap), x.Pos(), exits)
				return nil, false
			}
			if !e.mustHoldF(st, fr, exits, cond, "slice bounds out of range", x.Pos()) {
				return fail("slice bounds out of range")
			}
		}
		if !lo.IsConst() || !max.IsConst() {
			panic(unsupported("slice with symbolic low bound at " + e.posString(x.Pos())))
		}
		l := int(lo.C)
		if v.Nil {
			return v, true
		}
		return SliceV{Obj: v.Obj, Path: v.Path, Off: v.Off + l, Len: c.BVSub(hi, lo), Cap: int(max.C) - l}, true
	case PtrV: // *array
		v, okp := e.needNonNil(st, fr, v, x.Pos(), exits)
		if !okp {
			return nil, false
		}
		arr := e.load(st, v).(ArrayV)
		n := len(arr.E)
		if hi == nil {
			hi = c.BV(uint64(n), 64)
		}
		if max == nil {
			max = c.BV(uint64(n), 64)
		}
		cond := c.And(c.BVUle(lo, hi), c.BVUle(hi, max), c.BVUle(max, c.BV(uint64(n), 64)))
		if cond.IsFalse() {
			e.panicExit(st, fr, "slice bounds out of range (array)", x.Pos(), exits)
			return nil, false
		}
		if !e.mustHoldF(st, fr, exits, cond, "slice bounds out of range", x.Pos()) {
			return fail("slice bounds out of range")
		}
		if !lo.IsConst() || !max.IsConst() {
			panic(unsupported("array slice with symbolic low bound"))
		}
		l := int(lo.C)
		return SliceV{Obj: v.Obj, Path: v.Path, Off: l, Len: c.BVSub(hi, lo), Cap: int(max.C) - l}, true
	}
	panic(unsupported(fmt.Sprintf("slice of %T", xv)))
}

// nextRuneSymbolic: range over a string whose next byte is symbolic.  Forks on the UTF-8 class of the
// lead byte; the ASCII case is exact; multi-byte sequences are decoded exactly when well-formed and
// yield (U+FFFD, width 1) otherwise, as the language specifies.
func (e *Engine) nextRuneSymbolic(st *State, fr *Frame, x *ssa.Next, it IterV, idx int, q *pqueue, exits *[]exit) bool {
	c := e.tc
	s := *it.Str
	pos := it.Pos
	b0 := s.B[pos]
	type alt struct {
		cond *Term
		r    *Term
		w    int
	}
	var alts []alt
	bv8 := func(v uint64) *Term { return c.BV(v, 8) }
	z32 := func(t *Term) *Term { return c.ZeroExt(t, 24) }
	inr := func(t *Term, lo, hi uint64) *Term { return c.And(c.BVUle(bv8(lo), t), c.BVUle(t, bv8(hi))) }
	ascii := c.BVUlt(b0, bv8(0x80))
	if ascii.IsTrue() || !e.feasible(st, c.Not(ascii), "utf8 non-ascii") {
		// only the one-byte form is possible here: no fork, nothing to add to the path condition
		fr.regs[x.Iter] = IterV{Str: it.Str, Pos: pos + 1}
		fr.regs[x] = TupleV{c.True, c.BV(uint64(pos), 64), z32(b0)}
		return true
	}
	alts = append(alts, alt{ascii, z32(b0), 1})
	valid := c.False
	rem := len(s.B) - pos
	cont := func(t *Term) *Term { return inr(t, 0x80, 0xBF) }
	low6 := func(t *Term) *Term { return z32(c.BVAnd(t, bv8(0x3F))) }
	shl := func(t *Term, k uint64) *Term { return c.BVShl(t, c.BV(k, 32)) }
	if rem >= 2 {
		b1 := s.B[pos+1]
		c2 := c.And(inr(b0, 0xC2, 0xDF), cont(b1))
		r2 := c.BVOr(shl(z32(c.BVAnd(b0, bv8(0x1F))), 6), low6(b1))
		alts = append(alts, alt{c2, r2, 2})
		valid = c.Or(valid, c2)
		if rem >= 3 {
			b2 := s.B[pos+2]
			// E0: A0..BF; E1..EC, EE..EF: 80..BF; ED: 80..9F
			second := c.Or(
				c.And(c.Eq(b0, bv8(0xE0)), inr(b1, 0xA0, 0xBF)),
				c.And(c.Or(inr(b0, 0xE1, 0xEC), inr(b0, 0xEE, 0xEF)), cont(b1)),
				c.And(c.Eq(b0, bv8(0xED)), inr(b1, 0x80, 0x9F)))
			c3 := c.And(second, cont(b2))
			r3 := c.BVOr(c.BVOr(shl(z32(c.BVAnd(b0, bv8(0x0F))), 12), shl(low6(b1), 6)), low6(b2))
			alts = append(alts, alt{c3, r3, 3})
			valid = c.Or(valid, c3)
			if rem >= 4 {
				b3 := s.B[pos+3]
				sec4 := c.Or(
					c.And(c.Eq(b0, bv8(0xF0)), inr(b1, 0x90, 0xBF)),
					c.And(inr(b0, 0xF1, 0xF3), cont(b1)),
					c.And(c.Eq(b0, bv8(0xF4)), inr(b1, 0x80, 0x8F)))
				c4 := c.And(sec4, cont(b2), cont(b3))
				r4 := c.BVOr(c.BVOr(c.BVOr(shl(z32(c.BVAnd(b0, bv8(0x07))), 18), shl(low6(b1), 12)), shl(low6(b2), 6)), low6(b3))
				alts = append(alts, alt{c4, r4, 4})
				valid = c.Or(valid, c4)
			}
		}
	}
	alts = append(alts, alt{c.And(c.Not(ascii), c.Not(valid)), c.BV(0xFFFD, 32), 1})
	// group alternatives by width (same shape → one state per width)
	type grp struct {
		cond *Term
		r    *Term
	}
	byW := map[int]*grp{}
	var order []int
	for _, a := range alts {
		g, ok := byW[a.w]
		if !ok {
			byW[a.w] = &grp{a.cond, a.r}
			order = append(order, a.w)
			continue
		}
		g.r = c.Ite(a.cond, a.r, g.r)
		g.cond = c.Or(g.cond, a.cond)
	}
	var feas []int
	for _, w := range order {
		if e.feasible(st, byW[w].cond, "utf8 width") {
			feas = append(feas, w)
		}
	}
	// step() cannot return several continuations; re-enter execBlock for each alternative
	for k, w := range feas {
		s2, f2 := st, fr
		if k < len(feas)-1 {
			s2, f2 = st.fork(), fr.clone()
			e.stats.States++
		}
		s2.assume(byW[w].cond)
		f2.regs[x.Iter] = IterV{Str: it.Str, Pos: pos + w}
		f2.regs[x] = TupleV{c.True, c.BV(uint64(pos), 64), byW[w].r}
		e.execBlock(s2, f2, idx+1, q, exits)
	}
	return false
}

var _ = utf8.RuneError
