package gosym

import (
	"fmt"
	"go/token"
	"go/types"
	"strings"

	"golang.org/x/tools/go/ssa"
)

type stubFn func(e *Engine, st *State, fr *Frame, fn *ssa.Function, args []Value, pos token.Pos) []exit

var stubs = map[string]stubFn{}

func concreteString(v Value, what string) string {
	s, ok := v.(StrV).Concrete()
	if !ok {
		panic(unsupported(what + ": string argument must be concrete"))
	}
	return s
}

func concreteInt(v Value, what string) int {
	t, ok := isConstTerm(v)
	if !ok {
		panic(unsupported(what + ": integer argument must be concrete"))
	}
	return int(t.SVal())
}

func (e *Engine) nondetName(st *State, tag string) string {
	n := st.tags[tag]
	st.tags[tag] = n + 1
	if n == 0 {
		return tag
	}
	return fmt.Sprintf("%s#%d", tag, n)
}

// intrinsic intercepts the harness API (functions named nondet* / verif* in repo packages).
func (e *Engine) intrinsic(st *State, fr *Frame, fn *ssa.Function, args []Value, pos token.Pos) ([]exit, bool) {
	name := fn.Name()
	if !strings.HasPrefix(name, "nondet") && !strings.HasPrefix(name, "verif") {
		return nil, false
	}
	c := e.tc
	scalar := func(w int) ([]exit, bool) {
		tag := e.nondetName(st, concreteString(args[0], name))
		return retExit(st, c.Var(tag, SBV(w))), true
	}
	switch name {
	case "nondetBool":
		tag := e.nondetName(st, concreteString(args[0], name))
		return retExit(st, c.Var(tag, SBool)), true
	case "nondetU8":
		return scalar(8)
	case "nondetU16":
		return scalar(16)
	case "nondetU32":
		return scalar(32)
	case "nondetU64", "nondetInt", "nondetI64":
		return scalar(64)
	case "nondetI32":
		return scalar(32)
	case "nondetBytes":
		tag := e.nondetName(st, concreteString(args[0], name))
		n := concreteInt(args[1], name)
		b := make([]*Term, n)
		for i := range b {
			b[i] = c.Var(fmt.Sprintf("%s[%d]", tag, i), SBV(8))
		}
		return retExit(st, e.newByteSlice(st, b)), true
	case "nondetString":
		tag := e.nondetName(st, concreteString(args[0], name))
		n := concreteInt(args[1], name)
		b := make([]*Term, n)
		for i := range b {
			b[i] = c.Var(fmt.Sprintf("%s[%d]", tag, i), SBV(8))
		}
		return retExit(st, StrV{B: b}), true
	case "nondetEnum":
		// program-level choice: forks into n states, each with a concrete value (recorded in the model)
		tag := e.nondetName(st, concreteString(args[0], name))
		n := concreteInt(args[1], name)
		v := c.Var("enum:"+tag, SBV(64))
		var out []exit
		for i := 0; i < n; i++ {
			s2 := st
			if i < n-1 {
				s2 = st.fork()
				e.stats.States++
			}
			s2.assume(c.Eq(v, c.BV(uint64(i), 64)))
			s2.choice = append(s2.choice[:len(s2.choice):len(s2.choice)], i)
			out = append(out, exit{st: s2, kind: exitReturn, val: c.BV(uint64(i), 64)})
		}
		return out, true
	case "nondetLen":
		tag := e.nondetName(st, concreteString(args[0], name))
		max := concreteInt(args[1], name)
		ln := c.Var("len:"+tag, SBV(64))
		st.assume(c.BVUle(ln, c.BV(uint64(max), 64)))
		return retExit(st, ln), true
	case "nondetBuffer":
		tag := e.nondetName(st, concreteString(args[0], name))
		max := concreteInt(args[1], name)
		b := make([]*Term, max)
		for i := range b {
			b[i] = c.Var(fmt.Sprintf("%s[%d]", tag, i), SBV(8))
		}
		sl := e.newByteSlice(st, b)
		ln := c.Var("len:"+tag, SBV(64))
		st.assume(c.BVUle(ln, c.BV(uint64(max), 64)))
		sl.Len = ln
		return retExit(st, sl), true
	case "verifAssume":
		cond := args[0].(*Term)
		if cond.IsFalse() {
			return nil, true
		}
		if !cond.IsTrue() && !e.feasible(st, cond, "assume") {
			return nil, true
		}
		st.assume(cond)
		return retExit(st, nil), true
	case "verifAssert":
		cond := args[0].(*Term)
		label := concreteString(args[1], name)
		e.stats.Obligations++
		e.stats.AssertChecks++
		if cond.IsTrue() {
			e.stats.Discharged++
			return retExit(st, nil), true
		}
		if e.reportFailure(st, c.Not(cond), "assert", label, pos) {
			e.stats.Discharged++
		}
		st.assume(cond)
		if cond.IsFalse() {
			return nil, true
		}
		return retExit(st, nil), true
	case "verifAssertEqBytes":
		a := e.bytesOf(st, args[0].(SliceV))
		b := e.bytesOf(st, args[1].(SliceV))
		label := concreteString(args[2], name)
		e.stats.Obligations++
		e.stats.AssertChecks++
		if len(a) != len(b) {
			e.reportFailure(st, c.True, "assert", fmt.Sprintf("%s: length %d != %d", label, len(a), len(b)), pos)
			return nil, true
		}
		all := c.True
		for i := range a {
			all = c.And(all, c.Eq(a[i], b[i]))
		}
		if all.IsTrue() {
			e.stats.Discharged++
			return retExit(st, nil), true
		}
		// one query for the conjunction; on failure name the first differing byte under the model
		as := append(append([]*Term{}, st.pc...), c.Not(all))
		if len(st.region) > 0 {
			// regions: fall back to the generic path
			if e.reportFailure(st, c.Not(all), "assert", label, pos) {
				e.stats.Discharged++
			}
		} else {
			v, m, _ := e.sol.Check("assert:"+label, as)
			switch v {
			case Unsat:
				e.stats.Discharged++
			case Unknown:
				e.addFinding(Finding{Kind: "unknown", Label: label + " (solver: unknown)", Site: e.posString(pos)})
			case Sat:
				which := -1
				for i := range a {
					r, ok := c.Eval(c.Eq(a[i], b[i]), e.padModel(m, a[i], b[i]))
					if ok && r.IsFalse() {
						which = i
						break
					}
				}
				e.addFinding(Finding{Kind: "assert", Label: fmt.Sprintf("%s: byte %d differs", label, which), Site: e.posString(pos), Model: e.completeModel(st, m), Observed: e.observedUnder(st, m)})
			}
		}
		st.assume(all)
		return retExit(st, nil), true
	case "verifReach":
		label := concreteString(args[0], name)
		e.reachAll[label] = true
		e.stats.ReachLabels++
		e.stats.Obligations++
		v, m, _ := e.sol.Check("reach:"+label, st.pc)
		if v == Sat {
			e.stats.ReachOK++
			e.stats.Discharged++
			e.reachSat[label] = true
			st.reached[label] = true
			if len(e.pathModels) < 64 {
				// only this label is known to be reached under this model (earlier labels may belong to
				// branches that were merged into this state)
				e.pathModels = append(e.pathModels, PathModel{Model: e.completeModel(st, m), Observed: e.observedUnder(st, m), Reached: []string{label}})
			}
		} else if v == Unsat {
			return nil, true
		}
		return retExit(st, nil), true
	case "verifObserve":
		nm := concreteString(args[0], name)
		var v Value = args[1]
		if iv, ok := v.(IfaceV); ok && iv.T != nil {
			v = iv.V
		}
		st.observe = append(st.observe[:len(st.observe):len(st.observe)], Observation{nm, v})
		return retExit(st, nil), true
	case "verifRegion":
		id := concreteString(args[0], name)
		st.region = append(st.region[:len(st.region):len(st.region)], regionRec{id, args[1].(*Term)})
		return retExit(st, nil), true
	case "verifRegionEnd":
		if len(st.region) > 0 {
			st.region = st.region[:len(st.region)-1]
		}
		return retExit(st, nil), true
	case "verifZone":
		e.opt.Zone = concreteInt(args[0], name)
		e.zoneAssumptions(st)
		return retExit(st, nil), true
	case "verifZoneTable":
		rows, info := LoadZoneTable()
		e.zoneTable = rows
		e.stubsUsed["zone table: "+info] = true
		return retExit(st, nil), true
	case "verifZoneAt":
		e.declareZoneAt(st, args[0].(*Term), args[1].(*Term), args[2].(*Term))
		return retExit(st, nil), true
	case "verifControllerZoneAt":
		return retExit(st, e.declareControllerZoneAt(st, args[0].(*Term), args[1].(*Term), args[2].(*Term))), true
	case "verifZoneParams":
		if e.zv == nil {
			panic(unsupported("verifZoneParams without verifZoneAt"))
		}
		return retExit(st, TupleV{e.zv.O1, e.zv.O2, e.zv.Tau}), true
	case "verifLazySpawn":
		e.lazySpawn = true
		return retExit(st, nil), true
	case "verifTimedSleeps":
		e.timedSleeps = true
		e.stubsUsed["time.Sleep in goroutines: parked on a timer (concrete durations), woken in time order when the main thread blocks"] = true
		return retExit(st, nil), true
	case "verifGoroutines":
		return retExit(st, e.bv64(int64(len(st.parked)))), true
	case "verifB":
		return retExit(st, c.Ite(args[0].(*Term), e.bv64(1), e.bv64(0))), true
	case "verifInterpret":
		e.summaries["interpret:"+concreteString(args[0], name)] = true
		return retExit(st, nil), true
	case "verifUseSummary":
		e.summaries[concreteString(args[0], name)] = true
		return retExit(st, nil), true
	case "verifOffset":
		return retExit(st, e.zone.offsetBV(st)), true
	case "verifHavoc":
		e.havoc(st, args[0])
		return retExit(st, nil), true
	case "verifOpaqueNumbers":
		// from here on fmt renders symbolic numbers as opaque non-empty text (rendering is only checked for panics)
		e.opt.OpaqueNumbers = args[0].(*Term).IsTrue()
		return retExit(st, nil), true
	case "verifSymbolic":
		// true while executed by the engine, false natively
		return retExit(st, c.True), true
	case "verifTag":
		return retExit(st, nil), true
	}
	if res, ok := e.netIntrinsic(st, name, args); ok {
		return res, true
	}
	return e.intrinsic2(st, fr, fn, args, pos)
}

func (e *Engine) padModel(m Model, ts ...*Term) Model {
	full := Model{}
	for k, v := range m {
		full[k] = v
	}
	vs := map[*Term]bool{}
	CollectVars(ts, vs)
	for v := range vs {
		if _, ok := full[v.Name]; !ok {
			full[v.Name] = 0
		}
	}
	return full
}

// havoc overwrites every settable cell reachable from the interface value v with fresh symbols, following
// reflect's rules (the native twin is verifHavoc in the harness support): pointers, slices, arrays, maps and
// exported struct fields are traversed; everything below an unexported field is read-only.
func (e *Engine) havoc(st *State, v Value) {
	iv, ok := v.(IfaceV)
	if !ok || iv.T == nil {
		return
	}
	seen := map[ObjID]bool{}
	var fresh func(x Value, t types.Type) Value
	var follow func(x Value, t types.Type)
	// fresh: a new value for a settable cell of type t currently holding x
	fresh = func(x Value, t types.Type) Value {
		if e.isTimeType(t) {
			return x
		}
		switch u := t.Underlying().(type) {
		case *types.Basic:
			switch tv := x.(type) {
			case *Term:
				return e.tc.Fresh("havoc", tv.Sort)
			case StrV:
				if tv.Opaque {
					return x
				}
				b := make([]*Term, len(tv.B))
				for i := range b {
					b[i] = e.tc.Fresh("havoc", SBV(8))
				}
				return StrV{B: b}
			}
			return x
		case *types.Struct:
			sv, ok := x.(StructV)
			if !ok {
				return x
			}
			f := make([]Value, len(sv.F))
			for i := range f {
				if u.Field(i).Exported() {
					f[i] = fresh(sv.F[i], u.Field(i).Type())
				} else {
					f[i] = sv.F[i]
				}
			}
			return StructV{F: f}
		case *types.Array:
			av, ok := x.(ArrayV)
			if !ok {
				return x
			}
			f := make([]Value, len(av.E))
			for i := range f {
				f[i] = fresh(av.E[i], u.Elem())
			}
			return ArrayV{E: f}
		default:
			follow(x, t)
			return x
		}
	}
	// follow: x is a reference (pointer / slice / map / interface): scribble over what it refers to
	follow = func(x Value, t types.Type) {
		switch u := t.Underlying().(type) {
		case *types.Pointer:
			p, ok := x.(PtrV)
			if !ok || p.IsNil() {
				return
			}
			key := p.Obj
			if seen[key] && len(p.Path) == 0 {
				return
			}
			seen[key] = true
			cur := e.load(st, PtrV{Obj: p.Obj, Path: p.Path})
			e.store(st, PtrV{Obj: p.Obj, Path: p.Path}, fresh(cur, u.Elem()))
		case *types.Slice:
			sl, ok := x.(SliceV)
			if !ok || sl.Nil {
				return
			}
			n, ok := e.resolveLen(st, sl.Len)
			if !ok {
				panic(unsupported("havoc of a slice with symbolic length"))
			}
			for i := 0; i < n; i++ {
				p := PtrV{Obj: sl.Obj, Path: appendPath(sl.Path, PathElem{I: sl.Off + i})}
				e.store(st, p, fresh(e.load(st, p), u.Elem()))
			}
		case *types.Map:
			m, ok := x.(MapV)
			if !ok || m.Obj == 0 || seen[m.Obj] {
				return
			}
			seen[m.Obj] = true
			mo := e.mapObj(st, m)
			out := &MapObj{KeyT: mo.KeyT, ValT: mo.ValT}
			for _, en := range mo.E {
				out.E = append(out.E, MapEntry{K: en.K, V: fresh(en.V, u.Elem()), Present: en.Present})
			}
			st.heap[m.Obj] = out
		case *types.Interface:
			if iv, ok := x.(IfaceV); ok && iv.T != nil {
				follow(iv.V, iv.T)
			}
		}
	}
	follow(iv.V, iv.T)
}

var _ = types.Identical
