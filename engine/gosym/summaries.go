package gosym

// Function summaries (compositional reasoning).  A harness may ask for a repo function to be replaced by
// its contract with verifUseSummary(name); the contract is the one another check proves against the real
// body on every run (stated in the evidence of both).
//
//   "bcd.Decode": for a byte slice of concrete length n: error iff some nibble exceeds 9, otherwise the
//                 2n characters '0'+nibble, most significant first            (proved by C12 for n <= 8 / 16)

import (
	"go/token"

	"golang.org/x/tools/go/ssa"
)

func init() {
	const decode = "github.com/uhppoted/uhppote-core/encoding/bcd.Decode"
	stubs[decode] = func(e *Engine, st *State, fr *Frame, fn *ssa.Function, args []Value, pos token.Pos) []exit {
		if !e.summaries["bcd.Decode"] {
			depth := 0
			if fr != nil {
				depth = fr.depth + 1
			}
			delete(e.stubsUsed, decode)
			return e.runFunction(st, fn, args, nil, depth)
		}
		delete(e.stubsUsed, decode)
		e.stubsUsed["summary of bcd.Decode (its contract, proved against the real body by the C12 check for lengths <= 16)"] = true
		c := e.tc
		b := e.bytesOf(st, args[0].(SliceV))
		if len(b) > 16 {
			panic(unsupported("bcd.Decode summary beyond the length C12 proves"))
		}
		ok := c.True
		var chars []*Term
		for _, x := range b {
			hi, lo := c.Extract(x, 7, 4), c.Extract(x, 3, 0)
			ok = c.And(ok, c.BVUle(hi, c.BV(9, 4)), c.BVUle(lo, c.BV(9, 4)))
			chars = append(chars, c.Concat(c.BV(3, 4), hi), c.Concat(c.BV(3, 4), lo))
		}
		var out []exit
		okF := e.feasible(st, ok, "bcd.Decode summary ok")
		errF := !ok.IsTrue() && (!okF || e.feasible(st, c.Not(ok), "bcd.Decode summary error"))
		if errF {
			s2 := st
			if okF {
				s2 = st.fork()
				e.stats.States++
			}
			s2.assume(c.Not(ok))
			out = append(out, exit{st: s2, kind: exitReturn, val: TupleV{e.strConst(""), e.errValue("bcd.Decode", StrV{Opaque: true, Note: "invalid BCD"})}})
		}
		if okF {
			st.assume(ok)
			out = append(out, exit{st: st, kind: exitReturn, val: TupleV{StrV{B: chars}, IfaceV{}}})
		}
		return out
	}
}
