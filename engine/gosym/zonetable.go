package gosym

// The table of real zone transitions (installed tzdata), used by the "IANA" variants of the C13 harnesses:
// (o1, o2, T) for every transition of every zone between 1800 and 2040, expanded to the anchor days on
// which it can influence the resolution of a civil time.  Precomputed natively with package time - a
// static table, not part of the code under verification.

import (
	"os"
	"path/filepath"
	"sort"
	"strings"
	"sync"
	"time"
)

type ZoneRow struct {
	O1, O2  int
	Tau     int64
	Y, M, D int
}

var (
	zoneTableOnce sync.Once
	zoneTableRows []ZoneRow
	zoneTableInfo string
)

func ZoneNames() []string {
	root := "/usr/share/zoneinfo"
	var names []string
	filepath.Walk(root, func(p string, fi os.FileInfo, err error) error {
		if err != nil || fi.IsDir() {
			return nil
		}
		rel := strings.TrimPrefix(p, root+"/")
		if strings.HasPrefix(rel, "posix/") || strings.HasPrefix(rel, "right/") || strings.Contains(rel, ".") ||
			rel == "leapseconds" || rel == "posixrules" || rel == "localtime" || rel == "Factory" {
			return nil
		}
		names = append(names, rel)
		return nil
	})
	sort.Strings(names)
	return names
}

func LoadZoneTable() ([]ZoneRow, string) {
	zoneTableOnce.Do(func() {
		type tr struct {
			o1, o2 int
			T      int64
		}
		seen := map[tr]bool{}
		nz := 0
		for _, n := range ZoneNames() {
			loc, err := time.LoadLocation(n)
			if err != nil {
				continue
			}
			nz++
			t := time.Date(1800, 1, 1, 0, 0, 0, 0, time.UTC).In(loc)
			for i := 0; i < 4000; i++ {
				_, end := t.ZoneBounds()
				if end.IsZero() || end.Year() > 2040 {
					break
				}
				_, o1 := end.Add(-time.Second).Zone()
				_, o2 := end.Zone()
				if o1 != o2 {
					seen[tr{o1, o2, end.Unix()}] = true
				}
				t = end
			}
		}
		rows := map[ZoneRow]bool{}
		for x := range seen {
			d := x.o2 - x.o1
			if d <= -86400 || d >= 86400 || x.o1 < -50400 || x.o1 > 50400 || x.o2 < -50400 || x.o2 > 50400 {
				continue
			}
			day := x.T / 86400
			if x.T < 0 && x.T%86400 != 0 {
				day--
			}
			for j := int64(-2); j <= 1; j++ {
				tau := x.T - (day+j)*86400
				if tau < -50400 || tau > 136800 {
					continue
				}
				a := time.Unix((day+j)*86400, 0).UTC()
				rows[ZoneRow{x.o1, x.o2, tau, a.Year(), int(a.Month()), a.Day()}] = true
			}
		}
		// the resolution of a civil time depends on the date only through the calendar, so one query per
		// transition *shape* (o1, o2, tau) is kept: its earliest and its latest occurrence (the generic
		// harness covers every date with a symbolic zone)
		type shape struct {
			o1, o2 int
			tau    int64
		}
		key := func(r ZoneRow) int { return r.Y*10000 + r.M*100 + r.D }
		first, last := map[shape]ZoneRow{}, map[shape]ZoneRow{}
		for r := range rows {
			k := shape{r.O1, r.O2, r.Tau}
			if f, ok := first[k]; !ok || key(r) < key(f) {
				first[k] = r
			}
			if l, ok := last[k]; !ok || key(r) > key(l) {
				last[k] = r
			}
		}
		nrows := len(rows)
		rows = map[ZoneRow]bool{}
		for k := range first {
			rows[first[k]] = true
			rows[last[k]] = true
		}
		for r := range rows {
			zoneTableRows = append(zoneTableRows, r)
		}
		defer func() {
			zoneTableInfo += " reduced from " + itoa(nrows) + " to the earliest and latest occurrence of each of " + itoa(len(first)) + " (o1, o2, tau) shapes"
		}()
		sort.Slice(zoneTableRows, func(i, j int) bool {
			a, b := zoneTableRows[i], zoneTableRows[j]
			if a.Y != b.Y {
				return a.Y < b.Y
			}
			if a.M != b.M {
				return a.M < b.M
			}
			if a.D != b.D {
				return a.D < b.D
			}
			if a.O1 != b.O1 {
				return a.O1 < b.O1
			}
			if a.O2 != b.O2 {
				return a.O2 < b.O2
			}
			return a.Tau < b.Tau
		})
		zoneTableInfo = itoa(nz) + " zones, " + itoa(len(seen)) + " distinct transitions 1800..2040, " + itoa(len(zoneTableRows)) + " (transition, anchor day) rows"
	})
	return zoneTableRows, zoneTableInfo
}
