package gosym

import (
	"sync"
	"fmt"
	"go/types"
	"os"
	"runtime/debug"
	"sort"
	"strings"
	"time"

	"golang.org/x/tools/go/ssa"
)

type unsupportedErr struct{ msg string }

func (u unsupportedErr) Error() string { return "UNSUPPORTED: " + u.msg }

func unsupported(msg string) unsupportedErr {
	if os.Getenv("VERIF_STACK") != "" {
		fmt.Fprintf(os.Stderr, "UNSUPPORTED %s\n%s\n", msg, debug.Stack())
	}
	return unsupportedErr{msg}
}

type unwindErr struct{ msg string }

func (u unwindErr) Error() string { return "UNWIND: " + u.msg }

type budgetErr struct{ msg string }

func (u budgetErr) Error() string { return "BUDGET: " + u.msg }

type Stats struct {
	States       int // symbolic states created (forks + merged)
	Instrs       int // SSA instructions executed
	Merges       int
	Forks        int
	Pruned       int
	Obligations  int
	Discharged   int
	ReachLabels  int
	ReachOK      int
	PanicChecks  int
	AssertChecks int
	CacheHits    int
	RangeHits    int
	Canon        int
}

type Finding struct {
	Harness  string            `json:"harness"`
	Kind     string            `json:"kind"` // assert | panic
	Label    string            `json:"label"`
	Model    map[string]uint64 `json:"model"`
	Region   string            `json:"region,omitempty"`   // known-finding id when inside a declared region
	InRegion bool              `json:"in_region"`          // counterexample lies inside the region
	Site     string            `json:"site,omitempty"`     // source position
	Observed map[string]string `json:"observed,omitempty"` // engine-predicted observations under the model
}

type Options struct {
	MaxStates      int
	MaxInstrs      int
	MaxBackedges   int
	QueryMs        int
	Zone           int // 0 UTC, 1 fixed offset, 2 two-interval
	Seed           int64
	NoForkCheck    bool
	NoMerge        bool
	Trace          bool
	ValidateModels int
	NoSlice        bool
	MergeDebug     bool
	JSONStrict     bool
	DeadlineS      int
	OpaqueNumbers  bool
}

// Engine: one per harness run.
type Engine struct {
	prog        *ssa.Program
	tc          *TermCtx
	sol         *Solver
	opt         Options
	globals     map[*ssa.Global]ObjID
	base        map[ObjID]Value
	nextGlob    ObjID
	fnInfos     map[*ssa.Function]*fnInfo
	stats       Stats
	findings    []Finding
	harness     string
	timeUnder   types.Type
	storeHook   func(s *State, p PtrV)
	funcsSeen   map[string]bool // repo functions executed
	stubsUsed   map[string]bool
	assumes     []string
	reachAll    map[string]bool // labels seen in harness code paths
	reachSat    map[string]bool
	pathModels  []PathModel // models of complete harness paths for translator validation
	errSeq      int
	inInit      bool
	zone        *zoneModel
	repoPrefix  string
	deadline    time.Time
	initNext    ObjID
	extra       map[string]interface{}
	varCache    map[*Term][]uint32
	viewCopies  map[ObjID]bool
	funIDs      map[string]uint32
	zv          *zoneView
	summaries   map[string]bool
	jdocs       []*jdoc // abstract JSON documents (stubs_jsondoc.go)
	lazySpawn   bool // verifLazySpawn: goroutines start when the main thread blocks
	timedSleeps bool // time.Sleep in a goroutine parks it on a timer (verifTimedSleeps)
	zoneTable   []ZoneRow
}

type PathModel struct {
	Model    map[string]uint64 `json:"model"`
	Observed map[string]string `json:"observed"`
	Reached  []string          `json:"reached"`
}

var guardOtherZoneOnce sync.Once

func NewEngine(prog *ssa.Program, opt Options, harness string) *Engine {
	guardOtherZoneOnce.Do(guardOtherZone)
	if opt.MaxStates == 0 {
		opt.MaxStates = 20000
	}
	if opt.MaxInstrs == 0 {
		opt.MaxInstrs = 5000000
	}
	if opt.MaxBackedges == 0 {
		opt.MaxBackedges = 4096
	}
	if opt.QueryMs == 0 {
		opt.QueryMs = 60000
	}
	tc := NewTermCtx()
	e := &Engine{
		prog:       prog,
		tc:         tc,
		sol:        NewSolver(tc, opt.QueryMs),
		opt:        opt,
		globals:    map[*ssa.Global]ObjID{},
		base:       map[ObjID]Value{},
		nextGlob:   1,
		fnInfos:    map[*ssa.Function]*fnInfo{},
		harness:    harness,
		funcsSeen:  map[string]bool{},
		stubsUsed:  map[string]bool{},
		reachAll:   map[string]bool{},
		reachSat:   map[string]bool{},
		repoPrefix: "github.com/uhppoted/uhppote-core",
		extra:      map[string]interface{}{},
		varCache:   map[*Term][]uint32{},
		viewCopies: map[ObjID]bool{},
		funIDs:     map[string]uint32{},
		summaries:  map[string]bool{},
	}
	e.sol.Harness = harness
	e.sol.Incremental = os.Getenv("VERIF_INCREMENTAL") != "0"
	if tp := prog.ImportedPackage("time"); tp != nil {
		if o := tp.Pkg.Scope().Lookup("Time"); o != nil {
			e.timeUnder = o.Type().Underlying()
		}
	}
	e.zone = newZoneModel(e)
	if opt.DeadlineS > 0 {
		e.deadline = time.Now().Add(time.Duration(opt.DeadlineS) * time.Second)
	}
	return e
}

func (e *Engine) Close() { e.sol.Close() }

func (e *Engine) Stats() Stats            { return e.stats }
func (e *Engine) Findings() []Finding     { return e.findings }
func (e *Engine) Solver() *Solver         { return e.sol }
func (e *Engine) TermCtx() *TermCtx       { return e.tc }
func (e *Engine) PathModels() []PathModel { return e.pathModels }
func (e *Engine) FuncsSeen() []string {
	var out []string
	for k := range e.funcsSeen {
		out = append(out, k)
	}
	sort.Strings(out)
	return out
}
func (e *Engine) StubsUsed() []string {
	var out []string
	for k := range e.stubsUsed {
		out = append(out, k)
	}
	sort.Strings(out)
	return out
}
func (e *Engine) Assumes() []string                 { return e.assumes }
func (e *Engine) Reach() (all, sat map[string]bool) { return e.reachAll, e.reachSat }

// globalObj returns the heap object id holding global g (allocated lazily in the base heap).
func (e *Engine) globalObj(g *ssa.Global) ObjID {
	if id, ok := e.globals[g]; ok {
		return id
	}
	id := e.nextGlob
	e.nextGlob++
	e.globals[g] = id
	e.base[id] = e.initialGlobal(g)
	return id
}

func (e *Engine) isRepoPkg(p *ssa.Package) bool {
	return p != nil && strings.HasPrefix(p.Pkg.Path(), e.repoPrefix)
}

// initialGlobal gives the value of a global before any init code has run, and
// engine-provided values for the standard-library globals the repo reads.
func (e *Engine) initialGlobal(g *ssa.Global) Value {
	t := g.Type().(*types.Pointer).Elem()
	name := g.Pkg.Pkg.Path() + "." + g.Name()
	switch name {
	case "time.Local":
		return LocV{Kind: 2}
	case "time.UTC":
		return LocV{Kind: 1}
	case "net.IPv4bcast":
		return e.constBytesGlobal([]byte{0, 0, 0, 0, 0, 0, 0, 0, 0, 0, 0xff, 0xff, 255, 255, 255, 255})
	case "net.IPv4zero":
		return e.constBytesGlobal([]byte{0, 0, 0, 0, 0, 0, 0, 0, 0, 0, 0xff, 0xff, 0, 0, 0, 0})
	case "net.v4InV6Prefix":
		return e.constBytesGlobal([]byte{0, 0, 0, 0, 0, 0, 0, 0, 0, 0, 0xff, 0xff})
	case "net.ErrClosed":
		// the sentinel the socket model's "use of closed network connection" errors match (errors.Is)
		return IfaceV{T: e.errType(), V: ErrV{ID: "net:use of closed network connection", Msg: StrV{Opaque: true, Note: "use of closed network connection", MinLen: 1}, Sentinel: true}}
	case "os.ErrDeadlineExceeded":
		return IfaceV{T: e.errType(), V: ErrV{ID: "net:i/o timeout", Msg: StrV{Opaque: true, Note: "i/o timeout", MinLen: 1}, Sentinel: true}}
	case "net/netip.z0":
		return e.zero(t)
	case "net/netip.z4":
		return e.uniqueHandle(t, "z4")
	case "net/netip.z6noz":
		return e.uniqueHandle(t, "z6noz")
	}
	return e.zero(t)
}

func (e *Engine) constBytesGlobal(b []byte) Value {
	el := make([]Value, len(b))
	for i, x := range b {
		el[i] = e.tc.BV(uint64(x), 8)
	}
	id := e.nextGlob
	e.nextGlob++
	e.base[id] = ArrayV{E: el}
	return SliceV{Obj: id, Len: e.tc.BV(uint64(len(b)), 64), Cap: len(b)}
}

// uniqueHandle builds a unique.Handle[T] value whose pointer identifies a fresh object.
func (e *Engine) uniqueHandle(t types.Type, which string) Value {
	st, ok := t.Underlying().(*types.Struct)
	if !ok || st.NumFields() != 1 {
		panic(unsupported("unexpected shape of unique.Handle: " + t.String()))
	}
	pt := st.Field(0).Type().(*types.Pointer)
	id := e.nextGlob
	e.nextGlob++
	obj := e.zero(pt.Elem())
	if which == "z6noz" {
		// addrDetail{isV6: true}
		if sv, ok := obj.(StructV); ok && len(sv.F) >= 1 {
			f := append([]Value{}, sv.F...)
			f[0] = e.tc.True
			obj = StructV{F: f}
		}
	}
	e.base[id] = obj
	return StructV{F: []Value{PtrV{Obj: id}}}
}

// RunInit executes the package initialisers of the repo packages (concretely).
func (e *Engine) RunInit(pkgs []*ssa.Package) error {
	e.inInit = true
	defer func() { e.inInit = false }()
	st := e.newState()
	for _, p := range pkgs {
		if p == nil || !e.isRepoPkg(p) {
			continue
		}
		initFn := p.Func("init")
		if initFn == nil {
			continue
		}
		exits, err := e.safeRun(st, initFn, nil)
		if err != nil {
			return fmt.Errorf("init of %s: %v", p.Pkg.Path(), err)
		}
		if len(exits) != 1 || exits[0].kind != exitReturn {
			return fmt.Errorf("init of %s: %d exits", p.Pkg.Path(), len(exits))
		}
		st = exits[0].st
	}
	// fold the init state's heap into the base heap
	for id, v := range st.heap {
		e.base[id] = v
	}
	e.initNext = st.next
	e.stats = Stats{}
	e.funcsSeen = map[string]bool{}
	return nil
}

func (e *Engine) safeRun(st *State, fn *ssa.Function, args []Value) (exits []exit, err error) {
	defer func() {
		if r := recover(); r != nil {
			switch x := r.(type) {
			case unsupportedErr:
				err = x
			case unwindErr:
				err = x
			case budgetErr:
				err = x
			default:
				panic(r)
			}
		}
	}()
	exits = e.runFunction(st, fn, args, nil, 0)
	return
}

// RunHarness symbolically executes a parameterless harness function from a fresh state.
func (e *Engine) RunHarness(fn *ssa.Function) error {
	st := e.newState()
	if e.initNext > st.next {
		st.next = e.initNext
	}
	exits, err := e.safeRun(st, fn, nil)
	if err != nil {
		return err
	}
	for _, x := range exits {
		if x.kind == exitPanic {
			// already reported as a finding at the panic site
			continue
		}
		if len(x.st.mutexes) > 0 {
			e.addFinding(Finding{Kind: "assert", Label: "mutex still held at harness exit"})
		}
	}
	return nil
}
