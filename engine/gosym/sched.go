package gosym

// Goroutines as coroutines under one canonical schedule (DESIGN 3.6):
//
//   * `go f(...)` runs f at once, in the spawning thread, until it finishes or blocks in its top-level
//     frame (receive from an empty open channel, read from a socket with nothing to deliver); it is then
//     parked: (frame, index of the blocked instruction, object waited on) is stored in the state.
//   * an event on the object (send, close, socket close) resumes the parked goroutine in the acting
//     thread - the blocked instruction is re-executed - until it parks again or finishes; then the
//     acting thread continues.
//   * a thread that blocks while nothing can wake it is a deadlock: for the main thread this is reported
//     as a finding, elsewhere (a nested frame of a goroutine) it is UNSUPPORTED.
//
// This is one schedule, not all of them; it is used for pipelines that are deterministic by construction
// (unbuffered rendezvous with one consumer) and the claims say so.

import (
	"fmt"
	"go/token"
	"go/types"

	"golang.org/x/tools/go/ssa"
)

const exitPark = 2

// frameCont: one suspended frame of a parked goroutine.  The innermost frame re-executes its blocked
// instruction; an outer frame receives its callee's result in the call register and continues behind the call.
type frameCont struct {
	fr   *Frame
	idx  int
	call ssa.Value // outer frames: the call instruction whose callee is suspended (its register gets the result)
}

type parkedG struct {
	stack    []frameCont // innermost first
	wait     ObjID
	id       int
	timer    int64 // > 0: a time.Sleep in progress, ends at this instant of the goroutine's own timeline (ns)
	isSend   bool  // parked in a channel send
	waits    []ObjID // select: further channels whose readiness wakes the goroutine (receive cases)
	selIns   *ssa.Select // parked in a select with one send case: the instruction, the case and its channel
	selCase  int
	selSend  ObjID
	runnable bool  // lazy spawn: not started yet, runs when the main thread blocks (FIFO)
	sendVal  Value
	parkNext ObjID // allocation counter when parked (objects at or above were allocated later)
	clock    *Term // the goroutine's own clock when it parked (deterministic clock mode)
	what     string
}

// blockHere: the current thread cannot proceed at instruction idx of fr until something happens on obj.
func (e *Engine) blockHere(st *State, fr *Frame, idx int, obj ObjID, what string, pos token.Pos, exits *[]exit) {
	if st.gdepth > 0 {
		*exits = append(*exits, exit{st: st, kind: exitPark, park: &parkedG{stack: []frameCont{{fr: fr.clone(), idx: idx}}, wait: obj, id: st.gcur, parkNext: st.next, what: what}})
		return
	}
	// main thread: every other goroutine is parked (run-to-block).  If one of them is asleep, time passes until
	// the earliest sleeper wakes up; it runs until it blocks again, then the main thread retries.
	pg := firstRunnable(st)
	if pg == nil {
		pg = earliestTimer(st)
	}
	if pg != nil {
		var rest []*parkedG
		for _, p := range st.parked {
			if p != pg {
				rest = append(rest, p)
			}
		}
		st.parked = rest
		if pg.timer > 0 {
			st.vnow = pg.timer
		}
		var px []exit
		for _, s2 := range e.resumeG(st, pg, &px) {
			var q pqueue
			f2 := fr.clone()
			e.execBlock(s2, f2, idx, &q, exits)
			e.runLoop(&q, exits)
		}
		*exits = append(*exits, px...)
		return
	}
	e.stats.Obligations++
	label := "deadlock: " + what + " blocks forever"
	e.reportFailure(st, e.tc.True, "assert", label, pos)
}

func (p *parkedG) waitsOn(obj ObjID) bool {
	if p.selIns != nil && p.selSend == obj {
		return true
	}
	for _, w := range p.waits {
		if w == obj {
			return true
		}
	}
	return false
}

func firstRunnable(st *State) *parkedG {
	for _, p := range st.parked {
		if p.runnable {
			return p
		}
	}
	return nil
}

func earliestTimer(st *State) *parkedG {
	var best *parkedG
	for _, p := range st.parked {
		if p.timer > 0 && (best == nil || p.timer < best.timer) {
			best = p
		}
	}
	return best
}

// runLoop drives the per-function worklist until empty.
func (e *Engine) runLoop(q *pqueue, exits *[]exit) {
	for len(q.items) > 0 {
		group := q.popGroup()
		if len(group) > 1 && !e.opt.NoMerge {
			group = e.mergeGroup(group)
		}
		for _, it := range group {
			e.execBlock(it.st, it.fr, 0, q, exits)
		}
	}
}

// spawn runs a new goroutine to its first blocking point; returns the states in which the spawning
// thread continues.  Panics of the goroutine are appended to exits (they crash the program).
func (e *Engine) spawn(st *State, fr *Frame, fv Value, args []Value, c *ssa.CallCommon, exits *[]exit) []*State {
	var fn *ssa.Function
	var free []Value
	switch f := fv.(type) {
	case FuncV:
		if f.Fn == nil || f.Builtin != nil || f.Native != "" {
			panic(unsupported("go statement on a builtin / nil function"))
		}
		fn, free = f.Fn, f.Free
	case invokeMarker:
		recv, ok := args[0].(IfaceV)
		if !ok || recv.T == nil {
			panic(unsupported("go statement on a nil interface method"))
		}
		fn = e.prog.LookupMethod(recv.T, f.m.Pkg(), f.m.Name())
		if fn == nil {
			panic(unsupported("go statement: method not found"))
		}
		args = append([]Value{recv.V}, args[1:]...)
	default:
		panic(unsupported(fmt.Sprintf("go statement on %T", fv)))
	}
	if _, ok := stubs[fn.String()]; ok || len(fn.Blocks) == 0 {
		panic(unsupported("go statement on a modelled function: " + fn.String()))
	}
	st.gseq++
	gid := st.gseq
	g := &Frame{fn: fn, info: e.info(fn), regs: map[ssa.Value]Value{}, block: fn.Blocks[0], depth: fr.depth + 1, entryNext: st.next, gtop: true, gid: gid}
	for i, p := range fn.Params {
		if i < len(args) {
			g.regs[p] = args[i]
		}
	}
	for i, v := range fn.FreeVars {
		g.regs[v] = free[i]
	}
	if e.isRepoPkg(fn.Pkg) || (fn.Parent() != nil && e.isRepoPkg(fn.Parent().Pkg)) {
		e.funcsSeen[fn.String()] = true
	}
	if e.lazySpawn {
		// the other canonical schedule: a new goroutine does not run until the main thread blocks
		e.stubsUsed["goroutines: lazy-start schedule (a goroutine first runs when the main thread blocks, in spawn order)"] = true
		st.parked = append(st.parked[:len(st.parked):len(st.parked)], &parkedG{stack: []frameCont{{fr: g, idx: 0}}, id: gid, parkNext: st.next, what: "not started", runnable: true, clock: st.clock})
		return []*State{st}
	}
	e.stubsUsed["goroutines: canonical run-to-block schedule (one schedule, not all)"] = true
	return e.runG(st, &parkedG{stack: []frameCont{{fr: g, idx: 0}}, id: gid}, exits)
}

// runG runs the suspended goroutine pg (its innermost frame from the recorded instruction, outer frames
// behind their calls) until it parks again or ends; returns the states in which the acting thread continues.
func (e *Engine) runG(st *State, pg *parkedG, exits *[]exit) []*State {
	// every thread has its own clock: waiting in one goroutine does not delay another; a wake-up carries the
	// waker's time over (the woken goroutine cannot run before the event that woke it)
	caller, callerG := st.clock, st.gcur
	if pg.clock != nil && caller != nil {
		st.clock = e.tc.Ite(e.tc.BVSlt(caller, pg.clock), pg.clock, caller)
	}
	st.gdepth++
	st.gcur = pg.id
	type lvl struct {
		st  *State
		val Value
	}
	cur := []lvl{{st: st}}
	var out []*State
	done := func(x exit) {
		x.st.gdepth--
		x.st.gcur = callerG
		if caller != nil {
			x.st.clock = caller
		}
	}
	for level, fc := range pg.stack {
		var next []lvl
		for _, c := range cur {
			f := fc.fr.clone()
			start := fc.idx
			if level > 0 {
				if fc.call != nil {
					f.regs[fc.call] = c.val
				}
				start = fc.idx + 1
			}
			var q pqueue
			var gx []exit
			e.execBlock(c.st, f, start, &q, &gx)
			e.runLoop(&q, &gx)
			for _, x := range gx {
				switch x.kind {
				case exitReturn:
					next = append(next, lvl{st: x.st, val: x.val})
				case exitPark:
					// parked again somewhere below this frame: the outer frames stay suspended behind it
					np := *x.park
					np.stack = append(append([]frameCont{}, x.park.stack...), pg.stack[level+1:]...)
					np.id = pg.id
					np.clock = x.st.clock
					done(x)
					x.st.parked = append(x.st.parked[:len(x.st.parked):len(x.st.parked)], &np)
					out = append(out, x.st)
				case exitPanic:
					done(x)
					*exits = append(*exits, exit{st: x.st, kind: exitPanic, pmsg: x.pmsg})
				}
			}
		}
		cur = next
	}
	for _, c := range cur {
		// the goroutine's outermost function returned: the goroutine has ended
		done(exit{st: c.st})
		out = append(out, c.st)
	}
	return out
}

func (e *Engine) resumeG(st *State, pg *parkedG, exits *[]exit) []*State {
	g := *pg
	g.stack = append([]frameCont{}, pg.stack...)
	f := pg.stack[0].fr.clone()
	f.entryNext = st.next // canonicalisation inside this activation must leave older objects alone
	g.stack[0].fr = f
	if pg.timer > 0 && st.clock != nil {
		_ = st // sleeping goroutines keep their own clock
	}
	g.timer = 0
	g.runnable = false
	return e.runG(st, &g, exits)
}

// resumeGAt: resume with the stack as given (the caller has already positioned the innermost frame).
func (e *Engine) resumeGAt(st *State, g *parkedG, exits *[]exit) []*State {
	f := g.stack[0].fr.clone()
	f.entryNext = st.next
	g.stack[0].fr = f
	g.timer = 0
	return e.runG(st, g, exits)
}

// wake resumes, one after the other, the goroutines parked on obj (in every resulting state).
func (e *Engine) wake(st *State, obj ObjID, exits *[]exit) []*State {
	var ids []int
	for _, p := range st.parked {
		if (p.wait == obj || p.waitsOn(obj)) && p.timer == 0 && !p.runnable {
			ids = append(ids, p.id)
		}
	}
	states := []*State{st}
	for _, id := range ids {
		var next []*State
		for _, s := range states {
			var pg *parkedG
			rest := make([]*parkedG, 0, len(s.parked))
			for _, p := range s.parked {
				if p.id == id && pg == nil {
					pg = p
				} else {
					rest = append(rest, p)
				}
			}
			if pg == nil {
				next = append(next, s)
				continue
			}
			s.parked = rest
			next = append(next, e.resumeG(s, pg, exits)...)
		}
		states = next
	}
	return states
}

func (e *Engine) hasWaiter(st *State, obj ObjID) bool {
	for _, p := range st.parked {
		recvWait := p.wait == obj
		for _, w := range p.waits {
			if w == obj {
				recvWait = true
			}
		}
		if recvWait && !p.isSend && p.timer == 0 && !p.runnable {
			return true
		}
	}
	return false
}

func parkedSender(st *State, obj ObjID) *parkedG {
	for _, p := range st.parked {
		if (p.wait == obj && p.isSend) || (p.selIns != nil && p.selSend == obj) {
			return p
		}
	}
	return nil
}

// behindSend positions a parked sender behind its send (a plain send, or the send case of a select, whose
// result register is filled in) once a receiver has taken its value.
func (e *Engine) behindSend(ps *parkedG) *parkedG {
	g := *ps
	g.stack = append([]frameCont{}, ps.stack...)
	if ps.selIns != nil {
		f := g.stack[0].fr.clone()
		f.regs[ps.selIns] = e.selectResult(ps.selIns, ps.selCase, e.tc.False, nil)
		g.stack[0].fr = f
	}
	g.stack[0].idx++
	g.isSend, g.sendVal = false, nil
	g.selIns, g.selSend, g.waits = nil, 0, nil
	return &g
}

// selectResult: the tuple a select yields: index, recvOk, then one value per receive case.
func (e *Engine) selectResult(x *ssa.Select, chosen int, okV Value, val Value) TupleV {
	tv := TupleV{e.bv64(int64(chosen)), okV}
	for i, sc := range x.States {
		if sc.Dir != types.RecvOnly {
			continue
		}
		et := sc.Chan.Type().Underlying().(*types.Chan).Elem()
		if i == chosen && val != nil {
			tv = append(tv, val)
		} else {
			tv = append(tv, e.zero(et))
		}
	}
	return tv
}

// schedSend: ch <- v.
func (e *Engine) schedSend(st *State, fr *Frame, idx int, ch ChanV, v Value, pos token.Pos, exits *[]exit) []*State {
	if ch.Obj == 0 {
		e.blockHere(st, fr, idx, 0, "send on a nil channel", pos, exits)
		return nil
	}
	co := e.obj(st, ch.Obj).(*ChanObj)
	if co.Closed {
		e.reportPanic(st, e.tc.True, "send on closed channel", pos)
		*exits = append(*exits, exit{st: st, kind: exitPanic, pmsg: "send on closed channel"})
		return nil
	}
	if len(co.Buf) < co.Cap {
		n := *co
		n.Buf = append(append([]Value{}, co.Buf...), v)
		st.heap[ch.Obj] = &n
		return e.wake(st, ch.Obj, exits)
	}
	if !e.hasWaiter(st, ch.Obj) {
		if st.gdepth > 0 {
			// park as a sender: a receiver that arrives takes the value and lets the sender continue behind
			// the send; closing the channel makes the re-executed send panic
			*exits = append(*exits, exit{st: st, kind: exitPark, park: &parkedG{stack: []frameCont{{fr: fr.clone(), idx: idx}}, wait: ch.Obj, id: st.gcur, parkNext: st.next, what: "channel send", isSend: true, sendVal: v}})
			return nil
		}
		e.blockHere(st, fr, idx, ch.Obj, "channel send (no receiver)", pos, exits)
		return nil
	}
	// rendezvous: hand the value to the parked receiver
	n := *co
	n.Buf = append(append([]Value{}, co.Buf...), v)
	n.Handoff++
	st.heap[ch.Obj] = &n
	var out []*State
	for _, s := range e.wake(st, ch.Obj, exits) {
		c2 := e.obj(s, ch.Obj).(*ChanObj)
		if c2.Handoff > 0 {
			panic(unsupported("channel send: the receiver did not take the value (" + e.posString(pos) + ")"))
		}
		out = append(out, s)
	}
	return out
}

// schedRecv: <-ch.  ok=false: the thread blocked (parked or path ended).
func (e *Engine) schedRecv(st *State, fr *Frame, idx int, x *ssa.UnOp, exits *[]exit) (Value, bool) {
	ch := e.get(fr, x.X).(ChanV)
	if ch.Obj == 0 {
		e.blockHere(st, fr, idx, 0, "receive from a nil channel", x.Pos(), exits)
		return nil, false
	}
	co := e.obj(st, ch.Obj).(*ChanObj)
	var et types.Type = x.Type()
	if tt, ok := et.(*types.Tuple); ok {
		et = tt.At(0).Type()
	}
	if len(co.Buf) > 0 {
		n := *co
		v := co.Buf[0]
		n.Buf = append([]Value{}, co.Buf[1:]...)
		if n.Handoff > 0 {
			n.Handoff--
		}
		if co.ReadyAt != nil {
			if st.clock != nil {
				st.clock = e.tc.Ite(e.tc.BVSlt(st.clock, co.ReadyAt), co.ReadyAt, st.clock)
			}
			n.ReadyAt = nil
		}
		st.heap[ch.Obj] = &n
		if x.CommaOk {
			return TupleV{v, e.tc.True}, true
		}
		return v, true
	}
	if co.Closed {
		if x.CommaOk {
			return TupleV{e.zero(et), e.tc.False}, true
		}
		return e.zero(et), true
	}
	if ps := parkedSender(st, ch.Obj); ps != nil {
		// rendezvous with a parked sender: take its value; the sender continues behind its send (it runs, in
		// this thread, until it blocks again) before the receiver goes on
		var rest []*parkedG
		for _, p := range st.parked {
			if p != ps {
				rest = append(rest, p)
			}
		}
		st.parked = rest
		g := e.behindSend(ps)
		var px []exit
		states := e.resumeGAt(st, g, &px)
		*exits = append(*exits, px...)
		val := ps.sendVal
		for k, s2 := range states {
			f2 := fr
			if k < len(states)-1 {
				f2 = fr.clone()
			}
			if x.CommaOk {
				f2.regs[x] = TupleV{val, e.tc.True}
			} else {
				f2.regs[x] = val
			}
			var q pqueue
			e.execBlock(s2, f2, idx+1, &q, exits)
			e.runLoop(&q, exits)
		}
		return nil, false
	}
	e.blockHere(st, fr, idx, ch.Obj, "channel receive", x.Pos(), exits)
	return nil, false
}

// parkedEqual: the two states have the same parked goroutines (needed for merging).
func parkedEqual(a, b []*parkedG) bool {
	if len(a) != len(b) {
		return false
	}
	for i := range a {
		if a[i] == b[i] {
			continue
		}
		x, y := a[i], b[i]
		if x.id != y.id || x.wait != y.wait || x.timer != y.timer || x.isSend != y.isSend || x.runnable != y.runnable || len(x.waits) != len(y.waits) || x.selIns != y.selIns || x.selCase != y.selCase || len(x.stack) != len(y.stack) || !valEqual(x.sendVal, y.sendVal) {
			return false
		}
		for l := range x.stack {
			fx, fy := x.stack[l], y.stack[l]
			if fx.idx != fy.idx || fx.call != fy.call || fx.fr.fn != fy.fr.fn || fx.fr.block != fy.fr.block || len(fx.fr.regs) != len(fy.fr.regs) || len(fx.fr.defers) != len(fy.fr.defers) {
				return false
			}
			for k, v := range fx.fr.regs {
				w, ok := fy.fr.regs[k]
				if !ok || !valEqual(v, w) {
					return false
				}
			}
			for j := range fx.fr.defers {
				if !valEqual(fx.fr.defers[j].fn, fy.fr.defers[j].fn) {
					return false
				}
			}
		}
	}
	return true
}

// schedSelect: the select statement.  A case is ready when its channel has a buffered value, is closed, has a
// parked sender (receive cases), or has room / a parked receiver (send cases).  With the deterministic clock on,
// every ready case has an instant at which it became (or becomes) ready - a time.After channel at its deadline,
// a parked sender at the sender's own clock, anything else now - and the earliest one is taken (ties: the
// first in source order), the clock moving on to that instant; without the clock every ready case is explored.
// Nothing ready: the default case if there is one, otherwise the thread waits on all receive channels.
func (e *Engine) schedSelect(st *State, fr *Frame, idx int, x *ssa.Select, q *pqueue, exits *[]exit) {
	c := e.tc
	type rcase struct {
		i    int
		kind int // 1 buffered, 2 closed, 3 parked sender, 4 send: room, 5 send: closed, 6 send: rendezvous
		at   *Term
		ch   ChanV
		ps   *parkedG
	}
	var ready []rcase
	var recvObjs []ObjID
	handoff := -1
	for i, sc := range x.States {
		ch, _ := e.get(fr, sc.Chan).(ChanV)
		if ch.Obj == 0 {
			continue // a nil channel is never ready
		}
		co := e.obj(st, ch.Obj).(*ChanObj)
		if sc.Dir == types.RecvOnly {
			recvObjs = append(recvObjs, ch.Obj)
			switch {
			case len(co.Buf) > 0:
				ready = append(ready, rcase{i: i, kind: 1, at: co.ReadyAt, ch: ch})
				if co.Handoff > 0 {
					handoff = len(ready) - 1
				}
			case co.Closed:
				ready = append(ready, rcase{i: i, kind: 2, ch: ch})
			default:
				if ps := parkedSender(st, ch.Obj); ps != nil {
					ready = append(ready, rcase{i: i, kind: 3, at: ps.clock, ch: ch, ps: ps})
				}
			}
		} else {
			switch {
			case co.Closed:
				ready = append(ready, rcase{i: i, kind: 5, ch: ch})
			case len(co.Buf) < co.Cap:
				ready = append(ready, rcase{i: i, kind: 4, ch: ch})
			case e.hasWaiter(st, ch.Obj):
				ready = append(ready, rcase{i: i, kind: 6, ch: ch})
			}
		}
	}
	if handoff >= 0 {
		ready = []rcase{ready[handoff]} // a value handed to this thread by a sender must be taken
	}
	result := func(chosen int, okV Value, val Value) TupleV { return e.selectResult(x, chosen, okV, val) }
	cont := func(s *State, f *Frame, tv TupleV) {
		f.regs[x] = tv
		e.execBlock(s, f, idx+1, q, exits)
	}
	if len(ready) == 0 {
		if !x.Blocking {
			cont(st, fr, result(-1, c.False, nil))
			return
		}
		if st.gdepth > 0 {
			pg := &parkedG{stack: []frameCont{{fr: fr.clone(), idx: idx}}, id: st.gcur, parkNext: st.next, what: "select"}
			if len(recvObjs) > 0 {
				pg.wait, pg.waits = recvObjs[0], recvObjs[1:]
			}
			nsend := 0
			for i, sc := range x.States {
				if sc.Dir == types.RecvOnly {
					continue
				}
				if ch, _ := e.get(fr, sc.Chan).(ChanV); ch.Obj != 0 {
					nsend++
					pg.selIns, pg.selCase, pg.selSend, pg.sendVal = x, i, ch.Obj, e.get(fr, sc.Send)
				}
			}
			if nsend > 1 {
				panic(unsupported("select that blocks with more than one send case"))
			}
			*exits = append(*exits, exit{st: st, kind: exitPark, park: pg})
			return
		}
		e.blockHere(st, fr, idx, 0, "select", x.Pos(), exits)
		return
	}
	take := func(s *State, f *Frame, rc rcase) {
		sc := x.States[rc.i]
		co := e.obj(s, rc.ch.Obj).(*ChanObj)
		if s.clock != nil && rc.at != nil {
			s.clock = c.Ite(c.BVSlt(s.clock, rc.at), rc.at, s.clock)
		}
		switch rc.kind {
		case 1:
			n := *co
			v := co.Buf[0]
			n.Buf = append([]Value{}, co.Buf[1:]...)
			if n.Handoff > 0 {
				n.Handoff--
			}
			n.ReadyAt = nil
			s.heap[rc.ch.Obj] = &n
			cont(s, f, result(rc.i, c.True, v))
		case 2:
			cont(s, f, result(rc.i, c.False, nil))
		case 3:
			var ps *parkedG
			var rest []*parkedG
			for _, p := range s.parked {
				if ps == nil && p.id == rc.ps.id {
					ps = p
				} else {
					rest = append(rest, p)
				}
			}
			if ps == nil {
				panic(unsupported("select: the parked sender has gone"))
			}
			s.parked = rest
			g := e.behindSend(ps)
			var px []exit
			states := e.resumeGAt(s, g, &px)
			*exits = append(*exits, px...)
			for k, s2 := range states {
				f2 := f
				if k < len(states)-1 {
					f2 = f.clone()
				}
				cont(s2, f2, result(rc.i, c.True, ps.sendVal))
			}
		case 4, 6:
			v := e.get(f, sc.Send)
			n := *co
			n.Buf = append(append([]Value{}, co.Buf...), v)
			if rc.kind == 6 {
				n.Handoff++
			}
			s.heap[rc.ch.Obj] = &n
			states := e.wake(s, rc.ch.Obj, exits)
			for k, s2 := range states {
				f2 := f
				if k < len(states)-1 {
					f2 = f.clone()
				}
				cont(s2, f2, result(rc.i, c.False, nil))
			}
		case 5:
			e.reportPanic(s, c.True, "send on closed channel", sc.Pos)
			*exits = append(*exits, exit{st: s, kind: exitPanic, pmsg: "send on closed channel"})
		}
	}
	e.stubsUsed["select: every case that can be the first to be ready on the deterministic clock is explored; without the clock every ready case"] = true
	if len(ready) == 1 {
		take(st, fr, ready[0])
		return
	}
	if st.clock == nil {
		for k, rc := range ready {
			s2, f2 := st, fr
			if k < len(ready)-1 {
				s2, f2 = st.fork(), fr.clone()
				e.stats.States++
			}
			take(s2, f2, rc)
		}
		return
	}
	eff := make([]*Term, len(ready))
	for k, rc := range ready {
		eff[k] = st.clock
		if rc.at != nil {
			eff[k] = c.Ite(c.BVSlt(st.clock, rc.at), rc.at, st.clock)
		}
	}
	// every case that is (possibly) first is explored: Go chooses among simultaneously ready cases at random
	var feas []int
	conds := make([]*Term, len(ready))
	for k := range ready {
		first := c.True
		for j := range ready {
			if j != k {
				first = c.And(first, c.BVSle(eff[k], eff[j]))
			}
		}
		conds[k] = first
		if first.IsTrue() || e.feasible(st, first, "select case is ready first") {
			feas = append(feas, k)
		}
	}
	for n, k := range feas {
		s2, f2 := st, fr
		if n < len(feas)-1 {
			s2, f2 = st.fork(), fr.clone()
			e.stats.States++
		}
		s2.assume(conds[k])
		take(s2, f2, ready[k])
	}
}
