package gosym

// Goroutines as coroutines under one canonical schedule (DESIGN 3.6):
//
//   * `go f(...)` runs f at once, in the spawning thread, until it finishes or blocks in its top-level
//     frame (receive from an empty open channel, read from a socket with nothing to deliver); it is then
//     parked: (frame, index of the blocked instruction, object waited on) is stored in the state.
//   * an event on the object (send, close, socket close) resumes the parked goroutine in the acting
//     thread - the blocked instruction is re-executed - until it parks again or finishes; then the
//     acting thread continues.
//   * a thread that blocks while nothing can wake it is a deadlock: for the main thread this is reported
//     as a finding, elsewhere (a nested frame of a goroutine) it is UNSUPPORTED.
//
// This is one schedule, not all of them; it is used for pipelines that are deterministic by construction
// (unbuffered rendezvous with one consumer) and the claims say so.

import (
	"fmt"
	"go/token"
	"go/types"

	"golang.org/x/tools/go/ssa"
)

const exitPark = 2

type parkedG struct {
	fr       *Frame
	idx      int
	wait     ObjID
	id       int
	parkNext ObjID // allocation counter when parked (objects at or above were allocated later)
	clock    *Term // the goroutine's own clock when it parked (deterministic clock mode)
	what     string
}

// blockHere: the current thread cannot proceed at instruction idx of fr until something happens on obj.
func (e *Engine) blockHere(st *State, fr *Frame, idx int, obj ObjID, what string, pos token.Pos, exits *[]exit) {
	if fr.gtop {
		*exits = append(*exits, exit{st: st, kind: exitPark, park: &parkedG{fr: fr.clone(), idx: idx, wait: obj, id: fr.gid, parkNext: st.next, what: what}})
		return
	}
	if st.gdepth == 0 {
		// main thread: every other goroutine is parked (run-to-block), so nothing can wake it
		e.stats.Obligations++
		label := "deadlock: " + what + " blocks forever"
		e.reportFailure(st, e.tc.True, "assert", label, pos)
		return
	}
	panic(unsupported("goroutine blocks in a nested frame (" + what + " at " + e.posString(pos) + ")"))
}

// runLoop drives the per-function worklist until empty.
func (e *Engine) runLoop(q *pqueue, exits *[]exit) {
	for len(q.items) > 0 {
		group := q.popGroup()
		if len(group) > 1 && !e.opt.NoMerge {
			group = e.mergeGroup(group)
		}
		for _, it := range group {
			e.execBlock(it.st, it.fr, 0, q, exits)
		}
	}
}

// spawn runs a new goroutine to its first blocking point; returns the states in which the spawning
// thread continues.  Panics of the goroutine are appended to exits (they crash the program).
func (e *Engine) spawn(st *State, fr *Frame, fv Value, args []Value, c *ssa.CallCommon, exits *[]exit) []*State {
	var fn *ssa.Function
	var free []Value
	switch f := fv.(type) {
	case FuncV:
		if f.Fn == nil || f.Builtin != nil || f.Native != "" {
			panic(unsupported("go statement on a builtin / nil function"))
		}
		fn, free = f.Fn, f.Free
	case invokeMarker:
		recv, ok := args[0].(IfaceV)
		if !ok || recv.T == nil {
			panic(unsupported("go statement on a nil interface method"))
		}
		fn = e.prog.LookupMethod(recv.T, f.m.Pkg(), f.m.Name())
		if fn == nil {
			panic(unsupported("go statement: method not found"))
		}
		args = append([]Value{recv.V}, args[1:]...)
	default:
		panic(unsupported(fmt.Sprintf("go statement on %T", fv)))
	}
	if _, ok := stubs[fn.String()]; ok || len(fn.Blocks) == 0 {
		panic(unsupported("go statement on a modelled function: " + fn.String()))
	}
	st.gseq++
	gid := st.gseq
	g := &Frame{fn: fn, info: e.info(fn), regs: map[ssa.Value]Value{}, block: fn.Blocks[0], depth: fr.depth + 1, entryNext: st.next, gtop: true, gid: gid}
	for i, p := range fn.Params {
		if i < len(args) {
			g.regs[p] = args[i]
		}
	}
	for i, v := range fn.FreeVars {
		g.regs[v] = free[i]
	}
	if e.isRepoPkg(fn.Pkg) || (fn.Parent() != nil && e.isRepoPkg(fn.Parent().Pkg)) {
		e.funcsSeen[fn.String()] = true
	}
	e.stubsUsed["goroutines: canonical run-to-block schedule (one schedule, not all)"] = true
	return e.runG(st, g, 0, exits, nil)
}

// runG executes goroutine frame g from instruction idx of its current block until it parks or ends.
func (e *Engine) runG(st *State, g *Frame, idx int, exits *[]exit, gclock *Term) []*State {
	// every thread has its own clock: waiting in one goroutine does not delay another; a wake-up carries the
	// waker's time over (the woken goroutine cannot run before the event that woke it)
	caller := st.clock
	if gclock != nil && caller != nil {
		st.clock = e.tc.Ite(e.tc.BVSlt(caller, gclock), gclock, caller)
	}
	st.gdepth++
	var q pqueue
	var gx []exit
	e.execBlock(st, g, idx, &q, &gx)
	e.runLoop(&q, &gx)
	var out []*State
	for _, x := range gx {
		x.st.gdepth--
		switch x.kind {
		case exitReturn:
			if caller != nil {
				x.st.clock = caller
			}
			out = append(out, x.st)
		case exitPark:
			x.park.clock = x.st.clock
			if caller != nil {
				x.st.clock = caller
			}
			x.st.parked = append(x.st.parked[:len(x.st.parked):len(x.st.parked)], x.park)
			out = append(out, x.st)
		case exitPanic:
			*exits = append(*exits, exit{st: x.st, kind: exitPanic, pmsg: x.pmsg})
		}
	}
	return out
}

// wake resumes, one after the other, the goroutines parked on obj (in every resulting state).
func (e *Engine) wake(st *State, obj ObjID, exits *[]exit) []*State {
	var ids []int
	for _, p := range st.parked {
		if p.wait == obj {
			ids = append(ids, p.id)
		}
	}
	states := []*State{st}
	for _, id := range ids {
		var next []*State
		for _, s := range states {
			var pg *parkedG
			rest := make([]*parkedG, 0, len(s.parked))
			for _, p := range s.parked {
				if p.id == id && pg == nil {
					pg = p
				} else {
					rest = append(rest, p)
				}
			}
			if pg == nil {
				next = append(next, s)
				continue
			}
			s.parked = rest
			g := pg.fr.clone()
			g.entryNext = s.next // canonicalisation inside this activation must leave older objects alone
			next = append(next, e.runG(s, g, pg.idx, exits, pg.clock)...)
		}
		states = next
	}
	return states
}

func (e *Engine) hasWaiter(st *State, obj ObjID) bool {
	for _, p := range st.parked {
		if p.wait == obj {
			return true
		}
	}
	return false
}

// schedSend: ch <- v.
func (e *Engine) schedSend(st *State, fr *Frame, idx int, ch ChanV, v Value, pos token.Pos, exits *[]exit) []*State {
	if ch.Obj == 0 {
		e.blockHere(st, fr, idx, 0, "send on a nil channel", pos, exits)
		return nil
	}
	co := e.obj(st, ch.Obj).(*ChanObj)
	if co.Closed {
		e.reportPanic(st, e.tc.True, "send on closed channel", pos)
		*exits = append(*exits, exit{st: st, kind: exitPanic, pmsg: "send on closed channel"})
		return nil
	}
	if len(co.Buf) < co.Cap {
		n := *co
		n.Buf = append(append([]Value{}, co.Buf...), v)
		st.heap[ch.Obj] = &n
		return e.wake(st, ch.Obj, exits)
	}
	if !e.hasWaiter(st, ch.Obj) {
		e.blockHere(st, fr, idx, ch.Obj, "channel send (no receiver)", pos, exits)
		return nil
	}
	// rendezvous: hand the value to the parked receiver
	n := *co
	n.Buf = append(append([]Value{}, co.Buf...), v)
	n.Handoff++
	st.heap[ch.Obj] = &n
	var out []*State
	for _, s := range e.wake(st, ch.Obj, exits) {
		c2 := e.obj(s, ch.Obj).(*ChanObj)
		if c2.Handoff > 0 {
			panic(unsupported("channel send: the receiver did not take the value (" + e.posString(pos) + ")"))
		}
		out = append(out, s)
	}
	return out
}

// schedRecv: <-ch.  ok=false: the thread blocked (parked or path ended).
func (e *Engine) schedRecv(st *State, fr *Frame, idx int, x *ssa.UnOp, exits *[]exit) (Value, bool) {
	ch := e.get(fr, x.X).(ChanV)
	if ch.Obj == 0 {
		e.blockHere(st, fr, idx, 0, "receive from a nil channel", x.Pos(), exits)
		return nil, false
	}
	co := e.obj(st, ch.Obj).(*ChanObj)
	var et types.Type = x.Type()
	if tt, ok := et.(*types.Tuple); ok {
		et = tt.At(0).Type()
	}
	if len(co.Buf) > 0 {
		n := *co
		v := co.Buf[0]
		n.Buf = append([]Value{}, co.Buf[1:]...)
		if n.Handoff > 0 {
			n.Handoff--
		}
		st.heap[ch.Obj] = &n
		if x.CommaOk {
			return TupleV{v, e.tc.True}, true
		}
		return v, true
	}
	if co.Closed {
		if x.CommaOk {
			return TupleV{e.zero(et), e.tc.False}, true
		}
		return e.zero(et), true
	}
	e.blockHere(st, fr, idx, ch.Obj, "channel receive", x.Pos(), exits)
	return nil, false
}

// parkedEqual: the two states have the same parked goroutines (needed for merging).
func parkedEqual(a, b []*parkedG) bool {
	if len(a) != len(b) {
		return false
	}
	for i := range a {
		if a[i] == b[i] {
			continue
		}
		x, y := a[i], b[i]
		if x.id != y.id || x.idx != y.idx || x.wait != y.wait || x.fr.fn != y.fr.fn || x.fr.block != y.fr.block || len(x.fr.regs) != len(y.fr.regs) || len(x.fr.defers) != len(y.fr.defers) {
			return false
		}
		for k, v := range x.fr.regs {
			w, ok := y.fr.regs[k]
			if !ok || !valEqual(v, w) {
				return false
			}
		}
		for j := range x.fr.defers {
			if !valEqual(x.fr.defers[j].fn, y.fr.defers[j].fn) {
				return false
			}
		}
	}
	return true
}
