package main

// Per-property bounds and assumptions reported in the evidence (the data form of DESIGN.md section 6 / appendix B).

func boundsFor(prop, tier string) map[string]interface{} {
	b := map[string]interface{}{}
	th := tier == "thorough"
	switch prop {
	case "C12":
		b["string_length_n"] = "0..14"
		b["byte_slice_length_n"] = "0..10"
		if th {
			b["string_length_n"] = "0..32"
			b["byte_slice_length_n"] = "0..16"
		}
		b["bytes"] = "all 256 values per position (symbolic)"
		b["outside"] = "longer inputs (argued, not solved: the loops are position-independent)"
	}
	b["loop_unwinding"] = "by execution; 4096 back-edges per frame, exceeding it is reported as UNWIND (inconclusive)"
	b["budgets"] = "20000 states, 5000000 SSA instructions per harness; solver 60 s (quick) / 600 s (thorough) per query"
	return b
}

func assumptionsFor(prop string, stubs []string) []string {
	a := []string{
		"go/types + go/ssa (x/tools v0.29.0) give the semantics of the compiled code; the engine's instruction semantics mirror go/ssa/interp",
		"z3 4.8.12 (default), z3 5.1.0 and cvc5 1.0 as fall-backs; an (error line, unknown or timeout makes the check inconclusive",
		"counterexamples are reported only after native reproduction with go test -overlay",
	}
	for _, s := range stubs {
		a = append(a, "stub/model used: "+s)
	}
	return a
}
