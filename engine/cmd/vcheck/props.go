package main

// Per-property bounds and assumptions reported in the evidence (the data form of DESIGN.md section 6 / appendix B).

func boundsFor(prop, tier string) map[string]interface{} {
	b := map[string]interface{}{}
	th := tier == "thorough"
	pick := func(q, t string) string {
		if th {
			return t
		}
		return q
	}
	switch prop {
	case "C01":
		b["arguments"] = "all uint32 serial/card/index/passcode values, all uint8 door/profile/delay values, PIN 0..999999, IPv4 bytes, any AddrPort, nil and partial maps (symbolic presence per key)"
		b["dates"] = "zero date or any valid date 0001-01-02..9999-12-31; HH:mm 00:00..24:00; SetTime: any civil time, year 1..9999"
		b["zone"] = "any fixed offset -14h..+14h (symbolic)"
		b["history"] = pick("six operations after an earlier SetDoorPasscodes + SetListener call (own symbolic arguments) on the same or another client", "all 36 operation harnesses after such an earlier call")
		b["configuration"] = "debug printing on or off (symbolic)"
		b["outside"] = "sequences of more than two calls (argued: no state is carried by the request path)"
	case "C02":
		b["reply"] = "all 2^480 payloads behind a correct header (64 symbolic bytes)"
		b["zone"] = "any fixed offset; GetStatus system date-time also under the two-interval zone view (real-zone twin)"
		b["sequences"] = pick("GetTimeProfile, GetCardByIndex, GetEvent after an earlier successful call of the same operation", "+ GetStatus, GetDevice") + "; one event delivered by Listen (0x17 and 0x19)"
		b["outside"] = "years 0000/0001, two-digit system-date years 69..99"
	case "C03":
		b["datagrams"] = pick("k <= 2", "k <= 4") + " of symbolic length 0..2048 and content (seam); socket level: k <= " + pick("2", "3") + " datagrams / TCP chunks of length 0..96"
		b["operations"] = "GetCards, OpenDoor, GetStatus (seam, content); all 30 reply-bearing operations (accept/reject half); non-decimal date / date-time fields of the card, time, event, time-profile and status replies; GetCards over SendUDP, SendTCP, BroadcastTo (socket level)"
		b["outside"] = "longer datagram sequences (argued: the receive loop keeps no state but its deadline)"
	case "C04":
		b["replies"] = "symbolic length 0..2048 and content on four routes (broadcast filter, UDP, TCP nil reply, transport error)"
		b["arguments"] = "nil maps, nil / short IPs, invalid AddrPort, zero dates, enum values over their whole integer range; configured controllers without a time zone; years 10000, 12345, 99999, -1, -2023 (concrete)"
		b["debug_dump"] = "codec.Dump on byte strings of length 0..40"
		b["shutdown"] = "quit while one event is being delivered to a slow callback and a second one waits (timer-driven schedule)"
		b["outside"] = "years outside 0..9999; panics inside fmt / encoding/json internals (trusted)"
	case "C05":
		b["types"] = pick("65 message types round trip; 8 types unused-bytes independence", "65 message types, both")
		b["dispatch"] = "symbolic length 0..128, protocol id and function code (all 256)"
		b["zone"] = "any fixed offset; PutCardRequest dates also under the two-interval zone view (real-zone twin)"
		b["domain"] = "years 1..9999 plus the zero values; SystemDate 2000..2068; PIN 0..999999"
	case "C06":
		b["configuration"] = "device table entry present or not + one unrelated entry, address invalid / 0.0.0.0 / any IPv4, any port, protocol strings of length " + pick("0,3,4", "0..4") + " (symbolic bytes), broadcast address set or not"
		b["sockets"] = "bind address: not configured, 0.0.0.0:0, 0.0.0.0:P, 127.0.0.1:P with P in 20000..29999; all four driver methods"
		b["sequences"] = "after an earlier broadcast by another client with its own broadcast address; after an earlier successful SetAddress (any new IP) and discovery on the same client"
	case "C07":
		b["arguments"] = "all 2^32 card numbers, PINs, controller ids; format lists of length " + pick("0..2", "0..3") + " over all 256 CardFormat values; 0..6 passcodes over all uint32; HH:mm fields -9..99 and, separately, the legal domain 00:00..24:00; net.IP length 0..16; AddrPort kinds invalid/v4/v4-in-v6/v6"
		b["sequences"] = "PutCard after an earlier PutCard with its own card number and format"
	case "C09":
		b["timeout"] = "600 ms (fixed); arrivals >= 150 ms from the deadline, <= 3 timeouts out; slack 400 ms"
		b["datagrams"] = "k <= " + pick("2", "3") + ", length 0..96, symbolic content and arrival instants"
		b["faults"] = "open, write, connect may fail (address in use, refused); TCP connect takes a symbolic time up to beyond the timeout; bind port not configured or 127.0.0.1:P (P in 20000..29999); debug printing on or off"
		b["schedule"] = "one canonical run-to-block goroutine schedule; deterministic clock"
	case "C10":
		b["datagrams"] = "seam: k <= " + pick("2", "3") + " of length 0..2048; socket level: k <= " + pick("2", "3") + " of length 0..96"
		b["schedule"] = "canonical run-to-block schedule; lazy-start schedule (quit already signalled when the receive loop starts; a burst of " + pick("2", "3") + " events read back to back); timer-driven schedule (quit while an event is in flight)"
		b["zone"] = "UTC / any fixed offset; system date-time also under the two-interval zone view (real-zone twin)"
	case "C11":
		b["datagrams"] = "seam: k <= " + pick("2", "3") + " of length 0..2048; socket level: k <= " + pick("2", "3") + " of length 0..96 arriving within the timeout"
		b["configuration"] = "one configured controller with symbolic serial number; broadcast address set (any port) or not"
	case "C12":
		b["string_length_n"] = pick("0..14", "0..32")
		b["byte_slice_length_n"] = pick("0..10", "0..16")
		b["bytes"] = "all 256 values per position (symbolic)"
		b["sequences"] = "Decode / Encode after an earlier Encode and Decode with their own symbolic inputs"
		b["outside"] = "longer inputs (argued, not solved: the loops are position-independent)"
	case "C13":
		b["dates"] = "all valid dates 0001-01-02..9999-12-30 (eight symbolic digits); SystemDate 2000..2068; all times of day"
		b["zone"] = "any two-interval zone: offsets -14h..+14h, jump < 24h, transition -14h..+38h around 00:00 UTC of the date; other transitions of a real zone: at least two days away (ZoneBounds returns them as arbitrary far times)"
		b["real_zones"] = "twin harnesses constrained to the installed tzdata (earliest and latest occurrence of each transition shape 1800..2040) run when the generic harness has a finding" + pick("", " and always in this tier")
	case "C14":
		b["round_trip"] = "all in-domain values of each scalar type; 128 weekday sets; address shapes 2 x 3 octet-length patterns x 0..5 port digits; composites: segments 1..k (k = 0..3) with symbolic legal HH:mm, cards (symbolic number, dates, four doors, PIN <= 999999), tasks (13 types, symbolic door/cards/dates/start, three weekday sets), time profiles (symbolic ids, dates, 0..3 segments, three weekday sets), two cards / two profiles decoded one after the other"
		b["reject_text_length"] = "date <= 11, HH:mm <= 6, time of day <= 9, PIN <= 8, control state <= 17, task number 1..3 digits; printable ASCII without JSON escapes"
		b["outside"] = "text syntax of composite JSON documents (abstract documents stand for encoding/json), reject side of composite types, Version, MAC, free-text task names"
	case "C15":
		b["shapes"] = pick("5 octet digit-count patterns x 0..5 port digits per role", "all 81 x 6 per role")
		b["no_quad_length"] = pick("0..9", "0..16")
		b["digits"] = "symbolic; octets <= 255 and ports <= 65535 without leading zeros"
		b["set"] = "Set on a variable that already holds any IPv4 address and port (same or another IP)"
	case "C16":
		b["dates"] = "all valid dates 1..9999 (pairs and triples); HH:mm with arbitrary int fields and on 00:00..24:00; date-times from 1970, sub-second parts 0..999 ms on both sides, also restricted to one calendar day (exact differences)"
		b["zone"] = "any fixed offset; DateTime.Before also for two instants within 24 h of a zone transition (two-interval view, real-zone twin)"
	case "C17":
		b["configuration"] = "device lists of <= 3 devices, <= 4 door names"
		b["operations"] = "NewUHPPOTE/DeviceList, PutCard/SetTimeProfile/SetAddress/ActivateKeypads arguments, GetDevice/GetCardByIndex/GetListener results, Device.Clone, Card.Clone, discovery through the real Broadcast (2 datagrams), UnmarshalArray/UnmarshalArrayElement, the real Listen receive loop (slow handler; burst of 2 events under the lazy-start schedule)"
	case "C18":
		b["layouts"] = pick("single-field layouts of 18 field kinds at the boundary offsets (first, last that fits, last two bytes)", "single-field layouts of 18 field kinds at every offset 2..63 where the field fits") + "; each decoded again from a message whose other 63 bytes are arbitrary; hand-written multi-field, batch (UnmarshalArray), embedded-struct and fixed-value-tag (decimal, 0x, 0X) layouts; the 65 shipped message types via C05"
		b["values"] = "all field values (symbolic)"
	}
	b["loop_unwinding"] = "by execution; 4096 back-edges per frame, exceeding it is reported as UNWIND (inconclusive)"
	b["budgets"] = "20000 states, 5000000 SSA instructions per harness; solver 60 s (quick) / 600 s (thorough) per query"
	return b
}

func assumptionsFor(prop string, stubs []string) []string {
	a := []string{
		"go/types + go/ssa (x/tools v0.29.0) give the semantics of the compiled code; the engine's instruction semantics mirror go/ssa/interp",
		"z3 4.8.12 (default), z3 5.1.0 and cvc5 1.0 as fall-backs; an (error line, unknown or timeout makes the check inconclusive",
		"counterexamples are reported only after native reproduction with go test -overlay",
	}
	for _, s := range stubs {
		a = append(a, "stub/model used: "+s)
	}
	return a
}
