package main

// vcheck: runs the symbolic harnesses of one property against /repo's working tree.
//
//   vcheck run C12 --tier quick|thorough [--only regexp] [--trace] [--no-replay] [-j N]
//   vcheck replay <path>

import (
	"bufio"
	"encoding/json"
	"flag"
	"fmt"
	"os"
	"os/exec"
	"path/filepath"
	"regexp"
	"runtime"
	"runtime/pprof"
	"sort"
	"strconv"
	"strings"
	"sync"
	"time"

	"golang.org/x/tools/go/packages"
	"golang.org/x/tools/go/ssa"
	"golang.org/x/tools/go/ssa/ssautil"

	"verif/engine/gosym"
)

var (
	repoDir  = envOr("VERIF_REPO", "/repo")
	verifDir = envOr("VERIF_DIR", "/verif")
	outDir   = envOr("VERIF_OUT", verifDir) // evidence/ and replays/ are written below this directory
)

func envOr(k, d string) string {
	if v := os.Getenv(k); v != "" {
		return v
	}
	return d
}

// harness dir → repo package dir
var pkgDirs = map[string]string{
	"bcd":      "encoding/bcd",
	"codec":    "encoding/UTO311-L0x",
	"types":    "types",
	"messages": "messages",
	"uhppote":  "uhppote",
}

var pkgNames = map[string]string{
	"bcd":      "bcd",
	"codec":    "UTO311_L0x",
	"types":    "types",
	"messages": "messages",
	"uhppote":  "uhppote",
}

type harnessFile struct {
	dir   string // harness dir key
	path  string // file in /verif
	props []string
}

func listHarnessFiles() []harnessFile {
	var out []harnessFile
	for dir := range pkgDirs {
		files, _ := filepath.Glob(filepath.Join(verifDir, "harness", dir, "*.go"))
		sort.Strings(files)
		for _, f := range files {
			hf := harnessFile{dir: dir, path: f}
			fh, err := os.Open(f)
			if err != nil {
				continue
			}
			sc := bufio.NewScanner(fh)
			for i := 0; i < 5 && sc.Scan(); i++ {
				line := sc.Text()
				if strings.HasPrefix(line, "// verif:properties") {
					hf.props = strings.Fields(strings.TrimPrefix(line, "// verif:properties"))
					for i, p := range hf.props {
						hf.props[i] = strings.Trim(p, ",")
					}
				}
			}
			fh.Close()
			out = append(out, hf)
		}
	}
	return out
}

func hasProp(hf harnessFile, prop string) bool {
	if len(hf.props) == 0 {
		return true // shared support
	}
	for _, p := range hf.props {
		if p == prop {
			return true
		}
	}
	return false
}

// buildOverlay returns virtual path → content for the engine, and writes nothing.
func buildOverlay(prop string) (map[string][]byte, map[string][]string) {
	ov := map[string][]byte{}
	used := map[string][]string{} // dir → harness files
	tmpl, err := os.ReadFile(filepath.Join(verifDir, "harness", "support", "support.go.tmpl"))
	if err != nil {
		fatal("support template: %v", err)
	}
	for _, hf := range listHarnessFiles() {
		if !hasProp(hf, prop) {
			continue
		}
		b, err := os.ReadFile(hf.path)
		if err != nil {
			fatal("%v", err)
		}
		virt := filepath.Join(repoDir, pkgDirs[hf.dir], "zz_verif_"+filepath.Base(hf.path))
		ov[virt] = b
		used[hf.dir] = append(used[hf.dir], hf.path)
	}
	for dir := range used {
		virt := filepath.Join(repoDir, pkgDirs[dir], "zz_verif_support.go")
		ov[virt] = []byte(strings.Replace(string(tmpl), "package PKGNAME", "package "+pkgNames[dir], 1))
	}
	return ov, used
}

func fatal(f string, a ...interface{}) {
	fmt.Fprintf(os.Stderr, "vcheck: "+f+"\n", a...)
	os.Exit(2)
}

type harnessResult struct {
	Name      string
	Dir       string
	Err       string // inconclusive reason
	Findings  []gosym.Finding
	Stats     gosym.Stats
	Funcs     []string
	Stubs     []string
	ReachAll  map[string]bool
	ReachSat  map[string]bool
	Models    []gosym.PathModel
	Queries   int
	SolverS   float64
	Log       []gosym.QueryLog
	SolverErr []string
	Diffs     int
	DiffBad   int
	WallS     float64
	Folded    int
	Built     int
}

func main() {
	if len(os.Args) < 2 {
		fatal("usage: vcheck run <property> [--tier quick|thorough] | vcheck replay <path>")
	}
	switch os.Args[1] {
	case "run":
		os.Exit(cmdRun(os.Args[2:]))
	case "replay":
		os.Exit(cmdReplay(os.Args[2:]))
	default:
		fatal("unknown command %s", os.Args[1])
	}
}

func cmdRun(args []string) int {
	if len(args) < 1 {
		fatal("run: property id required")
	}
	prop := args[0]
	fs := flag.NewFlagSet("run", flag.ExitOnError)
	tier := fs.String("tier", envOr("VERIF_TIER", "quick"), "quick|thorough")
	only := fs.String("only", "", "regexp selecting harness functions")
	trace := fs.Bool("trace", false, "trace instructions")
	noReplay := fs.Bool("no-replay", false, "skip native replay / translator validation")
	jobs := fs.Int("j", runtime.NumCPU(), "parallel harnesses")
	queryMs := fs.Int("query-ms", 0, "solver timeout per query")
	noMerge := fs.Bool("no-merge", false, "disable state merging (debug)")
	dump := fs.String("dump", "", "write solver transcript of the (single) selected harness to file")
	harnessS := fs.Int("harness-timeout", 0, "per-harness deadline in seconds (default 600 quick, 7200 thorough)")
	fs.Parse(args[1:])
	seed, _ := strconv.ParseInt(envOr("VERIF_SEED", "0"), 10, 64)
	t0 := time.Now()
	if pf := os.Getenv("VERIF_PROF"); pf != "" {
		if f, err := os.Create(pf); err == nil {
			pprof.StartCPUProfile(f)
			defer pprof.StopCPUProfile()
		}
	}

	ov, used := buildOverlay(prop)
	if len(used) == 0 {
		fatal("no harness files for %s", prop)
	}
	cfg := &packages.Config{
		Mode:    packages.LoadAllSyntax,
		Dir:     repoDir,
		Overlay: ov,
		Env:     append(os.Environ(), "GOFLAGS=-mod=mod", "GOPROXY=off", "GOSUMDB=off", "GOTOOLCHAIN=local"),
	}
	pkgs, err := packages.Load(cfg, "./...")
	if err != nil {
		return inconclusive(prop, *tier, seed, t0, "load: "+err.Error())
	}
	var loadErrs []string
	packages.Visit(pkgs, nil, func(p *packages.Package) {
		for _, e := range p.Errors {
			loadErrs = append(loadErrs, e.Error())
		}
	})
	if len(loadErrs) > 0 {
		return inconclusive(prop, *tier, seed, t0, "repository (with harness overlay) does not type-check: "+strings.Join(loadErrs[:min(3, len(loadErrs))], "; "))
	}
	prog, spkgs := ssautil.AllPackages(pkgs, ssa.InstantiateGenerics)
	prog.Build()
	loadS := time.Since(t0).Seconds()

	// discover harness functions
	type hfn struct {
		fn  *ssa.Function
		dir string
	}
	var hs []hfn
	ianaTwin := map[string]hfn{}
	prefix := "Verif" + prop + "_"
	var onlyRe *regexp.Regexp
	if *only != "" {
		onlyRe = regexp.MustCompile(*only)
	}
	for _, sp := range spkgs {
		if sp == nil {
			continue
		}
		dir := ""
		for k, d := range pkgDirs {
			if strings.HasSuffix(sp.Pkg.Path(), "/"+d) {
				dir = k
			}
		}
		if dir == "" {
			continue
		}
		var names []string
		for name := range sp.Members {
			names = append(names, name)
		}
		sort.Strings(names)
		for _, name := range names {
			fn, ok := sp.Members[name].(*ssa.Function)
			if !ok || !strings.HasPrefix(name, prefix) {
				continue
			}
			if strings.Contains(name, "_T_") && *tier != "thorough" {
				continue
			}
			if strings.HasSuffix(name, "_IANA") {
				// real-zone refinement of the generic harness of the same name: run when that one has findings
				// (every tier), and unconditionally in the thorough tier
				if onlyRe == nil || onlyRe.MatchString(name) {
					ianaTwin[strings.TrimSuffix(name, "_IANA")] = hfn{fn, dir}
				}
				if *tier != "thorough" && (onlyRe == nil || !strings.HasSuffix(*only, "IANA$")) {
					continue
				}
			}
			if onlyRe != nil && !onlyRe.MatchString(name) {
				continue
			}
			hs = append(hs, hfn{fn, dir})
		}
	}
	if len(hs) == 0 {
		return inconclusive(prop, *tier, seed, t0, "no harness functions found")
	}

	results := make([]*harnessResult, len(hs))
	var wg sync.WaitGroup
	sem := make(chan struct{}, *jobs)
	runAll := func(hs []hfn, results []*harnessResult) {
		for i, h := range hs {
			wg.Add(1)
			go func(i int, h hfn) {
				defer wg.Done()
				sem <- struct{}{}
				defer func() { <-sem }()
				opt := gosym.Options{Seed: seed, Trace: *trace, QueryMs: *queryMs, NoMerge: *noMerge, MergeDebug: os.Getenv("VERIF_MERGEDBG") != ""}
				opt.DeadlineS = *harnessS
				if opt.DeadlineS == 0 {
					opt.DeadlineS = 600
					if *tier == "thorough" {
						opt.DeadlineS = 7200
					}
				}
				if opt.QueryMs == 0 {
					if *tier == "thorough" {
						opt.QueryMs = 600000
					} else {
						opt.QueryMs = 60000
					}
				}
				results[i] = runHarness(prog, spkgs, h.fn, h.dir, opt, *dump)
			}(i, h)
		}
		wg.Wait()
	}
	runAll(hs, results)
	// retry pass: a harness whose only trouble is a solver that gave up (a loaded machine) is run again, alone,
	// with five times the query timeout; the second verdict replaces the first
	if os.Getenv("VERIF_NORETRY") == "" {
		for i, r := range results {
			if r == nil || r.Err != "" {
				continue
			}
			unk, other := 0, 0
			for _, f := range r.Findings {
				if f.Kind == "unknown" {
					unk++
				} else if f.Kind == "assert" || f.Kind == "panic" {
					other++
				}
			}
			if unk == 0 || other > 0 {
				continue
			}
			opt := gosym.Options{Seed: seed, Trace: *trace, QueryMs: *queryMs, NoMerge: *noMerge}
			opt.DeadlineS = *harnessS
			if opt.DeadlineS == 0 {
				opt.DeadlineS = 1800
				if *tier == "thorough" {
					opt.DeadlineS = 7200
				}
			}
			if opt.QueryMs == 0 {
				opt.QueryMs = 60000
				if *tier == "thorough" {
					opt.QueryMs = 600000
				}
			}
			opt.QueryMs *= 5
			fmt.Printf("NOTE property=%s harness=%s solver gave up on %d obligation(s); running it again alone with a %d s query timeout\n", prop, r.Name, unk, opt.QueryMs/1000)
			r2 := runHarness(prog, spkgs, hs[i].fn, hs[i].dir, opt, *dump)
			r2.Queries += r.Queries
			r2.SolverS += r.SolverS
			r2.WallS += r.WallS
			results[i] = r2
		}
	}
	// second pass: real-zone twins of generic harnesses that produced counterexamples
	have := map[string]bool{}
	for _, h := range hs {
		have[h.fn.Name()] = true
	}
	var hs2 []hfn
	for _, r := range results {
		n := 0
		for _, f := range r.Findings {
			if f.Kind == "assert" || f.Kind == "panic" {
				n++
			}
		}
		if tw, ok := ianaTwin[r.Name]; ok && n > 0 && !have[tw.fn.Name()] {
			hs2 = append(hs2, tw)
		}
	}
	if len(hs2) > 0 {
		res2 := make([]*harnessResult, len(hs2))
		runAll(hs2, res2)
		results = append(results, res2...)
	}
	modelOnly := map[string]bool{}
	for g := range ianaTwin {
		modelOnly[g] = true
	}

	return conclude(prop, *tier, seed, t0, loadS, results, ov, used, *noReplay, modelOnly)
}

func runHarness(prog *ssa.Program, spkgs []*ssa.Package, fn *ssa.Function, dir string, opt gosym.Options, dump string) (res *harnessResult) {
	t0 := time.Now()
	res = &harnessResult{Name: fn.Name(), Dir: dir}
	e := gosym.NewEngine(prog, opt, fn.Name())
	defer e.Close()
	if dump != "" {
		f, err := os.Create(dump)
		if err == nil {
			defer f.Close()
			e.Solver().Dump = f
		}
	}
	defer func() {
		if r := recover(); r != nil {
			buf := make([]byte, 1<<14)
			n := runtime.Stack(buf, false)
			res.Err = fmt.Sprintf("engine failure: %v\n%s", r, buf[:n])
		}
		res.Findings = e.Findings()
		res.Stats = e.Stats()
		res.Funcs = e.FuncsSeen()
		res.Stubs = e.StubsUsed()
		res.ReachAll, res.ReachSat = e.Reach()
		res.Models = e.PathModels()
		s := e.Solver()
		res.Queries = s.Queries
		res.SolverS = s.TimeTotal.Seconds()
		res.Log = s.Log
		res.SolverErr = s.Errors
		res.Diffs, res.DiffBad = s.Diffs, s.DiffBad
		res.WallS = time.Since(t0).Seconds()
		res.Folded, res.Built = e.TermCtx().NFolded, e.TermCtx().NBuilt
	}()
	if err := e.RunInit([]*ssa.Package{fn.Pkg}); err != nil {
		res.Err = err.Error()
		return
	}
	if err := e.RunHarness(fn); err != nil {
		res.Err = err.Error()
	}
	return
}

// ---------------------------------------------------------------- known findings

type knownFinding struct {
	prop  string
	id    string
	fixed bool
	text  string
}

func loadKnown() []knownFinding {
	var out []knownFinding
	b, err := os.ReadFile(filepath.Join(verifDir, "known-findings.txt"))
	if err != nil {
		return nil
	}
	for _, line := range strings.Split(string(b), "\n") {
		line = strings.TrimSpace(line)
		if line == "" || strings.HasPrefix(line, "#") {
			continue
		}
		kf := knownFinding{text: line}
		if strings.HasPrefix(line, "fixed:") {
			kf.fixed = true
			line = strings.TrimSpace(strings.TrimPrefix(line, "fixed:"))
		} else if strings.HasPrefix(line, "known:") {
			line = strings.TrimSpace(strings.TrimPrefix(line, "known:"))
		}
		for _, f := range strings.Fields(line) {
			if strings.HasPrefix(f, "property=") {
				kf.prop = strings.TrimPrefix(f, "property=")
			}
			if strings.HasPrefix(f, "id=") {
				kf.id = strings.TrimPrefix(f, "id=")
			}
		}
		out = append(out, kf)
	}
	return out
}

// ---------------------------------------------------------------- native replay

type replayVector struct {
	Harness string            `json:"harness"`
	Model   map[string]uint64 `json:"model"`
	Kind    string            `json:"kind,omitempty"`
	Label   string            `json:"label,omitempty"`
	Site    string            `json:"site,omitempty"`
	Prop    string            `json:"property,omitempty"`
	Expect  map[string]string `json:"expect,omitempty"`
}

type nativeResult struct {
	File     string      `json:"file"`
	Harness  string      `json:"harness"`
	Status   string      `json:"status"`
	Failures []string    `json:"failures"`
	Panic    string      `json:"panic"`
	Observed [][2]string `json:"observed"`
	Reached  []string    `json:"reached"`
}

// runNative executes the vectors in vecDir natively for one package; returns results by file.
func runNative(dir string, ov map[string][]byte, harnessNames []string, vecDir string) (map[string]nativeResult, error) {
	tmp, err := os.MkdirTemp("", "vcheck-replay-")
	if err != nil {
		return nil, err
	}
	defer os.RemoveAll(tmp)
	// materialise overlay files
	repl := map[string]string{}
	n := 0
	for virt, content := range ov {
		if !strings.HasPrefix(virt, filepath.Join(repoDir, pkgDirs[dir])+"/") {
			continue
		}
		real := filepath.Join(tmp, fmt.Sprintf("f%d.go", n))
		n++
		if err := os.WriteFile(real, content, 0644); err != nil {
			return nil, err
		}
		repl[virt] = real
	}
	tmpl, err := os.ReadFile(filepath.Join(verifDir, "harness", "support", "replay_test.go.tmpl"))
	if err != nil {
		return nil, err
	}
	var hm strings.Builder
	sort.Strings(harnessNames)
	for _, h := range harnessNames {
		fmt.Fprintf(&hm, "\t%q: %s,\n", h, h)
	}
	test := strings.Replace(string(tmpl), "package PKGNAME", "package "+pkgNames[dir], 1)
	test = strings.Replace(test, "HARNESSMAP", hm.String(), 1)
	real := filepath.Join(tmp, "replay_test.go")
	os.WriteFile(real, []byte(test), 0644)
	repl[filepath.Join(repoDir, pkgDirs[dir], "zz_verif_replay_test.go")] = real
	ovj, _ := json.Marshal(map[string]interface{}{"Replace": repl})
	ovFile := filepath.Join(tmp, "overlay.json")
	os.WriteFile(ovFile, ovj, 0644)
	out := filepath.Join(tmp, "out.jsonl")
	cmd := exec.Command("go", "test", "-overlay", ovFile, "-vet=off", "-count=1", "-run", "^TestVerifReplay$", "./"+pkgDirs[dir]+"/")
	cmd.Dir = repoDir
	cmd.Env = append(os.Environ(), "GOFLAGS=-mod=mod", "GOPROXY=off", "GOSUMDB=off", "GOTOOLCHAIN=local",
		"VERIF_REPLAY_DIR="+vecDir, "VERIF_REPLAY_OUT="+out, "TZ=UTC")
	done := make(chan error, 1)
	var outBuf []byte
	go func() {
		var err error
		outBuf, err = cmd.CombinedOutput()
		done <- err
	}()
	select {
	case err := <-done:
		if err != nil {
			// a native panic outside recover (e.g. fatal error) or build failure
			if _, serr := os.Stat(out); serr != nil {
				return nil, fmt.Errorf("go test failed: %v\n%s", err, trunc(string(outBuf), 2000))
			}
		}
	case <-time.After(8 * time.Minute):
		cmd.Process.Kill()
		return nil, fmt.Errorf("native replay timed out")
	}
	res := map[string]nativeResult{}
	f, err := os.Open(out)
	if err != nil {
		return nil, fmt.Errorf("no replay output: %v\n%s", err, trunc(string(outBuf), 2000))
	}
	defer f.Close()
	sc := bufio.NewScanner(f)
	sc.Buffer(make([]byte, 1<<20), 1<<26)
	for sc.Scan() {
		var r nativeResult
		if json.Unmarshal(sc.Bytes(), &r) == nil {
			res[r.File] = r
		}
	}
	// a panic in a goroutine of the code under test (or a fatal runtime error) kills the test process: the
	// vector that was running is the last one started; it reproduced as a panic
	text := string(outBuf)
	if i := strings.LastIndex(text, "VERIF-START "); i >= 0 {
		rest := text[i+len("VERIF-START "):]
		file := strings.TrimSpace(strings.SplitN(rest, "\n", 2)[0])
		if _, ok := res[file]; !ok {
			for _, marker := range []string{"panic: ", "fatal error: "} {
				if j := strings.Index(rest, marker); j >= 0 {
					msg := strings.SplitN(rest[j:], "\n", 2)[0]
					res[file] = nativeResult{File: file, Status: "panic", Panic: msg + " (the test process crashed)"}
					break
				}
			}
		}
	}
	return res, nil
}

func trunc(s string, n int) string {
	if len(s) > n {
		return s[:n] + "..."
	}
	return s
}

// ---------------------------------------------------------------- verdict + evidence

type evidence struct {
	PropertyID  string                 `json:"property_id"`
	Tier        string                 `json:"tier"`
	Seed        int64                  `json:"seed"`
	Level       string                 `json:"level"`
	Coverage    map[string]interface{} `json:"coverage"`
	Assumptions []string               `json:"assumptions"`
	WallS       float64                `json:"wall_s"`
	Violations  int                    `json:"violations"`
	Verdict     string                 `json:"verdict"`
	Inconcl     []string               `json:"inconclusive,omitempty"`
	Known       []string               `json:"known_findings,omitempty"`
}

func writeEvidence(ev *evidence) {
	os.MkdirAll(filepath.Join(outDir, "evidence"), 0755)
	b, _ := json.MarshalIndent(ev, "", " ")
	os.WriteFile(filepath.Join(outDir, "evidence", ev.PropertyID+".json"), append(b, '\n'), 0644)
}

func inconclusive(prop, tier string, seed int64, t0 time.Time, reason string) int {
	ev := &evidence{PropertyID: prop, Tier: tier, Seed: seed, Level: "model_checking", WallS: time.Since(t0).Seconds(), Verdict: "inconclusive", Inconcl: []string{reason},
		Coverage: map[string]interface{}{"evaluations": 0, "distinct_nontrivial": 0, "explanation": "check could not run: " + reason}}
	writeEvidence(ev)
	fmt.Printf("INCONCLUSIVE property=%s reason=%s\n", prop, reason)
	return 2
}

func conclude(prop, tier string, seed int64, t0 time.Time, loadS float64, results []*harnessResult, ov map[string][]byte, used map[string][]string, noReplay bool, modelOnly map[string]bool) int {
	known := loadKnown()
	isKnown := func(id string) bool {
		for _, k := range known {
			if !k.fixed && k.prop == prop && k.id == id {
				return true
			}
		}
		return false
	}
	var inconcl []string
	var total gosym.Stats
	funcs := map[string]bool{}
	stubsUsed := map[string]bool{}
	var samples []interface{}
	queries, diffs, diffBad := 0, 0, 0
	solverS := 0.0
	nontrivial := 0
	var allFindings []gosym.Finding
	harnessNames := map[string][]string{}
	for _, r := range results {
		harnessNames[r.Dir] = append(harnessNames[r.Dir], r.Name)
		total.States += r.Stats.States + 1
		total.Instrs += r.Stats.Instrs
		total.Merges += r.Stats.Merges
		total.Forks += r.Stats.Forks
		total.Obligations += r.Stats.Obligations
		total.Discharged += r.Stats.Discharged
		total.PanicChecks += r.Stats.PanicChecks
		total.AssertChecks += r.Stats.AssertChecks
		total.ReachLabels += r.Stats.ReachLabels
		total.ReachOK += r.Stats.ReachOK
		queries += r.Queries
		solverS += r.SolverS
		diffs += r.Diffs
		diffBad += r.DiffBad
		for _, f := range r.Funcs {
			funcs[f] = true
		}
		for _, f := range r.Stubs {
			stubsUsed[f] = true
		}
		if os.Getenv("VERIF_SLOW") != "" {
			lg := append([]gosym.QueryLog{}, r.Log...)
			sort.Slice(lg, func(i, j int) bool { return lg[i].Ms > lg[j].Ms })
			for i := 0; i < 12 && i < len(lg); i++ {
				fmt.Fprintf(os.Stderr, "slow %s: %8.1f ms %-8s %s (%d asserts)\n", r.Name, lg[i].Ms, lg[i].Verdict, lg[i].What, lg[i].Size)
			}
		}
		if r.Err != "" {
			inconcl = append(inconcl, r.Name+": "+firstLine(r.Err))
			fmt.Fprintf(os.Stderr, "--- %s: %s\n", r.Name, r.Err)
		}
		for _, se := range r.SolverErr {
			inconcl = append(inconcl, r.Name+": solver: "+se)
		}
		for l := range r.ReachAll {
			if !r.ReachSat[l] {
				inconcl = append(inconcl, fmt.Sprintf("%s: reach label %q unreachable (vacuous harness?)", r.Name, l))
			}
		}
		if len(r.ReachAll) == 0 && r.Err == "" {
			inconcl = append(inconcl, r.Name+": no reachability witness executed")
		}
		for _, q := range r.Log {
			if q.Verdict != "" {
				nontrivial++
			}
		}
		// samples: a few queries per harness
		for i, q := range r.Log {
			if i < 2 || (len(samples) < 40 && strings.HasPrefix(q.What, "assert")) {
				samples = append(samples, q)
			}
			if len(samples) >= 60 {
				break
			}
		}
		for _, f := range r.Findings {
			if f.Kind == "unknown" {
				inconcl = append(inconcl, r.Name+": "+f.Label)
				continue
			}
			allFindings = append(allFindings, f)
		}
	}

	// native replay: findings + translator validation vectors
	replayRoot := filepath.Join(outDir, "replays", prop)
	os.RemoveAll(replayRoot)
	os.MkdirAll(replayRoot, 0755)
	type pending struct {
		file    string
		finding *gosym.Finding
		model   *gosym.PathModel
		harness string
		dir     string
	}
	var pend []pending
	valDir, _ := os.MkdirTemp("", "vcheck-vec-")
	if os.Getenv("VERIF_KEEPVEC") == "" {
		defer os.RemoveAll(valDir)
	} else {
		fmt.Fprintln(os.Stderr, "validation vectors kept in", valDir)
	}
	dirOf := map[string]string{}
	for _, r := range results {
		dirOf[r.Name] = r.Dir
	}
	for i := range allFindings {
		f := &allFindings[i]
		file := filepath.Join(replayRoot, fmt.Sprintf("%s-%d.json", f.Harness, i))
		vec := replayVector{Harness: f.Harness, Model: f.Model, Kind: f.Kind, Label: f.Label, Site: f.Site, Prop: prop, Expect: f.Observed}
		b, _ := json.MarshalIndent(vec, "", " ")
		os.WriteFile(file, b, 0644)
		pend = append(pend, pending{file: file, finding: f, harness: f.Harness, dir: dirOf[f.Harness]})
	}
	maxVal := 3
	if tier == "thorough" {
		maxVal = 10
	}
	for _, r := range results {
		for k := range r.Models {
			if k >= maxVal {
				break
			}
			m := &r.Models[k]
			file := filepath.Join(valDir, fmt.Sprintf("%s-val%d.json", r.Name, k))
			vec := replayVector{Harness: r.Name, Model: m.Model}
			b, _ := json.Marshal(vec)
			os.WriteFile(file, b, 0644)
			pend = append(pend, pending{file: file, model: m, harness: r.Name, dir: r.Dir})
		}
	}
	findingLabels := map[string]map[string]bool{}
	for _, f := range allFindings {
		if findingLabels[f.Harness] == nil {
			findingLabels[f.Harness] = map[string]bool{}
		}
		if f.Kind == "panic" {
			findingLabels[f.Harness]["<panic>"] = true
		} else {
			findingLabels[f.Harness][normLabel(f.Label)] = true
		}
	}
	validated := 0
	violations := 0
	var knownLines []string
	var violationLines []string
	var notes []string
	if !noReplay && len(pend) > 0 {
		byDir := map[string][]pending{}
		for _, p := range pend {
			byDir[p.dir] = append(byDir[p.dir], p)
		}
		for dir, ps := range byDir {
			// stage all vectors of this package in one directory
			stage, _ := os.MkdirTemp("", "vcheck-stage-")
			staged := map[string]pending{}
			for i, p := range ps {
				dst := filepath.Join(stage, fmt.Sprintf("v%05d.json", i))
				b, _ := os.ReadFile(p.file)
				os.WriteFile(dst, b, 0644)
				staged[dst] = p
			}
			res, err := runNative(dir, ov, harnessNames[dir], stage)
			// a harness that hangs natively (deadlock watchdog) ends its process: run the vectors that have no
			// result yet in a fresh one
			for round := 0; err == nil && round < 8; round++ {
				var missing []string
				for dst := range staged {
					if _, ok := res[dst]; !ok {
						missing = append(missing, dst)
					}
				}
				if len(missing) == 0 {
					break
				}
				stage2, _ := os.MkdirTemp("", "vcheck-stage-")
				back := map[string]string{}
				for i, dst := range missing {
					b, _ := os.ReadFile(dst)
					d2 := filepath.Join(stage2, fmt.Sprintf("w%05d.json", i))
					os.WriteFile(d2, b, 0644)
					back[d2] = dst
				}
				res2, err2 := runNative(dir, ov, harnessNames[dir], stage2)
				os.RemoveAll(stage2)
				if err2 != nil || len(res2) == 0 {
					break
				}
				for d2, r := range res2 {
					res[back[d2]] = r
				}
			}
			if err != nil {
				inconcl = append(inconcl, "native replay ("+dir+"): "+firstLine(err.Error()))
				fmt.Fprintf(os.Stderr, "native replay failed: %v\n", err)
				os.RemoveAll(stage)
				continue
			}
			// harnesses that run against the wall clock natively (socket level): a disagreement is retried once,
			// alone, before it counts (scheduling noise on a loaded machine)
			{
				var again []string
				for dst, p := range staged {
					nr, ok := res[dst]
					if !ok {
						continue
					}
					timed := false
					if p.model != nil {
						_, timed = p.model.Model["clock.t0"]
					} else if p.finding != nil {
						_, timed = p.finding.Model["clock.t0"]
					}
					if timed && ((p.model != nil && nr.Status != "ok") || (p.finding != nil && nr.Status == "ok")) {
						again = append(again, dst)
					}
				}
				sort.Strings(again)
				for _, dst := range again {
					stage2, _ := os.MkdirTemp("", "vcheck-stage-")
					b, _ := os.ReadFile(dst)
					d2 := filepath.Join(stage2, "r00000.json")
					os.WriteFile(d2, b, 0644)
					if res2, err2 := runNative(dir, ov, harnessNames[dir], stage2); err2 == nil {
						if r, ok := res2[d2]; ok {
							res[dst] = r
						}
					}
					os.RemoveAll(stage2)
				}
			}
			for dst, p := range staged {
				nr, ok := res[dst]
				if !ok {
					inconcl = append(inconcl, fmt.Sprintf("%s: native run produced no result", p.harness))
					continue
				}
				if p.model != nil {
					// translator validation: observations and reach labels must agree; no failure natively
					// (except failures the engine itself reports as findings of this harness: a path model is
					// taken at a reach label, before later assertions of the same path are decided)
					if nr.Status == "assert" {
						all := true
						for _, l := range nr.Failures {
							if !findingLabels[p.harness][normLabel(l)] {
								all = false
							}
						}
						if all {
							continue
						}
					}
					if nr.Status == "panic" && findingLabels[p.harness]["<panic>"] {
						continue
					}
					if nr.Status == "assume" && len(p.model.Reached) == 1 {
						// the model was taken at a reach label; nondets drawn after it are unconstrained in the
						// model, so a later assumption may fail natively: fine as long as the label was reached
						for _, x := range nr.Reached {
							if x == p.model.Reached[0] {
								nr.Status = "ok"
							}
						}
					}
					if nr.Status != "ok" {
						inconcl = append(inconcl, fmt.Sprintf("%s: translator validation: native run status %s (%v %s) on a model of a passing path", p.harness, nr.Status, nr.Failures, nr.Panic))
						continue
					}
					mismatch := ""
					for _, o := range nr.Observed {
						if want, ok := p.model.Observed[o[0]]; ok && want != o[1] && !strings.Contains(want, "<") && !strings.Contains(want, "?") {
							mismatch = fmt.Sprintf("observation %s: engine %s native %s", o[0], want, o[1])
						}
					}
					for _, l := range p.model.Reached {
						found := false
						for _, x := range nr.Reached {
							if x == l {
								found = true
							}
						}
						if !found {
							mismatch = "reach label " + l + " not reached natively"
						}
					}
					if mismatch != "" {
						inconcl = append(inconcl, fmt.Sprintf("%s: translator validation mismatch: %s", p.harness, mismatch))
						continue
					}
					validated++
					continue
				}
				f := p.finding
				reproduced := false
				switch f.Kind {
				case "assert":
					for _, l := range nr.Failures {
						if normLabel(l) == normLabel(f.Label) {
							reproduced = true
						}
					}
					if nr.Status == "panic" {
						reproduced = true
					}
					if !reproduced && nr.Status == "assert" && len(nr.Failures) > 0 {
						// the natively compiled code fails another assertion of the same harness on the solver's
						// input (the native scheduler took another turn than the model's schedule): a real
						// violation all the same - reported under the assertion that failed natively
						reproduced = true
						f.Label = nr.Failures[0] + " (solver counterexample for: " + f.Label + ")"
					}
				case "panic":
					reproduced = nr.Status == "panic"
				}
				if !reproduced {
					inconcl = append(inconcl, fmt.Sprintf("%s: counterexample for %q did not reproduce natively (status %s %v %s): encoding error", f.Harness, f.Label, nr.Status, nr.Failures, nr.Panic))
					continue
				}
				if modelOnly[f.Harness] {
					// counterexample in a synthetic two-interval zone: confirms the model; the alarm is raised by
					// the real-zone (IANA) twin of the harness, which runs whenever this one has a finding
					notes = append(notes, fmt.Sprintf("NOTE property=%s harness=%s counterexample reproduced in a synthetic two-interval zone (%s); real-zone refinement decides: replay=%s", prop, f.Harness, f.Label, p.file))
					continue
				}
				if f.Region != "" && f.InRegion && isKnown(f.Region) {
					knownLines = append(knownLines, fmt.Sprintf("KNOWN-FINDING: property=%s id=%s %s [%s] replay=%s", prop, f.Region, f.Label, f.Harness, p.file))
					continue
				}
				violations++
				violationLines = append(violationLines, fmt.Sprintf("VIOLATION property=%s replay=%s harness=%s kind=%s label=%q site=%s", prop, p.file, f.Harness, f.Kind, f.Label, f.Site))
			}
			os.RemoveAll(stage)
		}
	} else if noReplay {
		for _, f := range allFindings {
			fmt.Printf("FINDING (not replayed) %s: %s %q %s region=%s in=%v model=%v\n", f.Harness, f.Kind, f.Label, f.Site, f.Region, f.InRegion, f.Model)
		}
	}
	sort.Strings(knownLines)
	sort.Strings(violationLines)
	knownLines = uniq(knownLines)
	for _, l := range knownLines {
		fmt.Println(l)
	}
	sort.Strings(notes)
	for _, l := range uniq(notes) {
		fmt.Println(l)
	}
	for _, l := range violationLines {
		fmt.Println(l)
	}

	var fl []string
	for f := range funcs {
		fl = append(fl, f)
	}
	sort.Strings(fl)
	var sl []string
	for f := range stubsUsed {
		sl = append(sl, f)
	}
	sort.Strings(sl)
	var hn []string
	for _, r := range results {
		hn = append(hn, fmt.Sprintf("%s (%.1fs, %d queries, %d states)", r.Name, r.WallS, r.Queries, r.Stats.States+1))
	}
	verdict := "held"
	code := 0
	if violations > 0 {
		verdict = "violation"
		code = 1
	} else if len(inconcl) > 0 {
		verdict = "inconclusive"
		code = 2
	}
	if len(samples) == 0 {
		samples = append(samples, map[string]string{"note": "no solver query was needed"})
	}
	ev := &evidence{
		PropertyID: prop, Tier: tier, Seed: seed, Level: "model_checking",
		WallS: time.Since(t0).Seconds(), Violations: violations, Verdict: verdict, Inconcl: uniq(inconcl), Known: knownLines,
		Coverage: map[string]interface{}{
			"states":                        total.States,
			"transitions":                   total.Instrs,
			"traces_validated_against_impl": validated,
			"samples":                       samples,
			"obligations":                   total.Obligations,
			"discharged":                    total.Discharged,
			"evaluations":                   queries,
			"distinct_nontrivial":           nontrivial,
			"rule":                          "evaluations = SMT queries sent to a solver by this run; a query is non-trivial when the term builder could not fold it to a constant (folded obligations never reach the solver and are not counted)",
			"harnesses":                     hn,
			"functions_encoded":             fl,
			"stubs":                         sl,
			"merges":                        total.Merges,
			"forks":                         total.Forks,
			"panic_obligations":             total.PanicChecks,
			"assert_obligations":            total.AssertChecks,
			"reach_labels":                  total.ReachLabels,
			"reach_labels_sat":              total.ReachOK,
			"solver_time_s":                 solverS,
			"load_and_ssa_build_s":          loadS,
			"solver_cross_checks":           diffs,
			"solver_disagreements":          diffBad,
			"unsupported_or_unwind":         len(inconcl),
			"bounds":                        boundsFor(prop, tier),
			"encoding":                      "regenerated from " + repoDir + " working tree on this run (go/packages + go/ssa, overlay harnesses)",
		},
		Assumptions: assumptionsFor(prop, sl),
	}
	writeEvidence(ev)
	for _, l := range uniq(inconcl) {
		fmt.Printf("INCONCLUSIVE property=%s reason=%s\n", prop, l)
	}
	fmt.Printf("%s property=%s tier=%s harnesses=%d obligations=%d discharged=%d queries=%d solver=%.1fs validated=%d wall=%.1fs\n",
		strings.ToUpper(verdict), prop, tier, len(results), total.Obligations, total.Discharged, queries, solverS, validated, time.Since(t0).Seconds())
	return code
}

// normLabel drops the model-dependent suffix of byte-comparison labels.
func normLabel(l string) string {
	if strings.HasPrefix(l, "deadlock:") {
		return "deadlock" // the native twin of a deadlock is the replay watchdog
	}
	if i := strings.Index(l, ": byte "); i >= 0 && strings.HasSuffix(l, " differs") {
		return l[:i]
	}
	return l
}

func uniq(xs []string) []string {
	seen := map[string]bool{}
	var out []string
	for _, x := range xs {
		if !seen[x] {
			seen[x] = true
			out = append(out, x)
		}
	}
	return out
}

func firstLine(s string) string {
	if i := strings.IndexByte(s, '\n'); i >= 0 {
		return s[:i]
	}
	return s
}

func cmdReplay(args []string) int {
	if len(args) < 1 {
		fatal("replay: path required")
	}
	b, err := os.ReadFile(args[0])
	if err != nil {
		fatal("%v", err)
	}
	var vec replayVector
	if err := json.Unmarshal(b, &vec); err != nil {
		fatal("%v", err)
	}
	prop := vec.Prop
	if prop == "" {
		prop = filepath.Base(filepath.Dir(args[0]))
	}
	if !(len(prop) == 3 && prop[0] == 'C') && strings.HasPrefix(vec.Harness, "VerifC") && len(vec.Harness) > 8 {
		prop = vec.Harness[5:8] // kept validation vectors: the property is in the harness name
	}
	ov, used := buildOverlay(prop)
	// find the package of the harness by scanning harness sources
	dir := ""
	for d, files := range used {
		for _, f := range files {
			src, _ := os.ReadFile(f)
			if strings.Contains(string(src), "func "+vec.Harness+"(") {
				dir = d
			}
		}
	}
	if dir == "" {
		fatal("harness %s not found", vec.Harness)
	}
	stage, _ := os.MkdirTemp("", "vcheck-stage-")
	defer os.RemoveAll(stage)
	dst := filepath.Join(stage, "v0.json")
	os.WriteFile(dst, b, 0644)
	res, err := runNative(dir, ov, []string{vec.Harness}, stage)
	if err != nil {
		fatal("%v", err)
	}
	r := res[dst]
	out, _ := json.MarshalIndent(r, "", " ")
	fmt.Println(string(out))
	if r.Status == "assert" || r.Status == "panic" {
		fmt.Printf("REPRODUCED %s: %s %v %s\n", vec.Harness, r.Status, r.Failures, r.Panic)
		return 1
	}
	return 0
}
