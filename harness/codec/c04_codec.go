// verif:properties C04
package UTO311_L0x

// C04 (decoding entry points of the codec): any byte string of any length, any target kind.

import (
	"net"
	"net/netip"

	"github.com/uhppoted/uhppote-core/types"
)

type c04Everything struct {
	MsgType    types.MsgType      `uhppote:"value:0x94"`
	Serial     types.SerialNumber `uhppote:"offset:4"`
	U8         uint8              `uhppote:"offset:8"`
	U16        uint16             `uhppote:"offset:9"`
	U32        uint32             `uhppote:"offset:11"`
	B          bool               `uhppote:"offset:15"`
	IP         net.IP             `uhppote:"offset:16"`
	AddrPort   netip.AddrPort     `uhppote:"offset:20"`
	MAC        net.HardwareAddr   `uhppote:"offset:26"`
	Date       types.Date         `uhppote:"offset:32"`
	DatePtr    *types.Date        `uhppote:"offset:36"`
	HHmm       types.HHmm         `uhppote:"offset:40"`
	HHmmPtr    *types.HHmm        `uhppote:"offset:42"`
	PIN        types.PIN          `uhppote:"offset:44"`
	Version    types.Version      `uhppote:"offset:47"`
	SystemDate types.SystemDate   `uhppote:"offset:49"`
	SystemTime types.SystemTime   `uhppote:"offset:52"`
	DateTime   types.DateTime     `uhppote:"offset:55"`
	Last16     uint16             `uhppote:"offset:62"`
}

func VerifC04_Unmarshal() {
	verifZone(1)
	b := nondetBuffer("b", 2048)
	var v c04Everything
	err := Unmarshal(b, &v)
	if err == nil {
		// what was decoded can be encoded again
		out, err2 := Marshal(v)
		verifAssert(err2 != nil || len(out) == 64, "Marshal: 64 bytes or an error")
	}
	verifReach("c04.Unmarshal")
}

func VerifC04_UnmarshalAs() {
	verifZone(1)
	b := nondetBuffer("b", 2048)
	r1, e1 := UnmarshalAs(b, c04Everything{})
	r2, e2 := UnmarshalAs(b, &c04Everything{})
	verifAssert((e1 == nil) == (r1 != nil) && (e2 == nil) == (r2 != nil), "UnmarshalAs: a value or an error")
	// targets of the wrong kind are rejected, not dereferenced
	_, e3 := UnmarshalAs(b, 42)
	var np *c04Everything
	verifAssert(e3 != nil, "UnmarshalAs: a non-struct target is an error")
	verifAssert(Unmarshal(b, v04NotAPointer()) != nil, "Unmarshal: a non-pointer target is an error")
	_ = np
	verifReach("c04.UnmarshalAs")
}

func v04NotAPointer() any { return c04Everything{} }

func VerifC04_UnmarshalArray() {
	verifZone(1)
	list := [][]byte{nondetBuffer("b0", 2048), nondetBuffer("b1", 2048)}
	var out []c04Everything
	err := UnmarshalArray(list, &out)
	verifAssert(err != nil || len(out) == 2, "UnmarshalArray: every element or an error")
	_, err2 := UnmarshalArrayElement(list[0], &out)
	_ = err2
	verifAssert(UnmarshalArray(list, out) != nil, "UnmarshalArray: a non-pointer target is an error")
	verifReach("c04.UnmarshalArray")
}

// The debug dump is evaluated by the transport for every datagram it sends or receives (as an argument of its
// debug printing, whether or not debugging is on), before any length check: it must take any byte string.
func VerifC04_Dump() {
	verifInterpret("codec.Dump")
	m := nondetBuffer("m", 40) // 0..40 bytes: empty, partial first half, partial second half, several lines
	s := Dump(m, " ... ")
	verifObserve("dump.empty", len(s) == 0)
	verifReach("c04.dump")
}
