// verif:properties C18 C17
package UTO311_L0x

import (
	"net"

	"github.com/uhppoted/uhppote-core/types"
)

// C18 / C17 - the batch entry points (UnmarshalArray, UnmarshalArrayElement) and layouts with an embedded
// struct followed by further fields.

type vArrayMsg struct {
	MsgType types.MsgType      `uhppote:"value:0x94"`
	Serial  types.SerialNumber `uhppote:"offset:4"`
	MAC     types.MacAddress   `uhppote:"offset:8"`
	HW      net.HardwareAddr   `uhppote:"offset:14"`
	IP      net.IP             `uhppote:"offset:20"`
	From    *types.Date        `uhppote:"offset:24"`
	Stamp   *types.DateTime    `uhppote:"offset:28"`
	V       uint32             `uhppote:"offset:36"`
}

func vArrayBytes(tag string) []byte {
	b := nondetBytes(tag, 64)
	verifAssume(b[0] == 0x17 && b[1] == 0x94)
	return b
}

func vSameBytes(a, b []byte) bool {
	if len(a) != len(b) {
		return false
	}
	for i := range a {
		if a[i] != b[i] {
			return false
		}
	}
	return true
}

// every message of a batch is decoded on its own: element i is what Unmarshal yields for message i
func VerifC18_UnmarshalArray() {
	verifZone(1)
	m0, m1 := vArrayBytes("m0"), vArrayBytes("m1")
	var single vArrayMsg
	e1 := Unmarshal(m1, &single)
	var batch []vArrayMsg
	err := UnmarshalArray([][]byte{m0, m1}, &batch)
	if err == nil && e1 == nil {
		verifAssert(len(batch) == 2, "UnmarshalArray: one element per message")
		if len(batch) == 2 {
			got := batch[1]
			verifAssert(got.Serial == single.Serial && got.V == single.V && vSameBytes(got.MAC, single.MAC) && vSameBytes(got.HW, single.HW) && vSameBytes(got.IP, single.IP),
				"UnmarshalArray: an element does not depend on the messages before it")
			verifAssert((got.From == nil) == (single.From == nil) && (got.Stamp == nil) == (single.Stamp == nil),
				"UnmarshalArray: a nil-tolerant pointer field is nil exactly when the message on its own decodes it as nil")
			if got.From != nil && single.From != nil {
				verifAssert(got.From.Equals(*single.From), "UnmarshalArray: date of an element does not depend on the messages before it")
			}
			if batch[0].From != nil && got.From != nil {
				verifAssert(batch[0].From != got.From, "UnmarshalArray: elements share no storage")
			}
		}
		verifReach("c18.array")
	}
	verifReach("c18.array.end")
}

// decoded values share no memory with the input buffers, whichever entry point decoded them
func VerifC18_ArrayEntryPointsDoNotAlias() {
	verifZone(1)
	m0 := vArrayBytes("m0")
	var batch []vArrayMsg
	if err := UnmarshalArray([][]byte{m0}, &batch); err == nil && len(batch) == 1 {
		mac, hw, ip := append([]byte{}, batch[0].MAC...), append([]byte{}, batch[0].HW...), append([]byte{}, batch[0].IP...)
		verifHavoc(&m0)
		verifAssert(vSameBytes(batch[0].MAC, mac) && vSameBytes(batch[0].HW, hw) && vSameBytes(batch[0].IP, ip), "UnmarshalArray: decoded values are not affected by reuse of the input buffer")
		verifReach("c18.array.alias")
	}
	m1 := vArrayBytes("m1")
	v, err := UnmarshalArrayElement(m1, &batch)
	if el, ok := v.(vArrayMsg); err == nil && ok {
		mac, hw, ip := append([]byte{}, el.MAC...), append([]byte{}, el.HW...), append([]byte{}, el.IP...)
		verifHavoc(&m1)
		verifAssert(vSameBytes(el.MAC, mac) && vSameBytes(el.HW, hw) && vSameBytes(el.IP, ip), "UnmarshalArrayElement: decoded values are not affected by reuse of the input buffer")
		verifReach("c18.element.alias")
	}
	verifReach("c18.alias.end")
}

func VerifC17_ArrayEntryPointsDoNotAlias() { VerifC18_ArrayEntryPointsDoNotAlias() }

// an embedded struct in the middle of a layout: the fields after it are encoded, decoded and enforced
type vHeader struct {
	Serial types.SerialNumber `uhppote:"offset:4"`
	Door   uint8              `uhppote:"offset:8"`
}

type vEmbedded struct {
	MsgType types.MsgType `uhppote:"value:0x20"`
	vHeader
	Card    uint32        `uhppote:"offset:12"`
	Granted bool          `uhppote:"offset:16"`
	Version types.Version `uhppote:"offset:62"`
}

type VHeaderX struct {
	Serial types.SerialNumber `uhppote:"offset:4"`
	Door   uint8              `uhppote:"offset:8"`
}

type vEmbeddedX struct {
	MsgType types.MsgType `uhppote:"value:0x20"`
	VHeaderX
	Card    uint32        `uhppote:"offset:12"`
	Granted bool          `uhppote:"offset:16"`
	Version types.Version `uhppote:"offset:62"`
}

func VerifC18_EmbeddedThenFields() {
	v := vEmbeddedX{VHeaderX: VHeaderX{Serial: types.SerialNumber(nondetU32("serial")), Door: nondetU8("door")}, Card: nondetU32("card"), Granted: nondetBool("granted"), Version: types.Version(nondetU16("version"))}
	b, err := Marshal(v)
	verifAssert(err == nil && len(b) == 64, "embedded layout: encodes")
	if err == nil && len(b) == 64 {
		want := make([]byte, 64)
		want[0], want[1] = 0x17, 0x20
		s := uint32(v.Serial)
		want[4], want[5], want[6], want[7] = byte(s), byte(s>>8), byte(s>>16), byte(s>>24)
		want[8] = v.Door
		want[12], want[13], want[14], want[15] = byte(v.Card), byte(v.Card>>8), byte(v.Card>>16), byte(v.Card>>24)
		if v.Granted {
			want[16] = 1
		}
		want[62], want[63] = byte(uint16(v.Version)>>8), byte(uint16(v.Version))
		verifAssertEqBytes(b, want, "embedded layout: every field at its offset, the fields after the embedded struct included")
		var back vEmbeddedX
		err := Unmarshal(b, &back)
		verifAssert(err == nil && back.Serial == v.Serial && back.Door == v.Door && back.Card == v.Card && back.Granted == v.Granted && back.Version == v.Version, "embedded layout: decoding returns the encoded values")
		b[16] = 2 + nondetU8("bad")%200
		var bad vEmbeddedX
		verifAssert(Unmarshal(b, &bad) != nil, "embedded layout: an invalid boolean after the embedded struct is rejected")
	}
	verifReach("c18.embedded")
}

// fixed-value tags on byte fields (decimal, 0x and 0X hexadecimal): emitted on encode whatever the struct holds,
// enforced on decode
type vValueTags struct {
	MsgType types.MsgType `uhppote:"value:0x5a"`
	Magic1  byte          `uhppote:"offset:8, value:0x55"`
	Magic2  byte          `uhppote:"offset:9, value:170"`
	Value   uint8         `uhppote:"offset:10"`
	Magic3  byte          `uhppote:"offset:11, value:0X5f"`
	Last    byte          `uhppote:"offset:63, value:0xAA"`
}

func VerifC18_ValueTags() {
	v := vValueTags{Magic1: nondetU8("m1"), Magic2: nondetU8("m2"), Value: nondetU8("value"), Magic3: nondetU8("m3"), Last: nondetU8("last")}
	b, err := Marshal(v)
	verifAssert(err == nil && len(b) == 64, "value tags: encodes")
	if err == nil && len(b) == 64 {
		want := make([]byte, 64)
		want[0], want[1], want[8], want[9], want[10], want[11], want[63] = 0x17, 0x5a, 0x55, 170, v.Value, 0x5f, 0xaa
		verifAssertEqBytes(b, want, "value tags: fixed values are emitted whatever the field holds")
		var back vValueTags
		verifAssert(Unmarshal(b, &back) == nil && back.Value == v.Value, "value tags: the encoding decodes")
		k := nondetEnum("which", 4)
		pos := []int{8, 9, 11, 63}[k]
		b[pos] = nondetU8("other")
		verifAssume(b[pos] != want[pos])
		var bad vValueTags
		verifAssert(Unmarshal(b, &bad) != nil, "value tags: a differing byte is rejected on decode")
	}
	verifReach("c18.valuetags")
}
