// verif:properties C18
package UTO311_L0x

// C18 - the codec is generic over message layouts, not only right for the shipped messages.
//
// Layouts are built at run time with reflect.StructOf (the engine maps them to go/types structs): every
// single-field layout over the supported field kinds at every offset where the field fits, plus seeded
// multi-field layouts.  Enumerating layouts is enumeration of programs; field values are the solver's.

import (
	"net"
	"net/netip"
	"reflect"
	"strconv"
	"time"

	"github.com/uhppoted/uhppote-core/types"
)

// a field kind: its Go type, protocol width, a symbolic in-domain value with its protocol encoding, and
// the equality that "decoding returns the encoded value" means for it
type c18Kind struct {
	name  string
	typ   reflect.Type
	width int
	gen   func(tag string) (reflect.Value, []byte)
	same  func(a, b reflect.Value) bool
}

func c18Digits(tag string, n int) []byte {
	dg := nondetBytes(tag+".digits", n)
	for i := 0; i < n; i++ {
		verifAssume(dg[i] <= 9)
	}
	return dg
}

func c18BCD(dg []byte) []byte {
	out := make([]byte, len(dg)/2)
	for i := range out {
		out[i] = dg[2*i]<<4 | dg[2*i+1]
	}
	return out
}

func c18Date(tag string) (time.Time, []byte) {
	dg := c18Digits(tag, 8)
	y := int(dg[0])*1000 + int(dg[1])*100 + int(dg[2])*10 + int(dg[3])
	m := int(dg[4])*10 + int(dg[5])
	d := int(dg[6])*10 + int(dg[7])
	verifAssume(y >= 2 && verifValidDate(y, m, d))
	return time.Date(y, time.Month(m), d, 0, 0, 0, 0, time.Local), c18BCD(dg)
}

func c18Civil(a, b time.Time) bool {
	return a.Year() == b.Year() && a.Month() == b.Month() && a.Day() == b.Day()
}

func c18Clock(a, b time.Time) bool {
	return a.Hour() == b.Hour() && a.Minute() == b.Minute() && a.Second() == b.Second()
}

func c18Uint(a, b reflect.Value) bool { return a.Uint() == b.Uint() }

func c18Kinds() []c18Kind {
	return []c18Kind{
		{"uint8", reflect.TypeOf(uint8(0)), 1, func(tag string) (reflect.Value, []byte) {
			v := nondetU8(tag)
			return reflect.ValueOf(v), []byte{v}
		}, c18Uint},
		{"uint16", reflect.TypeOf(uint16(0)), 2, func(tag string) (reflect.Value, []byte) {
			v := nondetU16(tag)
			return reflect.ValueOf(v), []byte{byte(v), byte(v >> 8)}
		}, c18Uint},
		{"uint32", reflect.TypeOf(uint32(0)), 4, func(tag string) (reflect.Value, []byte) {
			v := nondetU32(tag)
			return reflect.ValueOf(v), []byte{byte(v), byte(v >> 8), byte(v >> 16), byte(v >> 24)}
		}, c18Uint},
		{"bool", reflect.TypeOf(false), 1, func(tag string) (reflect.Value, []byte) {
			v := nondetBool(tag)
			b := byte(0)
			if v {
				b = 1
			}
			return reflect.ValueOf(v), []byte{b}
		}, func(a, b reflect.Value) bool { return a.Bool() == b.Bool() }},
		{"IPv4", reflect.TypeOf(net.IP{}), 4, func(tag string) (reflect.Value, []byte) {
			b := nondetBytes(tag, 4)
			if nondetBool(tag + ".sixteen") {
				// the 16-byte form of the same address
				return reflect.ValueOf(net.IPv4(b[0], b[1], b[2], b[3])), []byte{b[0], b[1], b[2], b[3]}
			}
			return reflect.ValueOf(net.IP(b)), []byte{b[0], b[1], b[2], b[3]}
		}, func(a, b reflect.Value) bool {
			x, y := a.Interface().(net.IP).To4(), b.Interface().(net.IP).To4()
			return x != nil && y != nil && x[0] == y[0] && x[1] == y[1] && x[2] == y[2] && x[3] == y[3]
		}},
		{"AddrPort", reflect.TypeOf(netip.AddrPort{}), 6, func(tag string) (reflect.Value, []byte) {
			b := nondetBytes(tag, 4)
			p := nondetU16(tag + ".port")
			return reflect.ValueOf(netip.AddrPortFrom(netip.AddrFrom4([4]byte{b[0], b[1], b[2], b[3]}), p)), []byte{b[0], b[1], b[2], b[3], byte(p), byte(p >> 8)}
		}, func(a, b reflect.Value) bool { return a.Interface().(netip.AddrPort) == b.Interface().(netip.AddrPort) }},
		{"HardwareAddr", reflect.TypeOf(net.HardwareAddr{}), 6, func(tag string) (reflect.Value, []byte) {
			b := nondetBytes(tag, 6)
			return reflect.ValueOf(net.HardwareAddr(b)), append([]byte{}, b...)
		}, func(a, b reflect.Value) bool {
			x, y := a.Interface().(net.HardwareAddr), b.Interface().(net.HardwareAddr)
			return len(x) == 6 && len(y) == 6 && x[0] == y[0] && x[1] == y[1] && x[2] == y[2] && x[3] == y[3] && x[4] == y[4] && x[5] == y[5]
		}},
		{"MacAddress", reflect.TypeOf(types.MacAddress{}), 6, func(tag string) (reflect.Value, []byte) {
			b := nondetBytes(tag, 6)
			return reflect.ValueOf(types.MacAddress(b)), append([]byte{}, b...)
		}, func(a, b reflect.Value) bool {
			x, y := a.Interface().(types.MacAddress), b.Interface().(types.MacAddress)
			return len(x) == 6 && len(y) == 6 && x[0] == y[0] && x[1] == y[1] && x[2] == y[2] && x[3] == y[3] && x[4] == y[4] && x[5] == y[5]
		}},
		{"SerialNumber", reflect.TypeOf(types.SerialNumber(0)), 4, func(tag string) (reflect.Value, []byte) {
			v := nondetU32(tag)
			return reflect.ValueOf(types.SerialNumber(v)), []byte{byte(v), byte(v >> 8), byte(v >> 16), byte(v >> 24)}
		}, c18Uint},
		{"PIN", reflect.TypeOf(types.PIN(0)), 3, func(tag string) (reflect.Value, []byte) {
			v := nondetU32(tag)
			verifAssume(v <= 999999)
			return reflect.ValueOf(types.PIN(v)), []byte{byte(v), byte(v >> 8), byte(v >> 16)}
		}, c18Uint},
		{"Version", reflect.TypeOf(types.Version(0)), 2, func(tag string) (reflect.Value, []byte) {
			v := nondetU16(tag)
			return reflect.ValueOf(types.Version(v)), []byte{byte(v >> 8), byte(v)}
		}, c18Uint},
		{"Date", reflect.TypeOf(types.Date{}), 4, func(tag string) (reflect.Value, []byte) {
			if nondetBool(tag + ".zero") {
				return reflect.ValueOf(types.Date{}), []byte{0, 0, 0, 0}
			}
			t, bcd := c18Date(tag)
			return reflect.ValueOf(types.Date(t)), bcd
		}, func(a, b reflect.Value) bool {
			x, y := a.Interface().(types.Date), b.Interface().(types.Date)
			return x.IsZero() == y.IsZero() && (x.IsZero() || c18Civil(time.Time(x), time.Time(y)))
		}},
		{"DateTime", reflect.TypeOf(types.DateTime{}), 7, func(tag string) (reflect.Value, []byte) {
			if nondetBool(tag + ".zero") {
				return reflect.ValueOf(types.DateTime{}), []byte{0, 0, 0, 0, 0, 0, 0}
			}
			d, bcd := c18Date(tag)
			dg := c18Digits(tag+".clock", 6)
			h, mi, s := int(dg[0])*10+int(dg[1]), int(dg[2])*10+int(dg[3]), int(dg[4])*10+int(dg[5])
			verifAssume(h <= 23 && mi <= 59 && s <= 59)
			return reflect.ValueOf(types.DateTime(time.Date(d.Year(), d.Month(), d.Day(), h, mi, s, 0, time.Local))), append(bcd, c18BCD(dg)...)
		}, func(a, b reflect.Value) bool {
			x, y := a.Interface().(types.DateTime), b.Interface().(types.DateTime)
			return x.IsZero() == y.IsZero() && (x.IsZero() || (c18Civil(time.Time(x), time.Time(y)) && c18Clock(time.Time(x), time.Time(y))))
		}},
		{"SystemDate", reflect.TypeOf(types.SystemDate{}), 3, func(tag string) (reflect.Value, []byte) {
			if nondetBool(tag + ".zero") {
				return reflect.ValueOf(types.SystemDate{}), []byte{0, 0, 0}
			}
			t, bcd := c18Date(tag)
			verifAssume(t.Year() >= 2000 && t.Year() <= 2068)
			return reflect.ValueOf(types.SystemDate(t)), bcd[1:]
		}, func(a, b reflect.Value) bool {
			x, y := a.Interface().(types.SystemDate), b.Interface().(types.SystemDate)
			return x.IsZero() == y.IsZero() && (x.IsZero() || c18Civil(time.Time(x), time.Time(y)))
		}},
		{"SystemTime", reflect.TypeOf(types.SystemTime{}), 3, func(tag string) (reflect.Value, []byte) {
			dg := c18Digits(tag, 6)
			h, mi, s := int(dg[0])*10+int(dg[1]), int(dg[2])*10+int(dg[3]), int(dg[4])*10+int(dg[5])
			verifAssume(h <= 23 && mi <= 59 && s <= 59)
			return reflect.ValueOf(types.SystemTime(time.Date(2000, time.January, 1, h, mi, s, 0, time.Local))), c18BCD(dg)
		}, func(a, b reflect.Value) bool {
			return c18Clock(time.Time(a.Interface().(types.SystemTime)), time.Time(b.Interface().(types.SystemTime)))
		}},
		{"HHmm", reflect.TypeOf(types.HHmm{}), 2, func(tag string) (reflect.Value, []byte) {
			dg := c18Digits(tag, 4)
			h, m := int(dg[0])*10+int(dg[1]), int(dg[2])*10+int(dg[3])
			verifAssume(h <= 24 && m <= 59 && (h < 24 || m == 0))
			return reflect.ValueOf(types.NewHHmm(h, m)), c18BCD(dg)
		}, func(a, b reflect.Value) bool { return a.Interface().(types.HHmm).Equals(b.Interface().(types.HHmm)) }},
		{"DatePtr", reflect.TypeOf(&types.Date{}), 4, func(tag string) (reflect.Value, []byte) {
			if nondetBool(tag + ".nil") {
				var p *types.Date
				return reflect.ValueOf(p), []byte{0, 0, 0, 0}
			}
			t, bcd := c18Date(tag)
			v := types.Date(t)
			return reflect.ValueOf(&v), bcd
		}, func(a, b reflect.Value) bool {
			x, y := a.Interface().(*types.Date), b.Interface().(*types.Date)
			if x == nil {
				// a nil pointer encodes as 'no date': it comes back as nil or as the zero date
				return y == nil || y.IsZero()
			}
			return y != nil && c18Civil(time.Time(*x), time.Time(*y))
		}},
		{"HHmmPtr", reflect.TypeOf(&types.HHmm{}), 2, func(tag string) (reflect.Value, []byte) {
			if nondetBool(tag + ".nil") {
				var p *types.HHmm
				return reflect.ValueOf(p), []byte{0, 0}
			}
			dg := c18Digits(tag, 4)
			h, m := int(dg[0])*10+int(dg[1]), int(dg[2])*10+int(dg[3])
			verifAssume(h <= 24 && m <= 59 && (h < 24 || m == 0))
			v := types.NewHHmm(h, m)
			return reflect.ValueOf(&v), c18BCD(dg)
		}, func(a, b reflect.Value) bool {
			x, y := a.Interface().(*types.HHmm), b.Interface().(*types.HHmm)
			if x == nil {
				return y == nil || y.Equals(types.NewHHmm(0, 0))
			}
			return y != nil && x.Equals(*y)
		}},
	}
}

func c18Tag(offset int) reflect.StructTag {
	return reflect.StructTag(`uhppote:"offset:` + strconv.Itoa(offset) + `"`)
}

// one single-field layout: struct { F kind `uhppote:"offset:N"` }
func c18Single(k c18Kind, offset int) {
	what := k.name + "@" + strconv.Itoa(offset)
	t := reflect.StructOf([]reflect.StructField{{Name: "F", Type: k.typ, Tag: c18Tag(offset)}})
	v := reflect.New(t)
	val, enc := k.gen("v")
	v.Elem().Field(0).Set(val)
	bytes, err := Marshal(v.Interface())
	verifAssert(err == nil && len(bytes) == 64, what+": encodes to 64 bytes")
	if err != nil || len(bytes) != 64 {
		return
	}
	want := make([]byte, 64)
	want[0] = 0x17
	copy(want[offset:], enc)
	verifAssertEqBytes(bytes, want, what+": exactly the field's bytes at its offset, zero elsewhere")
	back := reflect.New(t)
	err = Unmarshal(bytes, back.Interface())
	verifAssert(err == nil, what+": the encoding decodes")
	if err == nil {
		verifAssert(k.same(val, back.Elem().Field(0)), what+": decoding returns the encoded value")
		// decoded values share no memory with the input buffer
		verifHavoc(&bytes)
		verifAssert(k.same(val, back.Elem().Field(0)), what+": the decoded value shares no memory with the input buffer")
	}
	// the decoded value depends on the field's own bytes only: every other byte of the message arbitrary
	noisy := nondetBytes("noise", 64)
	noisy[0] = 0x17
	copy(noisy[offset:offset+k.width], enc)
	back2 := reflect.New(t)
	err = Unmarshal(noisy, back2.Interface())
	verifAssert(err == nil && k.same(val, back2.Elem().Field(0)), what+": decoding reads the field's own bytes only (the rest of the message is arbitrary)")
	verifReach("c18." + k.name)
}

func c18AllOffsets(name string, quick bool) {
	verifZone(1)
	for _, k := range c18Kinds() {
		if k.name != name {
			continue
		}
		last := 64 - k.width
		var offsets []int
		for off := 2; off <= last; off++ {
			// quick: the boundary offsets (first, one in the middle, the last two that fit); thorough: all
			if quick && !(off == 2 || off == 31 || off >= last-1) {
				continue
			}
			offsets = append(offsets, off)
		}
		// each offset is its own layout (program): explored as an independent path
		c18Single(k, offsets[nondetEnum("layout", len(offsets))])
	}
}

func VerifC18_Uint8()        { c18AllOffsets("uint8", true) }
func VerifC18_Uint16()       { c18AllOffsets("uint16", true) }
func VerifC18_Uint32()       { c18AllOffsets("uint32", true) }
func VerifC18_Bool()         { c18AllOffsets("bool", true) }
func VerifC18_IPv4()         { c18AllOffsets("IPv4", true) }
func VerifC18_AddrPort()     { c18AllOffsets("AddrPort", true) }
func VerifC18_HardwareAddr() { c18AllOffsets("HardwareAddr", true) }
func VerifC18_MacAddress()   { c18AllOffsets("MacAddress", true) }
func VerifC18_SerialNumber() { c18AllOffsets("SerialNumber", true) }
func VerifC18_PIN()          { c18AllOffsets("PIN", true) }
func VerifC18_Version()      { c18AllOffsets("Version", true) }
func VerifC18_Date()         { c18AllOffsets("Date", true) }
func VerifC18_DateTime()     { c18AllOffsets("DateTime", true) }
func VerifC18_SystemDate()   { c18AllOffsets("SystemDate", true) }
func VerifC18_SystemTime()   { c18AllOffsets("SystemTime", true) }
func VerifC18_HHmm()         { c18AllOffsets("HHmm", true) }
func VerifC18_DatePtr()      { c18AllOffsets("DatePtr", true) }
func VerifC18_HHmmPtr()      { c18AllOffsets("HHmmPtr", true) }

func VerifC18_T_AllUint8()        { c18AllOffsets("uint8", false) }
func VerifC18_T_AllUint16()       { c18AllOffsets("uint16", false) }
func VerifC18_T_AllUint32()       { c18AllOffsets("uint32", false) }
func VerifC18_T_AllBool()         { c18AllOffsets("bool", false) }
func VerifC18_T_AllIPv4()         { c18AllOffsets("IPv4", false) }
func VerifC18_T_AllAddrPort()     { c18AllOffsets("AddrPort", false) }
func VerifC18_T_AllHardwareAddr() { c18AllOffsets("HardwareAddr", false) }
func VerifC18_T_AllMacAddress()   { c18AllOffsets("MacAddress", false) }
func VerifC18_T_AllSerialNumber() { c18AllOffsets("SerialNumber", false) }
func VerifC18_T_AllPIN()          { c18AllOffsets("PIN", false) }
func VerifC18_T_AllVersion()      { c18AllOffsets("Version", false) }
func VerifC18_T_AllHHmm()         { c18AllOffsets("HHmm", false) }
func VerifC18_T_AllSystemTime()   { c18AllOffsets("SystemTime", false) }
