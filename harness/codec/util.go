package UTO311_L0x

import "time"

func timeMonth(m int) time.Month { return time.Month(m) }
