// verif:properties C18
package UTO311_L0x

import (
	"github.com/uhppoted/uhppote-core/types"
)

type vSmoke struct {
	MsgType types.MsgType      `uhppote:"value:0x94"`
	Serial  types.SerialNumber `uhppote:"offset:4"`
	V32     uint32             `uhppote:"offset:8"`
	B       bool               `uhppote:"offset:12"`
	U8      uint8              `uhppote:"offset:13"`
	U16     uint16             `uhppote:"offset:14"`
	D       types.Date         `uhppote:"offset:16"`
}

func VerifC18_Smoke() {
	verifZone(1)
	dg := nondetBytes("dg", 8) // decimal digits of YYYYMMDD
	for i := 0; i < 8; i++ {
		verifAssume(dg[i] <= 9)
	}
	y := int(dg[0])*1000 + int(dg[1])*100 + int(dg[2])*10 + int(dg[3])
	m := int(dg[4])*10 + int(dg[5])
	d := int(dg[6])*10 + int(dg[7])
	verifAssume(y >= 1 && y <= 9999 && verifValidDate(y, m, d))
	verifAssume(!(y == 1 && m == 1 && d == 1)) // 0001-01-01 is the zero 'no date' value when the zone offset is 0
	v := vSmoke{
		Serial: types.SerialNumber(nondetU32("serial")),
		V32:    nondetU32("v32"),
		B:      nondetBool("b"),
		U8:     nondetU8("u8"),
		U16:    nondetU16("u16"),
		D:      types.ToDate(y, 0+timeMonth(m), d),
	}
	bytes, err := Marshal(v)
	verifAssert(err == nil, "marshal ok")
	verifAssert(len(bytes) == 64, "64 bytes")
	verifObserve("bytes", bytes)
	want := make([]byte, 64)
	want[0] = 0x17
	want[1] = 0x94
	s := uint32(v.Serial)
	want[4], want[5], want[6], want[7] = byte(s), byte(s>>8), byte(s>>16), byte(s>>24)
	want[8], want[9], want[10], want[11] = byte(v.V32), byte(v.V32>>8), byte(v.V32>>16), byte(v.V32>>24)
	if v.B {
		want[12] = 1
	}
	want[13] = v.U8
	want[14], want[15] = byte(v.U16), byte(v.U16>>8)
	want[16] = dg[0]<<4 | dg[1]
	want[17] = dg[2]<<4 | dg[3]
	want[18] = dg[4]<<4 | dg[5]
	want[19] = dg[6]<<4 | dg[7]
	verifAssertEqBytes(bytes, want, "marshal bytes")

	var back vSmoke
	err = Unmarshal(bytes, &back)
	verifAssert(err == nil, "unmarshal ok")
	verifAssert(back.Serial == v.Serial && back.V32 == v.V32 && back.B == v.B && back.U8 == v.U8 && back.U16 == v.U16, "round trip scalars")
	verifAssert(back.D.Equals(v.D), "round trip date")
	verifReach("c18.smoke")
}
