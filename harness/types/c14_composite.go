// verif:properties C14
package types

import (
	"encoding/json"
	"time"
)

// C14, composite types (card, task, time profile, segments): the JSON encoding of an in-domain value decodes
// into a fresh zero-valued variable as an equal value.  encoding/json's own part (reflection, text syntax of
// objects and arrays) is an abstract document in the engine; every leaf is the exact text the repository's
// MarshalJSON methods produce and is decoded by its UnmarshalJSON methods, and the glue the repository writes
// around json.Marshal/Unmarshal (shadow structs, defaults, map filling, nil checks) is executed as is.

func c14DateT(tag string) (Date, int, int, int) {
	y := nondetInt(tag + ".y")
	m := nondetInt(tag + ".m")
	d := nondetInt(tag + ".d")
	verifAssume(y >= 1 && y <= 9999 && verifValidDate(y, m, d))
	verifAssume(!(y == 1 && m == 1 && d == 1))
	return ToDate(y, time.Month(m), d), y, m, d
}

func c14IsDate(v Date, y, m, d int) bool {
	t := time.Time(v)
	return t.Year() == y && int(t.Month()) == m && t.Day() == d
}

func c14HHmmT(tag string) HHmm {
	h := nondetInt(tag + ".h")
	m := nondetInt(tag + ".m")
	verifAssume((h >= 0 && h <= 23 && m >= 0 && m <= 59) || (h == 24 && m == 0))
	return HHmm{hours: h, minutes: m}
}

var c14Days = []time.Weekday{time.Monday, time.Tuesday, time.Wednesday, time.Thursday, time.Friday, time.Saturday, time.Sunday}

// (all 128 weekday sets are covered for Weekdays on its own; inside the composites three of them)
func c14WeekdaysT(tag string) (Weekdays, [7]bool) {
	v := Weekdays{}
	var want [7]bool
	switch nondetEnum(tag, 3) {
	case 1:
		want = [7]bool{true, false, true, false, false, false, true}
	case 2:
		want = [7]bool{true, true, true, true, true, true, true}
	}
	for i, d := range c14Days {
		if want[i] {
			v[d] = true
		}
	}
	return v, want
}

func c14SameWeekdays(w Weekdays, want [7]bool) bool {
	ok := true
	for i, d := range c14Days {
		if w[d] != want[i] {
			ok = false
		}
	}
	return ok
}

// ---- segments: the segments 1..k of a profile (k = 0..3)

func c14SegmentsT(tag string, k int) Segments {
	ss := Segments{}
	for i := 1; i <= k; i++ {
		ss[uint8(i)] = Segment{Start: c14HHmmT(keyTagT(tag+".start", i)), End: c14HHmmT(keyTagT(tag+".end", i))}
	}
	return ss
}

func c14SameSegments(a, b Segments, k int) bool {
	ok := len(b) == k
	for i := 1; i <= k; i++ {
		x, okx := a[uint8(i)]
		y, oky := b[uint8(i)]
		if !okx || !oky || x != y {
			ok = false
		}
	}
	return ok
}

func c14Segments(intoNil bool) {
	k := nondetEnum("segments", 4)
	v := c14SegmentsT("seg", k)
	b, err := json.Marshal(v)
	verifAssert(err == nil, "Segments: encoding succeeds")
	var w Segments
	if !intoNil {
		w = Segments{}
	}
	err = json.Unmarshal(b, &w)
	verifAssert(err == nil, "Segments: decoding its own JSON succeeds")
	verifAssert(c14SameSegments(v, w, k), "Segments: JSON round trip yields the same segments")
	verifReach("c14.segments")
}

func VerifC14_SegmentsJSONIntoZeroValue() { c14Segments(true) }
func VerifC14_SegmentsJSONIntoEmptyMap()  { c14Segments(false) }

// ---- card

// light: the dates and the PIN are given (their own round trips are the subject elsewhere)
func c14CardT(tag string, light bool, pin uint32) (Card, [6]int) {
	var from, to Date
	var y1, m1, d1, y2, m2, d2 int
	if light {
		y1, m1, d1, y2, m2, d2 = 2023, 2, 28, 2024, 12, 31
		from, to = ToDate(y1, time.Month(m1), d1), ToDate(y2, time.Month(m2), d2)
	} else {
		from, y1, m1, d1 = c14DateT(tag + ".from")
		to, y2, m2, d2 = c14DateT(tag + ".to")
		pin = nondetU32(tag + ".pin")
		verifAssume(pin <= 999999)
	}
	c := Card{
		CardNumber: nondetU32(tag + ".number"),
		From:       from,
		To:         to,
		Doors:      map[uint8]uint8{1: nondetU8(tag + ".door1"), 2: nondetU8(tag + ".door2"), 3: nondetU8(tag + ".door3"), 4: nondetU8(tag + ".door4")},
		PIN:        PIN(pin),
	}
	return c, [6]int{y1, m1, d1, y2, m2, d2}
}

func c14SameCard(v, w Card, ds [6]int) bool {
	ok := w.CardNumber == v.CardNumber && w.PIN == v.PIN && len(w.Doors) == 4
	ok = ok && c14IsDate(w.From, ds[0], ds[1], ds[2]) && c14IsDate(w.To, ds[3], ds[4], ds[5])
	for i := uint8(1); i <= 4; i++ {
		if w.Doors[i] != v.Doors[i] {
			ok = false
		}
	}
	return ok
}

func VerifC14_CardJSON() {
	verifZone(1)
	v, ds := c14CardT("card", false, 0)
	b, err := json.Marshal(v)
	verifAssert(err == nil, "Card: encoding succeeds")
	var w Card // fresh zero value: nil Doors map
	err = json.Unmarshal(b, &w)
	verifAssert(err == nil, "Card: decoding its own JSON succeeds")
	verifAssert(c14SameCard(v, w, ds), "Card: JSON round trip yields an equal card")
	verifReach("c14.card")
}

// two cards decoded one after the other: the first is not changed by the second
func VerifC14_CardJSONTwice() {
	verifZone(1)
	v1, ds1 := c14CardT("card1", true, 123456)
	v2, ds2 := c14CardT("card2", true, 0) // no PIN in the second document
	b1, err1 := json.Marshal(v1)
	b2, err2 := json.Marshal(v2)
	verifAssert(err1 == nil && err2 == nil, "Card: encoding succeeds")
	var w1, w2 Card
	err1 = json.Unmarshal(b1, &w1)
	err2 = json.Unmarshal(b2, &w2)
	verifAssert(err1 == nil && err2 == nil, "Card: decoding its own JSON succeeds")
	verifAssert(c14SameCard(v1, w1, ds1) && c14SameCard(v2, w2, ds2), "Card: two cards decoded one after the other are each equal to their original")
	verifReach("c14.card.twice")
}

// ---- task

func VerifC14_TaskJSON() {
	verifZone(1)
	from, y1, m1, d1 := c14DateT("task.from")
	to, y2, m2, d2 := c14DateT("task.to")
	days, want := c14WeekdaysT("task.day")
	tt := nondetEnum("task.type", 13)
	v := Task{
		Task:     TaskType(tt),
		Door:     nondetU8("task.door"),
		From:     from,
		To:       to,
		Weekdays: days,
		Start:    c14HHmmT("task.start"),
		Cards:    nondetU8("task.cards"),
	}
	b, err := json.Marshal(v)
	verifAssert(err == nil, "Task: encoding succeeds")
	var w Task // fresh zero value: nil Weekdays map
	err = json.Unmarshal(b, &w)
	verifAssert(err == nil, "Task: decoding its own JSON succeeds")
	ok := w.Task == v.Task && w.Door == v.Door && w.Start == v.Start && w.Cards == v.Cards
	ok = ok && c14IsDate(w.From, y1, m1, d1) && c14IsDate(w.To, y2, m2, d2) && c14SameWeekdays(w.Weekdays, want)
	verifAssert(ok, "Task: JSON round trip yields an equal task")
	verifReach("c14.task")
}

// ---- time profile

type c14Profile struct {
	v    TimeProfile
	ds   [6]int
	days [7]bool
	k    int
}

// light: the dates are given and the weekday set is the sample asked for
func c14ProfileT(tag string, k int, light bool, sample int) c14Profile {
	var from, to Date
	var y1, m1, d1, y2, m2, d2 int
	var days Weekdays
	var want [7]bool
	if light {
		y1, m1, d1, y2, m2, d2 = 2023, 2, 28, 2024, 12, 31
		from, to = ToDate(y1, time.Month(m1), d1), ToDate(y2, time.Month(m2), d2)
		days = Weekdays{}
		if sample == 1 {
			want = [7]bool{true, false, true, false, false, false, true}
			days[time.Monday], days[time.Wednesday], days[time.Sunday] = true, true, true
		}
	} else {
		from, y1, m1, d1 = c14DateT(tag + ".from")
		to, y2, m2, d2 = c14DateT(tag + ".to")
		days, want = c14WeekdaysT(tag + ".day")
	}
	v := TimeProfile{
		ID:              nondetU8(tag + ".id"),
		LinkedProfileID: nondetU8(tag + ".linked"),
		From:            from,
		To:              to,
		Weekdays:        days,
		Segments:        c14SegmentsT(tag+".seg", k),
	}
	return c14Profile{v: v, ds: [6]int{y1, m1, d1, y2, m2, d2}, days: want, k: k}
}

// the segments the value has come back as they are; a segment the value does not have comes back absent or
// as 00:00-00:00 (the decoder fills in the three segments of a controller profile)
func c14SameProfile(p c14Profile, w TimeProfile) bool {
	ok := w.ID == p.v.ID && w.LinkedProfileID == p.v.LinkedProfileID
	ok = ok && c14IsDate(w.From, p.ds[0], p.ds[1], p.ds[2]) && c14IsDate(w.To, p.ds[3], p.ds[4], p.ds[5])
	ok = ok && c14SameWeekdays(w.Weekdays, p.days) && len(w.Segments) <= 3
	for i := 1; i <= 3; i++ {
		got, has := w.Segments[uint8(i)]
		if i <= p.k {
			if !has || got != p.v.Segments[uint8(i)] {
				ok = false
			}
		} else if has && got != (Segment{}) {
			ok = false
		}
	}
	return ok
}

func VerifC14_TimeProfileJSON() {
	verifZone(1)
	p := c14ProfileT("profile", nondetEnum("profile.segments", 4), false, 0)
	b, err := json.Marshal(p.v)
	verifAssert(err == nil, "TimeProfile: encoding succeeds")
	var w TimeProfile // fresh zero value: nil Weekdays and Segments maps
	err = json.Unmarshal(b, &w)
	verifAssert(err == nil, "TimeProfile: decoding its own JSON succeeds")
	verifAssert(c14SameProfile(p, w), "TimeProfile: JSON round trip yields an equal profile")
	verifReach("c14.profile")
}

// two profiles decoded one after the other (the second one with fewer segments): each equals its original,
// nothing is carried over from one decode to the next
func VerifC14_TimeProfileJSONTwice() {
	verifZone(1)
	p1 := c14ProfileT("profile1", 3, true, 1)
	p2 := c14ProfileT("profile2", nondetEnum("profile2.segments", 4), true, 0) // fewer segments, no weekdays
	b1, err1 := json.Marshal(p1.v)
	b2, err2 := json.Marshal(p2.v)
	verifAssert(err1 == nil && err2 == nil, "TimeProfile: encoding succeeds")
	var w1, w2 TimeProfile
	err1 = json.Unmarshal(b1, &w1)
	err2 = json.Unmarshal(b2, &w2)
	verifAssert(err1 == nil && err2 == nil, "TimeProfile: decoding its own JSON succeeds")
	verifAssert(c14SameProfile(p1, w1), "TimeProfile: a decoded profile is not changed by a later decode")
	verifAssert(c14SameProfile(p2, w2), "TimeProfile: a profile decoded after another one equals its original")
	verifReach("c14.profile.twice")
}
