// verif:properties C13
package types

import "time"

// C13 - calendar dates and times keep their civil value in every time zone.
//
// Zone view Z2: the process zone is a symbolic two-interval zone (offset o1 before the transition instant,
// o2 from it on; the instant lies tau seconds after 00:00 UTC of the date under test).  The *_IANA variants
// constrain (o1, o2, tau, date) to the transitions of the installed tzdata and replay in that real zone.

type c13Date struct {
	dg      []byte
	y, m, d int
}

// c13Fixed: the process zone is any fixed offset instead (zone view Z1) - a violation there needs no real-zone
// refinement: every offset is a legitimate process zone (POSIX TZ strings)
var c13Fixed bool

func c13AnyDate(iana bool) c13Date {
	dg := nondetBytes("date.digits", 8)
	for i := 0; i < 8; i++ {
		verifAssume(dg[i] <= 9)
	}
	y := int(dg[0])*1000 + int(dg[1])*100 + int(dg[2])*10 + int(dg[3])
	m := int(dg[4])*10 + int(dg[5])
	d := int(dg[6])*10 + int(dg[7])
	verifAssume(y >= 1 && verifValidDate(y, m, d))
	verifAssume(!(y == 1 && m == 1 && d == 1))
	verifAssume(!(y == 9999 && m == 12 && d == 31)) // the day after must exist in the time model
	if c13Fixed {
		verifZone(1)
		return c13Date{dg: dg, y: y, m: m, d: d}
	}
	if iana {
		verifZoneTable()
	}
	verifZoneAt(y, m, d)
	return c13Date{dg: dg, y: y, m: m, d: d}
}

func (x c13Date) text() string {
	b := []byte{'0' + x.dg[0], '0' + x.dg[1], '0' + x.dg[2], '0' + x.dg[3], '-', '0' + x.dg[4], '0' + x.dg[5], '-', '0' + x.dg[6], '0' + x.dg[7]}
	return string(b)
}

func (x c13Date) bcd() []byte {
	return []byte{x.dg[0]<<4 | x.dg[1], x.dg[2]<<4 | x.dg[3], x.dg[4]<<4 | x.dg[5], x.dg[6]<<4 | x.dg[7]}
}

// c13CheckDate: the date reports exactly (y, m, d) and encodes back to exactly those digits.
func c13CheckDate(got Date, x c13Date, what string) {
	t := time.Time(got)
	verifObserve(what+".year", t.Year())
	verifObserve(what+".month", int(t.Month()))
	verifObserve(what+".day", t.Day())
	verifAssert(t.Year() == x.y && int(t.Month()) == x.m && t.Day() == x.d, what+": date reports another calendar day than the one given")
	verifAssert(!got.IsZero(), what+": a valid date came back as the zero date")
	verifAssert(got.String() == x.text(), what+": String() differs from the given digits")
	enc, err := got.MarshalUT0311L0x()
	verifAssert(err == nil, what+": wire encoding failed")
	if err == nil {
		verifAssertEqBytes(enc, x.bcd(), what+": wire encoding differs from the given digits")
	}
	js, err := got.MarshalJSON()
	verifAssert(err == nil, what+": JSON encoding failed")
	if err == nil {
		verifAssertEqBytes(js, []byte("\""+x.text()+"\""), what+": JSON encoding differs from the given digits")
	}
}

func c13ToDate(iana bool) {
	x := c13AnyDate(iana)
	c13CheckDate(ToDate(x.y, time.Month(x.m), x.d), x, "ToDate")
	verifReach("c13.todate")
}

func VerifC13_ToDate()      { c13ToDate(false) }
func VerifC13_ToDate_IANA() { c13ToDate(true) }

func c13ParseDate(iana bool) {
	x := c13AnyDate(iana)
	got, err := ParseDate(x.text())
	verifAssert(err == nil, "ParseDate: a valid date was rejected")
	if err == nil {
		c13CheckDate(got, x, "ParseDate")
		verifReach("c13.parsedate")
	}
}

func VerifC13_ParseDate()      { c13ParseDate(false) }
func VerifC13_ParseDate_IANA() { c13ParseDate(true) }

func c13DateWire(iana bool) {
	x := c13AnyDate(iana)
	var d Date
	v, err := d.UnmarshalUT0311L0x(x.bcd())
	verifAssert(err == nil, "Date wire decode: a valid date was rejected")
	if err == nil {
		p, ok := v.(*Date)
		verifAssert(ok && p != nil, "Date wire decode: no date returned")
		if ok && p != nil {
			c13CheckDate(*p, x, "Date wire decode")
			verifReach("c13.datewire")
		}
	}
}

func VerifC13_DateWire()      { c13DateWire(false) }
func VerifC13_DateWire_IANA() { c13DateWire(true) }

func c13DateJSON(iana bool) {
	x := c13AnyDate(iana)
	var d Date
	err := d.UnmarshalJSON([]byte("\"" + x.text() + "\""))
	verifAssert(err == nil, "Date JSON decode: a valid date was rejected")
	if err == nil {
		c13CheckDate(d, x, "Date JSON decode")
		verifReach("c13.datejson")
	}
}

func VerifC13_DateJSON()      { c13DateJSON(false) }
func VerifC13_DateJSON_IANA() { c13DateJSON(true) }

// the four entry points under any fixed offset, all dates 0001-01-02..9999-12-30
func c13WithFixedOffset(f func(bool)) {
	c13Fixed = true
	defer func() { c13Fixed = false }()
	f(false)
}

func VerifC13_ToDateFixedOffset()     { c13WithFixedOffset(c13ToDate) }
func VerifC13_ParseDateFixedOffset()  { c13WithFixedOffset(c13ParseDate) }
func VerifC13_DateWireFixedOffset()   { c13WithFixedOffset(c13DateWire) }
func VerifC13_DateJSONFixedOffset()   { c13WithFixedOffset(c13DateJSON) }
func VerifC13_SystemDateFixedOffset() { c13WithFixedOffset(c13SystemDate) }

// SystemDate: BCD YYMMDD, years 2000..2068.
func c13SystemDate(iana bool) {
	x := c13AnyDate(iana)
	verifAssume(x.dg[0] == 2 && x.dg[1] == 0 && x.y <= 2068)
	var d SystemDate
	v, err := d.UnmarshalUT0311L0x(x.bcd()[1:])
	verifAssert(err == nil, "SystemDate wire decode: a valid date was rejected")
	if err == nil {
		p, ok := v.(*SystemDate)
		verifAssert(ok && p != nil, "SystemDate wire decode: no date returned")
		if ok && p != nil {
			t := time.Time(*p)
			verifObserve("sysdate.day", t.Day())
			verifAssert(t.Year() == x.y && int(t.Month()) == x.m && t.Day() == x.d, "SystemDate wire decode: reports another calendar day than the one transmitted")
			verifAssert(p.String() == x.text(), "SystemDate: String() differs from the transmitted digits")
			enc, err := p.MarshalUT0311L0x()
			verifAssert(err == nil, "SystemDate: wire encoding failed")
			if err == nil {
				verifAssertEqBytes(enc, x.bcd()[1:], "SystemDate: wire encoding differs from the transmitted digits")
			}
			verifReach("c13.sysdate")
		}
	}
}

func VerifC13_SystemDate()      { c13SystemDate(false) }
func VerifC13_SystemDate_IANA() { c13SystemDate(true) }

// c13Exists: the civil time sod seconds into the anchor day exists in the zone (is not inside the gap of
// a forward transition).
func c13Exists(sod int) bool {
	o1, o2, tau := verifZoneParams()
	return !(o2 > o1 && sod-o1 >= tau && sod-o2 < tau)
}

type c13Clock struct {
	dg      []byte
	h, m, s int
}

func c13AnyClock() c13Clock {
	dg := nondetBytes("time.digits", 6)
	for i := 0; i < 6; i++ {
		verifAssume(dg[i] <= 9)
	}

	c := c13Clock{dg: dg, h: int(dg[0])*10 + int(dg[1]), m: int(dg[2])*10 + int(dg[3]), s: int(dg[4])*10 + int(dg[5])}
	verifAssume(c.h <= 23 && c.m <= 59 && c.s <= 59)
	return c
}

func (c c13Clock) bcd() []byte {
	return []byte{c.dg[0]<<4 | c.dg[1], c.dg[2]<<4 | c.dg[3], c.dg[4]<<4 | c.dg[5]}
}

// DateTime read from a controller: exactly the transmitted fields whenever that civil time exists.
func c13DateTimeWire(iana bool) {
	verifUseSummary("bcd.Decode") // compositional: the contract of bcd.Decode is what C12 proves
	x := c13AnyDate(iana)
	c := c13AnyClock()
	verifAssume(c13Exists(c.h*3600 + c.m*60 + c.s))
	var d DateTime
	v, err := d.UnmarshalUT0311L0x(append(x.bcd(), c.bcd()...))
	verifAssert(err == nil, "DateTime wire decode: a valid date-time was rejected")
	if err == nil {
		p, ok := v.(*DateTime)
		verifAssert(ok && p != nil, "DateTime wire decode: no value returned")
		if ok && p != nil {
			t := time.Time(*p)
			verifObserve("datetime.day", t.Day())
			verifObserve("datetime.hour", t.Hour())
			verifAssert(t.Year() == x.y && int(t.Month()) == x.m && t.Day() == x.d, "DateTime wire decode: reports another calendar day than the one transmitted")
			verifAssert(t.Hour() == c.h && t.Minute() == c.m && t.Second() == c.s, "DateTime wire decode: reports another time of day than the one transmitted")
			verifAssert(!p.IsZero(), "DateTime wire decode: an existing date-time came back as the zero value")
			enc, err := p.MarshalUT0311L0x()
			verifAssert(err == nil, "DateTime: wire encoding failed")
			if err == nil {
				verifAssertEqBytes(enc, append(x.bcd(), c.bcd()...), "DateTime: wire encoding differs from the transmitted digits")
			}
			verifReach("c13.datetimewire")
		}
	}
}

func VerifC13_DateTimeWire()      { c13DateTimeWire(false) }
func VerifC13_DateTimeWire_IANA() { c13DateTimeWire(true) }
