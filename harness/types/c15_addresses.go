// verif:properties C15 C14
package types

import "net/netip"

// C15 - address parsing accepts exactly IPv4[:port] under each role's port rule.
//
// The form grammar (octet '.' octet '.' octet '.' octet [':' port]) is written here from the property,
// independently of the repository's regular expressions: the string is assembled from a shape
// (digit counts, enumerated) and symbolic digit characters.

type c15Role struct {
	name        string
	defPort     int  // port when the text has none (-1: the port is mandatory)
	forbid0     bool // port 0 is rejected
	forbid60000 bool // port 60000 is rejected
	parse       func(string) (netip.AddrPort, error)
	format      func(netip.AddrPort) string
	set         func(netip.AddrPort, string) (netip.AddrPort, error) // Set on a variable that already holds an address
}

func c15Roles() []c15Role {
	return []c15Role{
		{"bind", 0, false, true,
			func(s string) (netip.AddrPort, error) { a, err := ParseBindAddr(s); return a.AddrPort, err },
			func(a netip.AddrPort) string { return BindAddr{a}.String() },
			func(old netip.AddrPort, s string) (netip.AddrPort, error) {
				x := BindAddr{old}
				err := x.Set(s)
				return x.AddrPort, err
			}},
		{"broadcast", 60000, true, false,
			func(s string) (netip.AddrPort, error) { a, err := ParseBroadcastAddr(s); return a.AddrPort, err },
			func(a netip.AddrPort) string { return BroadcastAddr{a}.String() },
			func(old netip.AddrPort, s string) (netip.AddrPort, error) {
				x := BroadcastAddr{old}
				err := x.Set(s)
				return x.AddrPort, err
			}},
		{"listen", -1, true, true,
			func(s string) (netip.AddrPort, error) { a, err := ParseListenAddr(s); return a.AddrPort, err },
			func(a netip.AddrPort) string { return ListenAddr{a}.String() },
			func(old netip.AddrPort, s string) (netip.AddrPort, error) {
				x := ListenAddr{old}
				err := x.Set(s)
				return x.AddrPort, err
			}},
		{"controller", 60000, true, false,
			func(s string) (netip.AddrPort, error) { a, err := ParseControllerAddr(s); return a.AddrPort, err },
			func(a netip.AddrPort) string { return ControllerAddr{a}.String() },
			func(old netip.AddrPort, s string) (netip.AddrPort, error) {
				x := ControllerAddr{old}
				err := x.Set(s)
				return x.AddrPort, err
			}},
	}
}

// c15Number: n symbolic decimal digits without a leading zero (a single '0' is fine); returns text and value.
func c15Number(tag string, n int) ([]byte, int) {
	dg := nondetBytes(tag, n)
	v := 0
	for i := 0; i < n; i++ {
		verifAssume(dg[i] >= '0' && dg[i] <= '9')
		v = v*10 + int(dg[i]-'0')
	}
	if n > 1 {
		verifAssume(dg[0] != '0')
	}
	return dg, v
}

type c15Text struct {
	s       string
	octets  [4]int
	port    int
	hasPort bool
}

// c15Form: any string of the form a.b.c.d or a.b.c.d:port with octet digit counts l[0..3] and pd port digits.
func c15Form(l [4]int, pd int) c15Text {
	var t c15Text
	var b []byte
	for i := 0; i < 4; i++ {
		dg, v := c15Number(keyTagT("octet", i), l[i])
		verifAssume(v <= 255)
		t.octets[i] = v
		if i > 0 {
			b = append(b, '.')
		}
		b = append(b, dg...)
	}
	if pd > 0 {
		dg, v := c15Number("port", pd)
		verifAssume(v <= 65535)
		t.port, t.hasPort = v, true
		b = append(b, ':')
		b = append(b, dg...)
	}
	t.s = string(b)
	return t
}

func keyTagT(tag string, k int) string { return tag + "." + string(rune('0'+k)) }

func c15Check(r c15Role, t c15Text) {
	got, err := r.parse(t.s)
	port := t.port
	if !t.hasPort {
		port = r.defPort
	}
	reject := port < 0 || (r.forbid0 && port == 0 && t.hasPort) || (r.forbid60000 && port == 60000 && t.hasPort)
	verifObserve(r.name+".err", err != nil)
	// Set on a variable that already holds an address - possibly the same IP address with another port
	old := netip.AddrPortFrom(netip.AddrFrom4([4]byte{nondetU8("old.a"), nondetU8("old.b"), nondetU8("old.c"), nondetU8("old.d")}), nondetU16("old.port"))
	if nondetBool("old.same.ip") {
		old = netip.AddrPortFrom(netip.AddrFrom4([4]byte{byte(t.octets[0]), byte(t.octets[1]), byte(t.octets[2]), byte(t.octets[3])}), old.Port())
	}
	stored, serr := r.set(old, t.s)
	verifAssert((serr != nil) == (err != nil), r.name+": Set accepts exactly the strings the parser accepts")
	if err == nil && serr == nil {
		verifAssert(stored == got, r.name+": Set stores exactly the parsed address and port, whatever the variable held before")
	}
	if reject {
		verifAssert(err != nil, r.name+": an address that violates the role's port rule is rejected")
		return
	}
	verifAssert(err == nil, r.name+": a well-formed IPv4[:port] address that satisfies the port rule is accepted")
	if err != nil {
		return
	}
	verifAssert(got.IsValid() && got.Addr().Is4(), r.name+": the parsed address is an IPv4 address")
	a4 := got.Addr().As4()
	verifObserve(r.name+".port", got.Port())
	verifAssert(int(a4[0]) == t.octets[0] && int(a4[1]) == t.octets[1] && int(a4[2]) == t.octets[2] && int(a4[3]) == t.octets[3], r.name+": the parsed address has exactly the octets of the text")
	verifAssert(int(got.Port()) == port, r.name+": the parsed port is the port of the text (or the role's default)")
	// format and parse again
	text := r.format(got)
	again, err2 := r.parse(text)
	verifAssert(err2 == nil && again == got, r.name+": formatting and parsing again returns the same address and port")
	if port == r.defPort {
		verifAssert(len(text) == len(t.s)-c15PortLen(t), r.name+": the text omits the default port")
	}
}

func c15PortLen(t c15Text) int {
	if !t.hasPort {
		return 0
	}
	n := 1
	for i := len(t.s) - 1; i >= 0 && t.s[i] != ':'; i-- {
		n++
	}
	return n
}

// shapes: quick = octet digit counts all equal or alternating; thorough = all 81 x 6
func c15Shapes(role int, thorough bool) {
	r := c15Roles()[role]
	var l [4]int
	if thorough {
		for i := 0; i < 4; i++ {
			l[i] = nondetEnum(keyTagT("len", i), 3) + 1
		}
	} else {
		switch nondetEnum("shape", 5) {
		case 0:
			l = [4]int{1, 1, 1, 1}
		case 1:
			l = [4]int{3, 3, 3, 3}
		case 2:
			l = [4]int{2, 2, 2, 2}
		case 3:
			l = [4]int{3, 1, 2, 3}
		case 4:
			l = [4]int{1, 3, 3, 1}
		}
	}
	pd := nondetEnum("portdigits", 6)
	c15Check(r, c15Form(l, pd))
	verifReach("c15.form." + r.name)
}

func VerifC15_FormBind()         { c15Shapes(0, false) }
func VerifC15_FormBroadcast()    { c15Shapes(1, false) }
func VerifC15_FormListen()       { c15Shapes(2, false) }
func VerifC15_FormController()   { c15Shapes(3, false) }
func VerifC15_T_FormBind()       { c15Shapes(0, true) }
func VerifC15_T_FormBroadcast()  { c15Shapes(1, true) }
func VerifC15_T_FormListen()     { c15Shapes(2, true) }
func VerifC15_T_FormController() { c15Shapes(3, true) }

// ---- strings that contain no dotted quad at all are rejected by every role

func c15Digit(c byte) int { return verifB(c >= '0') & verifB(c <= '9') }

// c15HasQuad: some substring of s matches digit{1,3} '.' digit{1,3} '.' digit{1,3} '.' digit{1,3}
// (branch-free: evaluated as integer arithmetic over the bytes)
func c15HasQuad(s []byte) int {
	n := len(s)
	found := 0
	for i := 0; i < n; i++ {
		for l1 := 1; l1 <= 3; l1++ {
			for l2 := 1; l2 <= 3; l2++ {
				for l3 := 1; l3 <= 3; l3++ {
					// the last group needs only its first digit (a longer run contains the shorter match)
					end := i + l1 + 1 + l2 + 1 + l3 + 1
					if end >= n {
						continue
					}
					ok := 1
					p := i
					for _, l := range [3]int{l1, l2, l3} {
						for k := 0; k < l; k++ {
							ok &= c15Digit(s[p])
							p++
						}
						ok &= verifB(s[p] == '.')
						p++
					}
					ok &= c15Digit(s[p])
					found |= ok
				}
			}
		}
	}
	return found
}

func c15NoQuad(maxLen int) {
	n := nondetEnum("n", maxLen+1)
	b := nondetBytes("s", n)
	verifAssume(c15HasQuad(b) == 0)
	s := string(b)
	for _, r := range c15Roles() {
		_, err := r.parse(s)
		verifAssert(err != nil, r.name+": a string that contains no dotted quad is rejected")
	}
	verifReach("c15.noquad")
}

func VerifC15_NoQuad()   { c15NoQuad(9) }
func VerifC15_T_NoQuad() { c15NoQuad(16) }

// numbers that are not octets or ports: a port above 65535 (five or six digits) or an octet above 255 (three
// or four digits) in an otherwise well-formed text is rejected by every role - never read as another number
func c15OutOfRange() {
	r := c15Roles()[nondetEnum("role", 4)]
	var b []byte
	which := nondetEnum("which", 5) // 0..3: that octet is out of range; 4: the port is
	for i := 0; i < 4; i++ {
		n := 2
		if i == which {
			n = 3 + nondetEnum("octet.digits", 2)
		}
		dg, v := c15Number(keyTagT("octet", i), n)
		if i == which {
			verifAssume(v > 255)
		}
		if i > 0 {
			b = append(b, '.')
		}
		b = append(b, dg...)
	}
	pd := 5
	if which == 4 {
		pd = 5 + nondetEnum("port.digits", 2)
	}
	dg, v := c15Number("port", pd)
	if which == 4 {
		verifAssume(v > 65535)
	} else {
		verifAssume(v <= 65535 && v != 0 && v != 60000)
	}
	b = append(b, ':')
	b = append(b, dg...)
	_, err := r.parse(string(b))
	verifAssert(err != nil, r.name+": a text whose octet exceeds 255 or whose port exceeds 65535 is rejected")
	old := netip.AddrPortFrom(netip.AddrFrom4([4]byte{10, 0, 0, 1}), 12345)
	_, serr := r.set(old, string(b))
	verifAssert(serr != nil, r.name+": Set rejects a text whose octet exceeds 255 or whose port exceeds 65535")
	verifReach("c15.outofrange")
}

func VerifC15_NumbersOutOfRange()     { c15OutOfRange() }
func VerifC14_AddrNumbersOutOfRange() { c15OutOfRange() }
