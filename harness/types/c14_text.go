// verif:properties C14
package types

import (
	"encoding/json"
	"time"
)

// C14 - JSON and text forms of the public types round-trip; bad text is rejected.

func c14Quote(s string) []byte { return []byte("\"" + s + "\"") }

func c14Digit(c byte) bool { return c >= '0' && c <= '9' }

// ---- Date

func c14Date() (Date, int, int, int) {
	y := nondetInt("date.y")
	m := nondetInt("date.m")
	d := nondetInt("date.d")
	verifAssume(y >= 1 && y <= 9999 && verifValidDate(y, m, d))
	verifAssume(!(y == 1 && m == 1 && d == 1))
	return ToDate(y, time.Month(m), d), y, m, d
}

func VerifC14_DateJSON() {
	verifZone(1)
	v, y, m, d := c14Date()
	b, err := v.MarshalJSON()
	verifAssert(err == nil, "Date: MarshalJSON succeeds")
	var w Date // fresh zero value
	err = w.UnmarshalJSON(b)
	verifAssert(err == nil, "Date: decoding its own JSON succeeds")
	t := time.Time(w)
	verifAssert(t.Year() == y && int(t.Month()) == m && t.Day() == d && w.Equals(v), "Date: JSON round trip yields an equal date")
	var z, z2 Date
	zb, err := z.MarshalJSON()
	verifAssert(err == nil && z2.UnmarshalJSON(zb) == nil && z2.IsZero(), "Date: the zero date round-trips through JSON")
	verifReach("c14.date.json")
}

func VerifC14_DateText() {
	verifZone(1)
	v, y, m, d := c14Date()
	w, err := ParseDate(v.String())
	verifAssert(err == nil, "Date: parsing its own String() succeeds")
	t := time.Time(w)
	verifAssert(t.Year() == y && int(t.Month()) == m && t.Day() == d, "Date: text round trip yields an equal date")
	verifReach("c14.date.text")
}

// reject side: any text of length 0..10 that is not a calendar date in the YYYY-MM-DD form is rejected
func c14DateSpec(s []byte) (ok bool, y, m, d int) {
	if len(s) != 10 || s[4] != '-' || s[7] != '-' {
		return false, 0, 0, 0
	}
	for _, i := range []int{0, 1, 2, 3, 5, 6, 8, 9} {
		if !c14Digit(s[i]) {
			return false, 0, 0, 0
		}
	}
	y = int(s[0]-'0')*1000 + int(s[1]-'0')*100 + int(s[2]-'0')*10 + int(s[3]-'0')
	m = int(s[5]-'0')*10 + int(s[6]-'0')
	d = int(s[8]-'0')*10 + int(s[9]-'0')
	return verifValidDate(y, m, d), y, m, d
}

func c14JSONSafe(s []byte) bool {
	for _, c := range s {
		if c < 0x20 || c > 0x7e || c == '"' || c == '\\' || c == '<' || c == '>' || c == '&' {
			return false
		}
	}
	return true
}

func VerifC14_DateReject() {
	verifZone(1)
	n := nondetEnum("n", 12)
	s := nondetBytes("s", n)
	verifAssume(c14JSONSafe(s))
	ok, y, m, d := c14DateSpec(s)
	got, err := ParseDate(string(s))
	var j Date
	jerr := j.UnmarshalJSON(c14Quote(string(s)))
	if !ok {
		verifAssert(err != nil, "ParseDate: text that is not a calendar date YYYY-MM-DD is rejected")
		if n > 0 {
			verifAssert(jerr != nil, "Date JSON: text that is not a calendar date YYYY-MM-DD is rejected")
		} else {
			verifAssert(jerr == nil && j.IsZero(), "Date JSON: the empty string is the zero date")
		}
	} else if y >= 1 && !(y == 1 && m == 1 && d == 1) {
		t := time.Time(got)
		verifAssert(err == nil && t.Year() == y && int(t.Month()) == m && t.Day() == d, "ParseDate: a calendar date is accepted with exactly its fields")
		t = time.Time(j)
		verifAssert(jerr == nil && t.Year() == y && int(t.Month()) == m && t.Day() == d, "Date JSON: a calendar date is accepted with exactly its fields")
	}
	verifReach("c14.date.reject")
}

// ---- DateTime (JSON carries a zone abbreviation)

func VerifC14_DateTimeJSON() {
	verifZone(1)
	y, mo, d := nondetInt("y"), nondetInt("mo"), nondetInt("d")
	h, mi, s := nondetInt("h"), nondetInt("mi"), nondetInt("s")
	verifAssume(y >= 2 && y <= 9999 && verifValidDate(y, mo, d) && h >= 0 && h <= 23 && mi >= 0 && mi <= 59 && s >= 0 && s <= 59)
	v := DateTime(time.Date(y, time.Month(mo), d, h, mi, s, 0, time.Local))
	b, err := v.MarshalJSON()
	verifAssert(err == nil, "DateTime: MarshalJSON succeeds")
	var w DateTime
	err = w.UnmarshalJSON(b)
	verifAssert(err == nil, "DateTime: decoding its own JSON succeeds")
	t := time.Time(w)
	verifAssert(t.Year() == y && int(t.Month()) == mo && t.Day() == d && t.Hour() == h && t.Minute() == mi && t.Second() == s, "DateTime: JSON round trip yields an equal date-time")
	var z, z2 DateTime
	zb, err := z.MarshalJSON()
	verifAssert(err == nil && z2.UnmarshalJSON(zb) == nil && z2.IsZero(), "DateTime: the zero value round-trips through JSON")
	verifReach("c14.datetime.json")
}

// ---- HHmm

func c14HHmm() (HHmm, int, int) {
	h, m := nondetInt("h"), nondetInt("m")
	verifAssume(h >= 0 && h <= 24 && m >= 0 && m <= 59 && (h < 24 || m == 0))
	return NewHHmm(h, m), h, m
}

func VerifC14_HHmmRoundTrip() {
	v, h, m := c14HHmm()
	p, err := HHmmFromString(v.String())
	verifAssert(err == nil && p != nil, "HHmm: parsing its own String() succeeds")
	if p != nil {
		verifAssert(p.hours == h && p.minutes == m, "HHmm: text round trip yields an equal value")
	}
	b, err := v.MarshalJSON()
	verifAssert(err == nil, "HHmm: MarshalJSON succeeds")
	var w HHmm
	err = w.UnmarshalJSON(b)
	verifAssert(err == nil && w.hours == h && w.minutes == m, "HHmm: JSON round trip yields an equal value")
	verifReach("c14.hhmm")
}

func VerifC14_HHmmReject() {
	n := nondetEnum("n", 7)
	s := nondetBytes("s", n)
	verifAssume(c14JSONSafe(s))
	ok := n == 5 && c14Digit(s[0]) && c14Digit(s[1]) && s[2] == ':' && c14Digit(s[3]) && c14Digit(s[4])
	h, m := 0, 0
	if ok {
		h, m = int(s[0]-'0')*10+int(s[1]-'0'), int(s[3]-'0')*10+int(s[4]-'0')
		ok = h <= 24 && m <= 59 && (h < 24 || m == 0)
	}
	p, err := HHmmFromString(string(s))
	var j HHmm
	jerr := j.UnmarshalJSON(c14Quote(string(s)))
	if !ok {
		verifAssert(err != nil && p == nil, "HHmmFromString: text outside 00:00..24:00 (minutes 00..59) is rejected")
		verifAssert(jerr != nil, "HHmm JSON: text outside 00:00..24:00 (minutes 00..59) is rejected")
	} else {
		verifAssert(err == nil && p != nil && p.hours == h && p.minutes == m, "HHmmFromString: a valid HH:mm is accepted with exactly its fields")
		verifAssert(jerr == nil && j.hours == h && j.minutes == m, "HHmm JSON: a valid HH:mm is accepted with exactly its fields")
	}
	verifReach("c14.hhmm.reject")
}

// ---- SystemTime

func VerifC14_SystemTime() {
	verifZone(1)
	n := nondetEnum("n", 10)
	s := nondetBytes("s", n)
	ok := n == 8 && c14Digit(s[0]) && c14Digit(s[1]) && s[2] == ':' && c14Digit(s[3]) && c14Digit(s[4]) && s[5] == ':' && c14Digit(s[6]) && c14Digit(s[7])
	h, m, sec := 0, 0, 0
	if ok {
		h, m, sec = int(s[0]-'0')*10+int(s[1]-'0'), int(s[3]-'0')*10+int(s[4]-'0'), int(s[6]-'0')*10+int(s[7]-'0')
		ok = h <= 23 && m <= 59 && sec <= 59
	}
	p, err := TimeFromString(string(s))
	if !ok {
		verifAssert(err != nil && p == nil, "TimeFromString: text that is not a time of day HH:mm:ss is rejected")
	} else {
		verifAssert(err == nil && p != nil, "TimeFromString: a time of day is accepted")
		if p != nil {
			t := time.Time(*p)
			verifAssert(t.Hour() == h && t.Minute() == m && t.Second() == sec, "TimeFromString: exactly the fields of the text")
			back := p.String()
			verifAssert(back == string(s), "SystemTime: String() of a parsed time is the original text")
		}
	}
	verifReach("c14.systemtime")
}

// ---- PIN

func VerifC14_PINRoundTrip() {
	v := PIN(nondetU32("pin"))
	verifAssume(v <= 999999)
	// case split on the number of digits (keeps each query to one polynomial identity)
	pow := []PIN{0, 10, 100, 1000, 10000, 100000, 1000000}
	k := nondetEnum("digits", 6)
	verifAssume(v >= pow[k] && v < pow[k+1])
	b, err := v.MarshalJSON()
	verifAssert(err == nil, "PIN: MarshalJSON succeeds")
	var w PIN
	err = w.UnmarshalJSON(b)
	verifAssert(err == nil && w == v, "PIN: JSON round trip yields an equal PIN")
	verifReach("c14.pin")
}

func VerifC14_PINReject() {
	n := nondetEnum("n", 9)
	s := nondetBytes("s", n)
	verifAssume(c14JSONSafe(s))
	ok := n <= 6
	val := uint32(0)
	for i := 0; i < n; i++ {
		if !c14Digit(s[i]) {
			ok = false
		}
		val = val*10 + uint32(s[i]-'0')
	}
	var w PIN = 4711
	err := w.UnmarshalJSON(c14Quote(string(s)))
	if !ok {
		verifAssert(err != nil, "PIN JSON: text that is not 0..6 decimal digits is rejected")
	} else {
		verifAssert(err == nil && uint32(w) == val, "PIN JSON: up to six digits are accepted with exactly their value")
	}
	verifReach("c14.pin.reject")
}

// ---- door control state

func VerifC14_ControlState() {
	for _, v := range []ControlState{NormallyOpen, NormallyClosed, Controlled} {
		b, err := v.MarshalJSON()
		var w ControlState
		verifAssert(err == nil && w.UnmarshalJSON(b) == nil && w == v, "ControlState: JSON round trip yields an equal state")
	}
	n := nondetEnum("n", 18)
	s := nondetBytes("s", n)
	verifAssume(c14JSONSafe(s))
	txt := string(s)
	var w ControlState
	err := w.UnmarshalJSON(c14Quote(txt))
	switch txt {
	case "normally open":
		verifAssert(err == nil && w == NormallyOpen, "ControlState: 'normally open' is accepted")
	case "normally closed":
		verifAssert(err == nil && w == NormallyClosed, "ControlState: 'normally closed' is accepted")
	case "controlled":
		verifAssert(err == nil && w == Controlled, "ControlState: 'controlled' is accepted")
	default:
		verifAssert(err != nil, "ControlState: an unknown control state is rejected")
	}
	verifReach("c14.controlstate")
}

var _ = json.Marshal
