// verif:properties C14
package types

import (
	"time"
)

// ---- task type: JSON and TSV, by name and by number 1..13

func VerifC14_TaskTypeNames() {
	for i := 0; i < 13; i++ {
		v := TaskType(i)
		b, err := v.MarshalJSON()
		var w TaskType = 99
		verifAssert(err == nil && w.UnmarshalJSON(b) == nil && w == v, "TaskType: JSON round trip yields an equal task type")
		var x TaskType
		r, err := x.UnmarshalTSV(v.String())
		got, ok := r.(TaskType)
		verifAssert(err == nil && ok && got == v, "TaskType: text round trip yields an equal task type")
	}
	verifReach("c14.tasktype.names")
}

func VerifC14_TaskTypeNumbers() {
	n := nondetEnum("n", 3) + 1
	s := nondetBytes("s", n)
	val := 0
	for i := 0; i < n; i++ {
		verifAssume(c14Digit(s[i]))
		val = val*10 + int(s[i]-'0')
	}
	var w TaskType = 99
	err := w.UnmarshalJSON(s)
	var x TaskType
	r, terr := x.UnmarshalTSV(string(s))
	if val >= 1 && val <= 13 {
		verifAssert(err == nil && int(w) == val-1, "TaskType JSON: numbers 1..13 select the task type")
		got, ok := r.(TaskType)
		verifAssert(terr == nil && ok && int(got) == val-1, "TaskType text: numbers 1..13 select the task type")
	} else {
		verifAssert(err != nil, "TaskType JSON: numbers outside 1..13 are rejected")
		verifAssert(terr != nil, "TaskType text: numbers outside 1..13 are rejected")
	}
	verifReach("c14.tasktype.numbers")
}

// ---- card format

func VerifC14_CardFormat() {
	for _, v := range []CardFormat{WiegandAny, Wiegand26} {
		w, err := CardFormatFromString(v.String())
		verifAssert(err == nil && w == v, "CardFormat: text round trip yields an equal format")
	}
	_, err := CardFormatFromString("wiegand-34")
	verifAssert(err != nil, "CardFormat: an unknown format is rejected")
	verifReach("c14.cardformat")
}

// ---- address types: JSON round trip of every accepted IPv4[:port] form

func c14Addr(role int) {
	l := [4]int{nondetEnum("l0", 2)*2 + 1, 2, 3, nondetEnum("l3", 3) + 1}
	pd := nondetEnum("portdigits", 6)
	t := c15Form(l, pd)
	r := c15Roles()[role]
	a, err := r.parse(t.s)
	if err != nil {
		// a text the parser rejects (it violates the role's port rule) is rejected as JSON too
		quoted := c14Quote(t.s)
		var jerr error
		switch role {
		case 0:
			var w BindAddr
			jerr = w.UnmarshalJSON(quoted)
		case 1:
			var w BroadcastAddr
			jerr = w.UnmarshalJSON(quoted)
		case 2:
			var w ListenAddr
			jerr = w.UnmarshalJSON(quoted)
		case 3:
			var w ControllerAddr
			jerr = w.UnmarshalJSON(quoted)
		}
		verifAssert(jerr != nil, r.name+" address: JSON decoding rejects a text that violates the port rule")
		verifReach("c14.addr.rejected." + r.name)
		return
	}
	var js []byte
	var jerr, uerr error
	var back string
	switch role {
	case 0:
		v := BindAddr{a}
		js, jerr = v.MarshalJSON()
		var w BindAddr
		uerr = w.UnmarshalJSON(js)
		verifAssert(jerr == nil && uerr == nil && w.AddrPort == a, "BindAddr: JSON round trip yields the same address and port")
		back = w.String()
	case 1:
		v := BroadcastAddr{a}
		js, jerr = v.MarshalJSON()
		var w BroadcastAddr
		uerr = w.UnmarshalJSON(js)
		verifAssert(jerr == nil && uerr == nil && w.AddrPort == a, "BroadcastAddr: JSON round trip yields the same address and port")
		back = w.String()
	case 2:
		v := ListenAddr{a}
		js, jerr = v.MarshalJSON()
		var w ListenAddr
		uerr = w.UnmarshalJSON(js)
		verifAssert(jerr == nil && uerr == nil && w.AddrPort == a, "ListenAddr: JSON round trip yields the same address and port")
		back = w.String()
	case 3:
		v := ControllerAddr{a}
		js, jerr = v.MarshalJSON()
		var w ControllerAddr
		uerr = w.UnmarshalJSON(js)
		verifAssert(jerr == nil && uerr == nil && w.AddrPort == a, "ControllerAddr: JSON round trip yields the same address and port")
		back = w.String()
	}
	_ = back
	verifReach("c14.addr." + r.name)
}

func VerifC14_BindAddrJSON()       { c14Addr(0) }
func VerifC14_BroadcastAddrJSON()  { c14Addr(1) }
func VerifC14_ListenAddrJSON()     { c14Addr(2) }
func VerifC14_ControllerAddrJSON() { c14Addr(3) }

// ---- weekdays: decoding into a fresh zero value (nil map) and into an empty map

func c14Weekdays(intoNil bool) {
	days := []time.Weekday{time.Monday, time.Tuesday, time.Wednesday, time.Thursday, time.Friday, time.Saturday, time.Sunday}
	v := Weekdays{}
	var want [7]bool
	for i, d := range days {
		if nondetEnum(keyTagT("day", i), 2) == 1 {
			v[d] = true
			want[i] = true
		}
	}
	b, err := v.MarshalJSON()
	verifAssert(err == nil, "Weekdays: MarshalJSON succeeds")
	var w Weekdays
	if !intoNil {
		w = Weekdays{}
	}
	err = w.UnmarshalJSON(b)
	verifAssert(err == nil, "Weekdays: decoding its own JSON succeeds")
	for i, d := range days {
		verifAssert(w[d] == want[i], "Weekdays: JSON round trip yields the same days")
	}
	verifReach("c14.weekdays")
}

func VerifC14_WeekdaysIntoEmptyMap() { c14Weekdays(false) }
func VerifC14_WeekdaysIntoZeroValue() { c14Weekdays(true) }

// ---- composite types: encoding/json's reflection is replaced by a havoc stub (any value of the static type,
// or an error), so only the hand-written parts of the decoders are explored - for panics on a fresh zero
// receiver (nil maps included)

func VerifC14_CompositeDecodersDoNotPanic() {
	verifZone(1)
	// (the documents matter only natively, where the real encoding/json decodes them)
	segments := []byte(`[{"start":"08:30","end":"09:45"},{"start":"10:00","end":"11:15"}]`)
	var ss Segments
	ss.UnmarshalJSON(segments)
	ss2 := Segments{}
	ss2.UnmarshalJSON(segments)
	var c Card
	c.UnmarshalJSON([]byte(`{"card-number":8165538,"start-date":"2023-01-01","end-date":"2023-12-31","doors":{"1":1,"2":0,"3":29,"4":1},"PIN":7531}`))
	var tk Task
	tk.UnmarshalJSON([]byte(`{"task":"LOCK DOOR","door":3,"start-date":"2023-01-01","end-date":"2023-12-31","weekdays":"Monday,Friday","start":"08:30","cards":13}`))
	var tp TimeProfile
	tp.UnmarshalJSON([]byte(`{"id":29,"linked-profile":3,"start-date":"2023-01-01","end-date":"2023-12-31","weekdays":"Monday,Wednesday","segments":[{"start":"08:30","end":"09:45"}]}`))
	verifReach("c14.composite")
}

// ---- DateTime JSON on a day with a zone transition: the zone abbreviation in the text keeps the instant
// (inside an overlap the same wall-clock time occurs twice)

func c14DateTimeZoned(iana bool) {
	dg := nondetBytes("date.digits", 8)
	for i := 0; i < 8; i++ {
		verifAssume(dg[i] <= 9)
	}
	y := int(dg[0])*1000 + int(dg[1])*100 + int(dg[2])*10 + int(dg[3])
	m := int(dg[4])*10 + int(dg[5])
	d := int(dg[6])*10 + int(dg[7])
	verifAssume(y >= 2 && verifValidDate(y, m, d) && !(y == 9999 && m == 12 && d >= 29))
	if iana {
		verifZoneTable()
	}
	verifZoneAt(y, m, d)
	base := time.Date(y, time.Month(m), d, 0, 0, 0, 0, time.Local)
	k := nondetInt("k")
	verifAssume(k >= 0 && k <= 86400)
	v := DateTime(base.Add(time.Duration(k) * time.Second))
	b, err := v.MarshalJSON()
	verifAssert(err == nil, "DateTime: MarshalJSON succeeds")
	var w DateTime
	err = w.UnmarshalJSON(b)
	verifAssert(err == nil, "DateTime: decoding its own JSON succeeds on a day with a zone transition")
	if err == nil {
		a, c := time.Time(v), time.Time(w)
		verifAssert(c.Equal(a), "DateTime: JSON round trip yields the same instant on a day with a zone transition")
		verifAssert(c.Hour() == a.Hour() && c.Minute() == a.Minute() && c.Second() == a.Second() && c.Day() == a.Day(), "DateTime: JSON round trip yields the same civil time on a day with a zone transition")
	}
	verifReach("c14.datetime.zoned")
}

func VerifC14_DateTimeJSONZoned()      { c14DateTimeZoned(false) }
func VerifC14_DateTimeJSONZoned_IANA() { c14DateTimeZoned(true) }
