// verif:properties C16
package types

import "time"

// C16 - comparisons form a strict total order consistent with the calendar.

func c16Date(tag string) (Date, int, int, int) {
	y := nondetInt(tag + ".y")
	m := nondetInt(tag + ".m")
	d := nondetInt(tag + ".d")
	verifAssume(y >= 1 && y <= 9999)
	verifAssume(verifValidDate(y, m, d))
	return ToDate(y, time.Month(m), d), y, m, d
}

func specLexLess3(a1, a2, a3, b1, b2, b3 int) bool {
	if a1 != b1 {
		return a1 < b1
	}
	if a2 != b2 {
		return a2 < b2
	}
	return a3 < b3
}

func b2i(b bool) int {
	if b {
		return 1
	}
	return 0
}

func VerifC16_DatePairs() {
	verifZone(1)
	a, ay, am, ad := c16Date("a")
	b, by, bm, bd := c16Date("b")
	before, after, equal := a.Before(b), a.After(b), a.Equals(b)
	verifObserve("before", before)
	verifObserve("after", after)
	verifObserve("equal", equal)
	verifAssert(b2i(before)+b2i(after)+b2i(equal) == 1, "date: exactly one of before/equal/after")
	verifAssert(before == b.After(a), "date: before is the mirror image of after")
	verifAssert(after == b.Before(a), "date: after is the mirror image of before")
	verifAssert(equal == b.Equals(a), "date: equals is symmetric")
	verifAssert(before == specLexLess3(ay, am, ad, by, bm, bd), "date: before agrees with (year, month, day) order")
	verifAssert(after == specLexLess3(by, bm, bd, ay, am, ad), "date: after agrees with (year, month, day) order")
	verifAssert(equal == (ay == by && am == bm && ad == bd), "date: equals agrees with (year, month, day)")
	verifReach("c16.date.pairs")
}

// dates converted from clock readings in different locations (types.Date(t)): the verdicts follow each date's own
// (year, month, day), not the order of the instants
func c16DateIn(tag string, loc *time.Location) (Date, int, int, int) {
	y := nondetInt(tag + ".y")
	m := nondetInt(tag + ".m")
	d := nondetInt(tag + ".d")
	h := nondetInt(tag + ".h")
	mi := nondetInt(tag + ".mi")
	verifAssume(y >= 2 && y <= 9998)
	verifAssume(verifValidDate(y, m, d))
	verifAssume(h >= 0 && h <= 23 && mi >= 0 && mi <= 59)
	return Date(time.Date(y, time.Month(m), d, h, mi, 0, 0, loc)), y, m, d
}

func VerifC16_DatePairsAcrossLocations() {
	verifZone(1)
	a, ay, am, ad := c16DateIn("a", time.UTC)
	b, by, bm, bd := c16DateIn("b", time.Local)
	before, after, equal := a.Before(b), a.After(b), a.Equals(b)
	verifObserve("before", before)
	verifObserve("after", after)
	verifObserve("equal", equal)
	verifAssert(b2i(before)+b2i(after)+b2i(equal) == 1, "date (two locations): exactly one of before/equal/after")
	verifAssert(before == b.After(a), "date (two locations): before is the mirror image of after")
	verifAssert(after == b.Before(a), "date (two locations): after is the mirror image of before")
	verifAssert(before == specLexLess3(ay, am, ad, by, bm, bd), "date (two locations): before agrees with (year, month, day) order")
	verifAssert(after == specLexLess3(by, bm, bd, ay, am, ad), "date (two locations): after agrees with (year, month, day) order")
	verifAssert(equal == (ay == by && am == bm && ad == bd), "date (two locations): equals agrees with (year, month, day)")
	verifReach("c16.date.pairs.locations")
}

func VerifC16_DateTransitive() {
	verifZone(1)
	a, _, _, _ := c16Date("a")
	b, _, _, _ := c16Date("b")
	c, _, _, _ := c16Date("c")
	if a.Before(b) && b.Before(c) {
		verifAssert(a.Before(c), "date: before is transitive")
		verifReach("c16.date.trans")
	}
	if a.After(b) && b.After(c) {
		verifAssert(a.After(c), "date: after is transitive")
	}
	verifAssert(!a.Before(a), "date: before is irreflexive")
	verifReach("c16.date.trans.end")
}

func specLexLess2(a1, a2, b1, b2 int) bool {
	if a1 != b1 {
		return a1 < b1
	}
	return a2 < b2
}

func VerifC16_HHmmPairs() {
	ah, am := nondetInt("a.h"), nondetInt("a.m")
	bh, bm := nondetInt("b.h"), nondetInt("b.m")
	a, b := NewHHmm(ah, am), NewHHmm(bh, bm)
	before, after, equal := a.Before(b), a.After(b), a.Equals(b)
	verifObserve("before", before)
	verifObserve("after", after)
	verifObserve("equal", equal)
	verifAssert(b2i(before)+b2i(after)+b2i(equal) == 1, "HHmm: exactly one of before/equal/after")
	verifAssert(before == b.After(a), "HHmm: before is the mirror image of after")
	verifAssert(after == b.Before(a), "HHmm: after is the mirror image of before")
	verifAssert(before == specLexLess2(ah, am, bh, bm), "HHmm: before agrees with (hour, minute) order")
	verifAssert(after == specLexLess2(bh, bm, ah, am), "HHmm: after agrees with (hour, minute) order")
	verifAssert(equal == (ah == bh && am == bm), "HHmm: equals agrees with (hour, minute)")
	verifReach("c16.hhmm.pairs")
}

// the same on the legal domain 00:00..24:00 (the property's quantifier), so that a change which is only
// wrong inside it is decided even if it leaves the engine's reach for arbitrary field values
func VerifC16_HHmmPairsLegal() {
	ah, am := nondetInt("a.h"), nondetInt("a.m")
	bh, bm := nondetInt("b.h"), nondetInt("b.m")
	verifAssume(ah >= 0 && ah <= 24 && am >= 0 && am <= 59 && (ah < 24 || am == 0))
	verifAssume(bh >= 0 && bh <= 24 && bm >= 0 && bm <= 59 && (bh < 24 || bm == 0))
	a, b := NewHHmm(ah, am), NewHHmm(bh, bm)
	before, after, equal := a.Before(b), a.After(b), a.Equals(b)
	verifAssert(b2i(before)+b2i(after)+b2i(equal) == 1, "HHmm 00:00..24:00: exactly one of before/equal/after")
	verifAssert(before == b.After(a), "HHmm 00:00..24:00: before is the mirror image of after")
	verifAssert(before == specLexLess2(ah, am, bh, bm), "HHmm 00:00..24:00: before agrees with (hour, minute) order")
	verifAssert(after == specLexLess2(bh, bm, ah, am), "HHmm 00:00..24:00: after agrees with (hour, minute) order")
	verifAssert(equal == (ah == bh && am == bm), "HHmm 00:00..24:00: equals agrees with (hour, minute)")
	verifReach("c16.hhmm.pairs.legal")
}

func VerifC16_HHmmTransitive() {
	a := NewHHmm(nondetInt("a.h"), nondetInt("a.m"))
	b := NewHHmm(nondetInt("b.h"), nondetInt("b.m"))
	c := NewHHmm(nondetInt("c.h"), nondetInt("c.m"))
	if a.Before(b) && b.Before(c) {
		verifAssert(a.Before(c), "HHmm: before is transitive")
		verifReach("c16.hhmm.trans")
	}
	if a.After(b) && b.After(c) {
		verifAssert(a.After(c), "HHmm: after is transitive")
	}
	verifAssert(!a.Before(a) && !a.After(a), "HHmm: before/after are irreflexive")
	verifReach("c16.hhmm.trans.end")
}

// HHmm compared with a time.Time (the other arm of the type switch): agrees with (hour, minute) of the time.
func VerifC16_HHmmVsTime() {
	verifZone(1)
	h, m := nondetInt("h"), nondetInt("m")
	th, tm, ts := nondetInt("t.h"), nondetInt("t.m"), nondetInt("t.s")
	verifAssume(th >= 0 && th <= 23 && tm >= 0 && tm <= 59 && ts >= 0 && ts <= 59)
	t := time.Date(2024, time.March, 5, th, tm, ts, 0, time.Local)
	a := NewHHmm(h, m)
	verifAssert(a.before(t) == specLexLess2(h, m, th, tm), "HHmm.before(time) agrees with (hour, minute) order")
	verifAssert(a.after(t) == specLexLess2(th, tm, h, m), "HHmm.after(time) agrees with (hour, minute) order")
	verifReach("c16.hhmm.time")
}

// ---- DateTime.Before(instant): exactly when the date-time's whole second is the smaller of the two

func c16Civil(tag string) (time.Time, [6]int) {
	y, mo, d := nondetInt(tag+".y"), nondetInt(tag+".mo"), nondetInt(tag+".d")
	h, mi, s := nondetInt(tag+".h"), nondetInt(tag+".mi"), nondetInt(tag+".s")
	verifAssume(y >= 1970 && y <= 9999 && verifValidDate(y, mo, d) && h >= 0 && h <= 23 && mi >= 0 && mi <= 59 && s >= 0 && s <= 59)
	return time.Date(y, time.Month(mo), d, h, mi, s, 0, time.Local), [6]int{y, mo, d, h, mi, s}
}

func specLexLess6(a, b [6]int) bool {
	for i := 0; i < 6; i++ {
		if a[i] != b[i] {
			return a[i] < b[i]
		}
	}
	return false
}

func c16DateTimeBefore(sameDay bool) {
	verifZone(1)
	a, af := c16Civil("a")
	b, bf := c16Civil("b")
	if sameDay {
		// (within one calendar day the engine's epoch seconds are exact, not only ordered)
		verifAssume(af[0] == bf[0] && af[1] == bf[1] && af[2] == bf[2])
	}
	ams, ms := nondetInt("a.ms"), nondetInt("b.ms")
	verifAssume(ams >= 0 && ams <= 999 && ms >= 0 && ms <= 999)
	a = a.Add(time.Duration(ams) * time.Millisecond) // sub-second parts do not count, on either side
	b = b.Add(time.Duration(ms) * time.Millisecond)
	got := DateTime(a).Before(b)
	verifObserve("before", got)
	verifAssert(got == specLexLess6(af, bf), "DateTime.Before: exactly when its whole-second timestamp is the smaller of the two")
	verifReach("c16.datetime.before")
}

func VerifC16_DateTimeBefore()        { c16DateTimeBefore(false) }
func VerifC16_DateTimeBeforeSameDay() { c16DateTimeBefore(true) }

// the same across a zone transition: two instants k1 and k2 seconds after a base time on the day of the
// transition (inside an overlap the civil fields repeat; only the instants order them)
func c16DateTimeZoned(iana bool) {
	dg := nondetBytes("date.digits", 8)
	for i := 0; i < 8; i++ {
		verifAssume(dg[i] <= 9)
	}
	y := int(dg[0])*1000 + int(dg[1])*100 + int(dg[2])*10 + int(dg[3])
	m := int(dg[4])*10 + int(dg[5])
	d := int(dg[6])*10 + int(dg[7])
	verifAssume(y >= 1971 && verifValidDate(y, m, d) && !(y == 9999 && m == 12 && d >= 29))
	if iana {
		verifZoneTable()
	}
	verifZoneAt(y, m, d)
	base := time.Date(y, time.Month(m), d, 0, 0, 0, 0, time.Local)
	k1, k2 := nondetInt("k1"), nondetInt("k2")
	verifAssume(k1 >= 0 && k1 <= 86400 && k2 >= 0 && k2 <= 86400)
	a := base.Add(time.Duration(k1) * time.Second)
	b := base.Add(time.Duration(k2) * time.Second)
	got := DateTime(a).Before(b)
	verifObserve("before", got)
	verifAssert(got == (k1 < k2), "DateTime.Before: agrees with the order of the instants on a day with a zone transition")
	verifReach("c16.datetime.zoned")
}

func VerifC16_DateTimeBeforeZoned()      { c16DateTimeZoned(false) }
func VerifC16_DateTimeBeforeZoned_IANA() { c16DateTimeZoned(true) }
