// verif:properties C16
package types

import "time"

// C16 - comparisons form a strict total order consistent with the calendar.

func c16Date(tag string) (Date, int, int, int) {
	y := nondetInt(tag + ".y")
	m := nondetInt(tag + ".m")
	d := nondetInt(tag + ".d")
	verifAssume(y >= 1 && y <= 9999)
	verifAssume(verifValidDate(y, m, d))
	return ToDate(y, time.Month(m), d), y, m, d
}

func specLexLess3(a1, a2, a3, b1, b2, b3 int) bool {
	if a1 != b1 {
		return a1 < b1
	}
	if a2 != b2 {
		return a2 < b2
	}
	return a3 < b3
}

func b2i(b bool) int {
	if b {
		return 1
	}
	return 0
}

func VerifC16_DatePairs() {
	verifZone(1)
	a, ay, am, ad := c16Date("a")
	b, by, bm, bd := c16Date("b")
	before, after, equal := a.Before(b), a.After(b), a.Equals(b)
	verifObserve("before", before)
	verifObserve("after", after)
	verifObserve("equal", equal)
	verifAssert(b2i(before)+b2i(after)+b2i(equal) == 1, "date: exactly one of before/equal/after")
	verifAssert(before == b.After(a), "date: before is the mirror image of after")
	verifAssert(after == b.Before(a), "date: after is the mirror image of before")
	verifAssert(equal == b.Equals(a), "date: equals is symmetric")
	verifAssert(before == specLexLess3(ay, am, ad, by, bm, bd), "date: before agrees with (year, month, day) order")
	verifAssert(after == specLexLess3(by, bm, bd, ay, am, ad), "date: after agrees with (year, month, day) order")
	verifAssert(equal == (ay == by && am == bm && ad == bd), "date: equals agrees with (year, month, day)")
	verifReach("c16.date.pairs")
}

func VerifC16_DateTransitive() {
	verifZone(1)
	a, _, _, _ := c16Date("a")
	b, _, _, _ := c16Date("b")
	c, _, _, _ := c16Date("c")
	if a.Before(b) && b.Before(c) {
		verifAssert(a.Before(c), "date: before is transitive")
		verifReach("c16.date.trans")
	}
	if a.After(b) && b.After(c) {
		verifAssert(a.After(c), "date: after is transitive")
	}
	verifAssert(!a.Before(a), "date: before is irreflexive")
	verifReach("c16.date.trans.end")
}

func specLexLess2(a1, a2, b1, b2 int) bool {
	if a1 != b1 {
		return a1 < b1
	}
	return a2 < b2
}

func VerifC16_HHmmPairs() {
	ah, am := nondetInt("a.h"), nondetInt("a.m")
	bh, bm := nondetInt("b.h"), nondetInt("b.m")
	a, b := NewHHmm(ah, am), NewHHmm(bh, bm)
	before, after, equal := a.Before(b), a.After(b), a.Equals(b)
	verifObserve("before", before)
	verifObserve("after", after)
	verifObserve("equal", equal)
	verifAssert(b2i(before)+b2i(after)+b2i(equal) == 1, "HHmm: exactly one of before/equal/after")
	verifAssert(before == b.After(a), "HHmm: before is the mirror image of after")
	verifAssert(after == b.Before(a), "HHmm: after is the mirror image of before")
	verifAssert(before == specLexLess2(ah, am, bh, bm), "HHmm: before agrees with (hour, minute) order")
	verifAssert(after == specLexLess2(bh, bm, ah, am), "HHmm: after agrees with (hour, minute) order")
	verifAssert(equal == (ah == bh && am == bm), "HHmm: equals agrees with (hour, minute)")
	verifReach("c16.hhmm.pairs")
}

// the same on the legal domain 00:00..24:00 (the property's quantifier), so that a change which is only
// wrong inside it is decided even if it leaves the engine's reach for arbitrary field values
func VerifC16_HHmmPairsLegal() {
	ah, am := nondetInt("a.h"), nondetInt("a.m")
	bh, bm := nondetInt("b.h"), nondetInt("b.m")
	verifAssume(ah >= 0 && ah <= 24 && am >= 0 && am <= 59 && (ah < 24 || am == 0))
	verifAssume(bh >= 0 && bh <= 24 && bm >= 0 && bm <= 59 && (bh < 24 || bm == 0))
	a, b := NewHHmm(ah, am), NewHHmm(bh, bm)
	before, after, equal := a.Before(b), a.After(b), a.Equals(b)
	verifAssert(b2i(before)+b2i(after)+b2i(equal) == 1, "HHmm 00:00..24:00: exactly one of before/equal/after")
	verifAssert(before == b.After(a), "HHmm 00:00..24:00: before is the mirror image of after")
	verifAssert(before == specLexLess2(ah, am, bh, bm), "HHmm 00:00..24:00: before agrees with (hour, minute) order")
	verifAssert(after == specLexLess2(bh, bm, ah, am), "HHmm 00:00..24:00: after agrees with (hour, minute) order")
	verifAssert(equal == (ah == bh && am == bm), "HHmm 00:00..24:00: equals agrees with (hour, minute)")
	verifReach("c16.hhmm.pairs.legal")
}

func VerifC16_HHmmTransitive() {
	a := NewHHmm(nondetInt("a.h"), nondetInt("a.m"))
	b := NewHHmm(nondetInt("b.h"), nondetInt("b.m"))
	c := NewHHmm(nondetInt("c.h"), nondetInt("c.m"))
	if a.Before(b) && b.Before(c) {
		verifAssert(a.Before(c), "HHmm: before is transitive")
		verifReach("c16.hhmm.trans")
	}
	if a.After(b) && b.After(c) {
		verifAssert(a.After(c), "HHmm: after is transitive")
	}
	verifAssert(!a.Before(a) && !a.After(a), "HHmm: before/after are irreflexive")
	verifReach("c16.hhmm.trans.end")
}

// HHmm compared with a time.Time (the other arm of the type switch): agrees with (hour, minute) of the time.
func VerifC16_HHmmVsTime() {
	verifZone(1)
	h, m := nondetInt("h"), nondetInt("m")
	th, tm, ts := nondetInt("t.h"), nondetInt("t.m"), nondetInt("t.s")
	verifAssume(th >= 0 && th <= 23 && tm >= 0 && tm <= 59 && ts >= 0 && ts <= 59)
	t := time.Date(2024, time.March, 5, th, tm, ts, 0, time.Local)
	a := NewHHmm(h, m)
	verifAssert(a.before(t) == specLexLess2(h, m, th, tm), "HHmm.before(time) agrees with (hour, minute) order")
	verifAssert(a.after(t) == specLexLess2(th, tm, h, m), "HHmm.after(time) agrees with (hour, minute) order")
	verifReach("c16.hhmm.time")
}
