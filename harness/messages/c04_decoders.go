// verif:properties C04
package messages

// C04 (decoding entry points): any byte string of any length handed to the message dispatchers.

func VerifC04_UnmarshalResponse() {
	verifZone(1)
	b := nondetBuffer("b", 2048)
	r, err := UnmarshalResponse(b)
	verifAssert(err != nil || r != nil, "UnmarshalResponse: a value or an error")
	verifReach("c04.UnmarshalResponse")
}

func VerifC04_UnmarshalRequest() {
	verifZone(1)
	b := nondetBuffer("b", 2048)
	r, err := UnmarshalRequest(b)
	verifAssert(err != nil || r != nil, "UnmarshalRequest: a value or an error")
	verifReach("c04.UnmarshalRequest")
}
