// verif:properties C05
package messages

import (
	"time"

	codec "github.com/uhppoted/uhppote-core/encoding/UTO311-L0x"
)

// C05 "whatever the process time zone is": a message with date fields is decoded and re-encoded with the
// process zone a symbolic two-interval zone anchored at the date (zone view Z2, as in C13): the decoded
// dates are the transmitted ones and the re-encoding is the original message.

func c05Zoned(iana bool) {
	verifUseSummary("bcd.Decode") // compositional: the contract of bcd.Decode is what C12 proves
	dg := nondetBytes("date.digits", 8)
	for i := 0; i < 8; i++ {
		verifAssume(dg[i] <= 9)
	}
	y := int(dg[0])*1000 + int(dg[1])*100 + int(dg[2])*10 + int(dg[3])
	m := int(dg[4])*10 + int(dg[5])
	d := int(dg[6])*10 + int(dg[7])
	verifAssume(y >= 1 && verifValidDate(y, m, d) && !(y == 1 && m == 1 && d == 1) && !(y == 9999 && m == 12 && d == 31))
	if iana {
		verifZoneTable()
	}
	verifZoneAt(y, m, d)
	b := make([]byte, 64)
	b[0], b[1] = 0x17, 0x50
	b[4], b[5], b[6], b[7] = 0x78, 0x56, 0x34, 0x12
	b[8] = nondetU8("card")
	bcd := []byte{dg[0]<<4 | dg[1], dg[2]<<4 | dg[3], dg[4]<<4 | dg[5], dg[6]<<4 | dg[7]}
	copy(b[12:16], bcd)
	copy(b[16:20], bcd)
	var req PutCardRequest
	err := codec.Unmarshal(b, &req)
	verifAssert(err == nil, "PutCardRequest: a message with valid dates decodes")
	if err == nil {
		from := time.Time(req.From)
		verifObserve("from.day", from.Day())
		verifAssert(from.Year() == y && int(from.Month()) == m && from.Day() == d, "PutCardRequest: the decoded date is the transmitted date in every time zone")
		again, err := codec.Marshal(req)
		verifAssert(err == nil, "PutCardRequest: the decoded message encodes")
		if err == nil {
			verifAssertEqBytes(again, b, "PutCardRequest: encoding the decoded message gives the original bytes in every time zone")
		}
	}
	verifReach("c05.zoned")
}

func VerifC05_ZonedDates()      { c05Zoned(false) }
func VerifC05_ZonedDates_IANA() { c05Zoned(true) }
