// verif:properties C05
package messages

// C05 - encoding and decoding are mutually inverse for every message type.
//
// One generic harness, instantiated per registered function code: the message value is filled through
// reflection with a symbolic in-domain value per field (by the field's Go type), marshalled, unmarshalled
// into a fresh value and compared field by field.  A second harness decodes two buffers that agree on the
// bytes of every field and are arbitrary elsewhere.  The dispatchers are checked with a symbolic header.

import (
	"net"
	"net/netip"
	"reflect"
	"strconv"
	"strings"
	"time"

	codec "github.com/uhppoted/uhppote-core/encoding/UTO311-L0x"
	"github.com/uhppoted/uhppote-core/types"
)

func c05Tag(tag string, k int) string { return tag + "." + strconv.Itoa(k) }

func c05ValidDate(tag string) (time.Time, int, int, int) {
	dg := nondetBytes(tag+".digits", 8)
	for i := 0; i < 8; i++ {
		verifAssume(dg[i] <= 9)
	}
	y := int(dg[0])*1000 + int(dg[1])*100 + int(dg[2])*10 + int(dg[3])
	m := int(dg[4])*10 + int(dg[5])
	d := int(dg[6])*10 + int(dg[7])
	verifAssume(y >= 1 && verifValidDate(y, m, d) && !(y == 1 && m == 1 && d == 1))
	return time.Date(y, time.Month(m), d, 0, 0, 0, 0, time.Local), y, m, d
}

func c05TimeOfDay(tag string) (int, int, int) {
	h, mi, s := nondetU8(tag+".h"), nondetU8(tag+".mi"), nondetU8(tag+".s")
	verifAssume(h <= 23 && mi <= 59 && s <= 59)
	return int(h), int(mi), int(s)
}

func c05HHmm(tag string) types.HHmm {
	h, m := nondetU8(tag+".h"), nondetU8(tag+".m")
	verifAssume(h <= 24 && m <= 59 && (h < 24 || m == 0))
	return types.NewHHmm(int(h), int(m))
}

var (
	c05tDate       = reflect.TypeOf(types.Date{})
	c05tDateTime   = reflect.TypeOf(types.DateTime{})
	c05tSystemDate = reflect.TypeOf(types.SystemDate{})
	c05tSystemTime = reflect.TypeOf(types.SystemTime{})
	c05tHHmm       = reflect.TypeOf(types.HHmm{})
	c05tHHmmPtr    = reflect.TypeOf(&types.HHmm{})
	c05tIP         = reflect.TypeOf(net.IP{})
	c05tMAC        = reflect.TypeOf(types.MacAddress{})
	c05tAddrPort   = reflect.TypeOf(netip.AddrPort{})
	c05tMsgType    = reflect.TypeOf(types.MsgType(0))
	c05tSOM        = reflect.TypeOf(types.SOM(0))
)

// c05Fill gives every settable field of the struct an arbitrary in-domain value.
func c05Fill(s reflect.Value, tag string) {
	for i := 0; i < s.NumField(); i++ {
		f := s.Field(i)
		t := s.Type().Field(i)
		ft := tag + "." + t.Name
		if t.Anonymous {
			c05Fill(f, ft)
			continue
		}
		switch t.Type {
		case c05tSOM:
			// the start-of-message byte is fixed by the tag on encode and never stored on decode: not part of the value
		case c05tMsgType:
			// the in-domain value is the one fixed by the tag
			tag := t.Tag.Get("uhppote")
			if ix := strings.Index(tag, "value:"); ix >= 0 {
				if v, err := strconv.ParseUint(strings.TrimSpace(tag[ix+6:]), 0, 8); err == nil {
					f.SetUint(v)
				}
			}
		case c05tDate:
			if nondetBool(ft + ".zero") {
				f.Set(reflect.ValueOf(types.Date{}))
			} else {
				d, _, _, _ := c05ValidDate(ft)
				f.Set(reflect.ValueOf(types.Date(d)))
			}
		case c05tDateTime:
			if nondetBool(ft + ".zero") {
				f.Set(reflect.ValueOf(types.DateTime{}))
			} else {
				d, y, m, dd := c05ValidDate(ft)
				_ = d
				h, mi, sec := c05TimeOfDay(ft)
				f.Set(reflect.ValueOf(types.DateTime(time.Date(y, time.Month(m), dd, h, mi, sec, 0, time.Local))))
			}
		case c05tSystemDate:
			if nondetBool(ft + ".zero") {
				f.Set(reflect.ValueOf(types.SystemDate{}))
			} else {
				d, y, _, _ := c05ValidDate(ft)
				verifAssume(y >= 2000 && y <= 2068)
				f.Set(reflect.ValueOf(types.SystemDate(d)))
			}
		case c05tSystemTime:
			h, mi, sec := c05TimeOfDay(ft)
			f.Set(reflect.ValueOf(types.SystemTime(time.Date(2000, time.January, 1, h, mi, sec, 0, time.Local))))
		case c05tHHmm:
			f.Set(reflect.ValueOf(c05HHmm(ft)))
		case c05tHHmmPtr:
			v := c05HHmm(ft)
			f.Set(reflect.ValueOf(&v))
		case c05tIP:
			b := nondetBytes(ft, 4)
			f.Set(reflect.ValueOf(net.IP(b)))
		case c05tMAC:
			f.Set(reflect.ValueOf(types.MacAddress(nondetBytes(ft, 6))))
		case c05tAddrPort:
			b := nondetBytes(ft, 4)
			f.Set(reflect.ValueOf(netip.AddrPortFrom(netip.AddrFrom4([4]byte{b[0], b[1], b[2], b[3]}), nondetU16(ft+".port"))))
		default:
			switch f.Kind() {
			case reflect.Bool:
				f.SetBool(nondetBool(ft))
			case reflect.Uint8:
				f.SetUint(uint64(nondetU8(ft)))
			case reflect.Uint16:
				f.SetUint(uint64(nondetU16(ft)))
			case reflect.Uint32:
				v := nondetU32(ft)
				if t.Type == reflect.TypeOf(types.PIN(0)) {
					verifAssume(v <= 999999)
				}
				f.SetUint(uint64(v))
			default:
				verifAssert(false, "c05Fill: field kind without a domain: "+t.Name)
			}
		}
	}
}

func c05SameCivil(a, b time.Time) bool {
	return a.Year() == b.Year() && a.Month() == b.Month() && a.Day() == b.Day()
}

// c05Equal compares two message values field by field (what "the same value" means per field type).
func c05Equal(a, b reflect.Value, what string) {
	for i := 0; i < a.NumField(); i++ {
		fa, fb := a.Field(i), b.Field(i)
		t := a.Type().Field(i)
		label := what + ": field " + t.Name + " survives the round trip"
		if t.Anonymous {
			c05Equal(fa, fb, what)
			continue
		}
		switch t.Type {
		case c05tSOM:
		case c05tDate:
			x, y := fa.Interface().(types.Date), fb.Interface().(types.Date)
			verifAssert(x.IsZero() == y.IsZero() && (x.IsZero() || c05SameCivil(time.Time(x), time.Time(y))), label)
		case c05tDateTime:
			x, y := fa.Interface().(types.DateTime), fb.Interface().(types.DateTime)
			tx, ty := time.Time(x), time.Time(y)
			verifAssert(x.IsZero() == y.IsZero() && (x.IsZero() || (c05SameCivil(tx, ty) && tx.Hour() == ty.Hour() && tx.Minute() == ty.Minute() && tx.Second() == ty.Second())), label)
		case c05tSystemDate:
			x, y := fa.Interface().(types.SystemDate), fb.Interface().(types.SystemDate)
			verifAssert(x.IsZero() == y.IsZero() && (x.IsZero() || c05SameCivil(time.Time(x), time.Time(y))), label)
		case c05tSystemTime:
			tx, ty := time.Time(fa.Interface().(types.SystemTime)), time.Time(fb.Interface().(types.SystemTime))
			verifAssert(tx.Hour() == ty.Hour() && tx.Minute() == ty.Minute() && tx.Second() == ty.Second(), label)
		case c05tHHmm:
			verifAssert(fa.Interface().(types.HHmm).Equals(fb.Interface().(types.HHmm)), label)
		case c05tHHmmPtr:
			x, y := fa.Interface().(*types.HHmm), fb.Interface().(*types.HHmm)
			// round trip: an in-domain time decodes to a non-nil pointer; two arbitrary buffers: both nil or both set
			verifAssert((x == nil) == (y == nil) && (y != nil || strings.HasSuffix(what, "(unused bytes)")), label)
			if x != nil && y != nil {
				verifAssert(x.Equals(*y), label)
			}
		case c05tIP:
			x, y := fa.Interface().(net.IP).To4(), fb.Interface().(net.IP).To4()
			verifAssert(x != nil && y != nil, label)
			if x != nil && y != nil {
				verifAssert(x[0] == y[0] && x[1] == y[1] && x[2] == y[2] && x[3] == y[3], label)
			}
		case c05tMAC:
			x, y := fa.Interface().(types.MacAddress), fb.Interface().(types.MacAddress)
			verifAssert(len(x) == 6 && len(y) == 6, label)
			if len(x) == 6 && len(y) == 6 {
				verifAssertEqBytes(x, y, label)
			}
		case c05tAddrPort:
			verifAssert(fa.Interface().(netip.AddrPort) == fb.Interface().(netip.AddrPort), label)
		default:
			switch fa.Kind() {
			case reflect.Bool:
				verifAssert(fa.Bool() == fb.Bool(), label)
			case reflect.Uint8, reflect.Uint16, reflect.Uint32:
				verifAssert(fa.Uint() == fb.Uint(), label)
			}
		}
	}
}

func c05RoundTrip(msg any, what string) {
	verifZone(1)
	p := reflect.ValueOf(msg)
	c05Fill(p.Elem(), "m")
	bytes, err := codec.Marshal(msg)
	verifAssert(err == nil && len(bytes) == 64, what+": encodes to 64 bytes")
	if err != nil || len(bytes) != 64 {
		return
	}
	verifObserve("bytes", bytes)
	back := reflect.New(p.Elem().Type())
	err = codec.Unmarshal(bytes, back.Interface())
	verifAssert(err == nil, what+": the encoding decodes without error")
	if err == nil {
		c05Equal(p.Elem(), back.Elem(), what)
	}
	verifReach("c05.roundtrip." + what)
}

// ---- field bytes (from the layout tags) and the second half of the property

func c05Width(t reflect.Type) int {
	switch t {
	case c05tDate:
		return 4
	case c05tDateTime:
		return 7
	case c05tSystemDate, c05tSystemTime:
		return 3
	case c05tHHmm, c05tHHmmPtr:
		return 2
	case c05tIP:
		return 4
	case c05tMAC, c05tAddrPort:
		return 6
	case reflect.TypeOf(types.PIN(0)):
		return 3
	case reflect.TypeOf(types.Version(0)):
		return 2
	}
	switch t.Kind() {
	case reflect.Bool, reflect.Uint8:
		return 1
	case reflect.Uint16:
		return 2
	case reflect.Uint32:
		return 4
	}
	return 0
}

func c05Mask(t reflect.Type, mask *[64]bool) {
	for i := 0; i < t.NumField(); i++ {
		f := t.Field(i)
		if f.Anonymous {
			c05Mask(f.Type, mask)
			continue
		}
		tag := f.Tag.Get("uhppote")
		ix := strings.Index(tag, "offset:")
		if ix < 0 {
			continue
		}
		off, err := strconv.Atoi(strings.TrimSpace(tag[ix+7:]))
		if err != nil {
			continue
		}
		for k := 0; k < c05Width(f.Type) && off+k < 64; k++ {
			mask[off+k] = true
		}
	}
}

func c05Unused(msg any, what string) {
	verifZone(1)
	t := reflect.TypeOf(msg).Elem()
	var mask [64]bool
	mask[0], mask[1] = true, true
	c05Mask(t, &mask)
	b1 := nondetBytes("b1", 64)
	b2 := nondetBytes("b2", 64)
	for i := 0; i < 64; i++ {
		if mask[i] {
			verifAssume(b1[i] == b2[i])
		}
	}
	v1, v2 := reflect.New(t), reflect.New(t)
	e1 := codec.Unmarshal(b1, v1.Interface())
	e2 := codec.Unmarshal(b2, v2.Interface())
	verifAssert((e1 == nil) == (e2 == nil), what+": acceptance does not depend on bytes that belong to no field")
	if e1 == nil && e2 == nil {
		c05Equal(v1.Elem(), v2.Elem(), what+" (unused bytes)")
		verifReach("c05.unused." + what)
	}
}

// ---- dispatchers

// c05Header: a datagram of symbolic length whose first two bytes are symbolic and whose body is zero
// (the dispatch decision depends on length, protocol id and function code only; arbitrary bodies are
// the subject of C02/C04).
func c05Header() []byte {
	b := make([]byte, 80)
	b[0], b[1] = nondetU8("b0"), nondetU8("b1")
	// any serial number, 0 (the discovery request, an unconfigured controller) included
	b[4], b[5], b[6], b[7] = nondetU8("serial.0"), nondetU8("serial.1"), nondetU8("serial.2"), nondetU8("serial.3")
	return b[:nondetLen("n", 80)]
}

func VerifC05_DispatchResponse() {
	verifZone(1)
	b := c05Header()
	r, err := UnmarshalResponse(b)
	if len(b) != 64 || b[0] != 0x17 {
		verifAssert(err != nil && r == nil, "UnmarshalResponse: a wrong length or protocol id is rejected")
		verifReach("c05.dispatch.response.rejected")
		return
	}
	f, known := responses[b[1]]
	if !known {
		verifAssert(err != nil && r == nil, "UnmarshalResponse: an unknown function code is rejected")
		verifReach("c05.dispatch.response.unknown")
		return
	}
	verifAssert(err == nil, "UnmarshalResponse: a 64-byte message with a known function code and an all-zero body decodes, whatever its serial number")
	if err == nil {
		verifAssert(r != nil && reflect.TypeOf(r) == reflect.TypeOf(f()), "UnmarshalResponse: returns the message type whose function code is in the header")
		verifReach("c05.dispatch.response.ok")
	}
}

func VerifC05_DispatchRequest() {
	verifZone(1)
	b := c05Header()
	r, err := UnmarshalRequest(b)
	if len(b) != 64 || b[0] != 0x17 {
		verifAssert(err != nil && r == nil, "UnmarshalRequest: a wrong length or protocol id is rejected")
		verifReach("c05.dispatch.request.rejected")
		return
	}
	f, known := requests[b[1]]
	if !known {
		verifAssert(err != nil && r == nil, "UnmarshalRequest: an unknown function code is rejected")
		verifReach("c05.dispatch.request.unknown")
		return
	}
	verifAssert(err == nil, "UnmarshalRequest: a 64-byte message with a known function code and an all-zero body decodes, whatever its serial number")
	if err == nil {
		verifAssert(r != nil && reflect.TypeOf(r) == reflect.TypeOf(f()), "UnmarshalRequest: returns the message type whose function code is in the header")
		verifReach("c05.dispatch.request.ok")
	}
}
