// verif:properties C10 C09 C04 C17 C02
package uhppote

import (
	"os"
	"sync"
	"time"

	"github.com/uhppoted/uhppote-core/types"
)

// C10 - the event listener delivers every valid event once, in order, and nothing else.
//
// Seam level: the real Listen / listen / handler / dispatch goroutine run against a driver that feeds k
// symbolic datagrams (symbolic length and content) from a goroutine through one reused receive buffer,
// under the canonical run-to-block schedule.

type c10Rec struct {
	kind byte // 'E' event, 'X' error
	st   *types.Status
	snap types.Status
}

// (natively the event callback runs in the dispatch goroutine and the error callback in the receive loop)
type c10Listener struct {
	mu        sync.Mutex
	connected int
	log       []c10Rec
}

func (l *c10Listener) count() int {
	l.mu.Lock()
	defer l.mu.Unlock()
	return len(l.log)
}

// settle: wait (natively, at most two seconds) until the callback for datagram i has been recorded, so that the
// record order is the datagram order; under the engine's schedule it already has
func (l *c10Listener) settle(i int) {
	for tries := 0; l.count() <= i && tries < 200; tries++ {
		time.Sleep(10 * time.Millisecond)
	}
}

func c10Copy(s *types.Status) types.Status {
	c := *s
	c.DoorState = map[uint8]bool{}
	for k, v := range s.DoorState {
		c.DoorState[k] = v
	}
	c.DoorButton = map[uint8]bool{}
	for k, v := range s.DoorButton {
		c.DoorButton[k] = v
	}
	return c
}

func (l *c10Listener) OnConnected() { l.connected++ }
func (l *c10Listener) OnEvent(s *types.Status) {
	l.mu.Lock()
	defer l.mu.Unlock()
	l.log = append(l.log, c10Rec{kind: 'E', st: s, snap: c10Copy(s)})
}
func (l *c10Listener) OnError(error) bool {
	l.mu.Lock()
	defer l.mu.Unlock()
	l.log = append(l.log, c10Rec{kind: 'X'})
	return true
}

// c10Class: 0 = not an event at all (one error callback), 1 = well-formed event, 2 = event whose timestamp is
// decimal but not a calendar date-time (delivered with the zero timestamp, or rejected)
func c10Class(m []byte) int {
	if len(m) != 64 {
		return 0
	}
	if !(m[0] == 0x17 || m[0] == 0x19) || m[1] != 0x20 || specGet32(m, 4) == 0 {
		return 0
	}
	s := specStatusOf(m)
	if s.malformed {
		return 0
	}
	if specGet32(m, 8) != 0 && !s.ts.zero && !s.ts.valid {
		return 2
	}
	return 1
}

func c10SameStatus(a, b *types.Status) bool {
	if a.SerialNumber != b.SerialNumber || a.SystemError != b.SystemError || a.SequenceId != b.SequenceId || a.SpecialInfo != b.SpecialInfo ||
		a.RelayState != b.RelayState || a.InputState != b.InputState || len(a.DoorState) != len(b.DoorState) || len(a.DoorButton) != len(b.DoorButton) {
		return false
	}
	for k := uint8(1); k <= 4; k++ {
		if a.DoorState[k] != b.DoorState[k] || a.DoorButton[k] != b.DoorButton[k] {
			return false
		}
	}
	x, y := a.Event, b.Event
	return x.Index == y.Index && x.Type == y.Type && x.Granted == y.Granted && x.Door == y.Door && x.Direction == y.Direction &&
		x.CardNumber == y.CardNumber && x.Reason == y.Reason && x.Timestamp == y.Timestamp && a.SystemDateTime == b.SystemDateTime
}

var c10Lazy bool

func c10Listen(k int) {
	verifZone(1)
	if c10Lazy {
		verifLazySpawn() // goroutines start when the thread that started them blocks: quit is seen first
	}
	var dgs [][]byte
	for i := 0; i < k; i++ {
		dgs = append(dgs, nondetBuffer(keyTag("dg", i), 2048))
	}
	// keep the originals: the driver overwrites its receive buffer with every datagram
	d := &vDriver{events: dgs, async: true}
	u := vClient(d)
	l := &c10Listener{}
	d.settle = l.settle
	q := make(chan os.Signal, 1)
	q <- os.Interrupt
	err := u.Listen(l, q)
	verifAssert(err == nil, "Listen: returns without error once signalled")
	verifAssert(l.connected == 1, "Listen: the connected callback fires exactly once")
	verifAssert(verifGoroutines() == 0, "Listen: every goroutine it started has ended when it returns")
	verifAssert(len(l.log) == k, "Listen: exactly one callback (event or error) per datagram")
	if len(l.log) == k {
		for i := 0; i < k; i++ {
			rec := l.log[i]
			switch c10Class(dgs[i]) {
			case 0:
				verifAssert(rec.kind == 'X', "Listen: a datagram that is not a well-formed event produces an error callback and no event")
			case 1:
				verifAssert(rec.kind == 'E', "Listen: a well-formed event is delivered to the event callback")
			}
			if rec.kind == 'E' && c10Class(dgs[i]) != 0 {
				checkStatus(&rec.snap, dgs[i], specStatusOf(dgs[i]), "Listen event")
				verifAssert(c10SameStatus(rec.st, &rec.snap), "Listen: a delivered status does not change afterwards")
				for j := 0; j < i; j++ {
					verifAssert(l.log[j].st != rec.st, "Listen: every event gets its own status value")
				}
			}
		}
	}
	verifReach("c10.listen")
}

func VerifC10_Listen1()   { c10Listen(1) }
func VerifC10_Listen2()   { c10Listen(2) }
func VerifC10_T_Listen3() { c10Listen(3) }

// the same under the lazy-start schedule: the quit signal is already there when the receive loop starts
func VerifC10_ListenLazy2() {
	c10Lazy = true
	defer func() { c10Lazy = false }()
	c10Listen(2)
}

// a driver that cannot listen: the error is passed on, nothing is delivered, no goroutine stays behind
func VerifC10_ListenFails() {
	d := &vDriver{lstErr: errVerifNoReply}
	u := vClient(d)
	l := &c10Listener{}
	q := make(chan os.Signal, 1)
	err := u.Listen(l, q)
	verifAssert(err != nil, "Listen: a driver error is returned")
	verifAssert(l.connected == 0 && len(l.log) == 0, "Listen: no callback when the socket could not be opened")
	verifAssert(verifGoroutines() == 0, "Listen: the dispatch goroutine ends when listening fails")
	verifReach("c10.listenfails")
}

// C09: a Listen that fails leaves no goroutine behind
func VerifC09_ListenFailureReleasesGoroutines() { VerifC10_ListenFails() }

func VerifC10_T_ListenLazy3() {
	c10Lazy = true
	defer func() { c10Lazy = false }()
	c10Listen(3)
}

// C02: an event delivered by the listener is a reply like any other - every field of the delivered status is
// the protocol decoding of the datagram (0x17 and v6.62 0x19 alike), out-of-domain fields make it an error
func VerifC02_ListenEvent() { c10Listen(1) }
