// verif:properties C10 C04 C17
package uhppote

import (
	"net/netip"
	"os"
	"time"

	"github.com/uhppoted/uhppote-core/types"
)

// C10 at the socket level: Listen through the real ut0311.Listen (receive loop with one reused 2048-byte
// buffer, shutdown goroutine) over the socket script; natively the loopback peer sends the datagrams to the
// listen port.

func c10Sockets(k int) {
	verifZone(0)
	dgs := make([][]byte, k)
	for i := range dgs {
		dgs[i] = nondetBuffer(keyTag("dg", i), 96)
	}
	t0 := verifClock()
	verifNetFaults(false)
	verifNetScript(dgs)
	last := int64(0)
	for i := 0; i < k; i++ {
		a := verifNetArrival(i) - t0
		verifAssume(a >= last+int64(50*time.Millisecond) && a <= int64(600*time.Millisecond))
		last = a
	}
	lport := uint16(nondetU16("listen.port"))
	verifAssume(lport >= 20000 && lport < 30000)
	verifNetPlayTo(int(lport)) // natively: the peer starts sending to the listen port now
	u := &uhppote{
		devices:    map[uint32]Device{},
		driver:     &ut0311{listenAddr: netip.AddrPortFrom(netip.AddrFrom4([4]byte{127, 0, 0, 1}), lport), timeout: time.Second},
		listenAddr: types.ListenAddrFrom(netip.AddrFrom4([4]byte{127, 0, 0, 1}), lport),
	}
	l := &c10Listener{}
	q := make(chan os.Signal, 1)
	go func() {
		time.Sleep(time.Duration(last) + 200*time.Millisecond)
		q <- os.Interrupt
	}()
	err := u.Listen(l, q)
	verifAssert(err == nil, "Listen: returns without error once signalled")
	verifAssert(l.connected == 1, "Listen: the connected callback fires exactly once")
	verifAssert(verifSockOpen() == 0, "Listen: the listen socket is closed when it returns")
	verifAssert(len(l.log) == k, "Listen: exactly one callback (event or error) per datagram")
	if len(l.log) == k {
		for i := 0; i < k; i++ {
			rec := l.log[i]
			switch c10Class(dgs[i]) {
			case 0:
				verifAssert(rec.kind == 'X', "Listen: a datagram that is not a well-formed event produces an error callback and no event")
			case 1:
				verifAssert(rec.kind == 'E', "Listen: a well-formed event is delivered to the event callback")
			}
			if rec.kind == 'E' && c10Class(dgs[i]) != 0 {
				checkStatus(&rec.snap, dgs[i], specStatusOf(dgs[i]), "Listen event")
				verifAssert(c10SameStatus(rec.st, &rec.snap), "Listen: a delivered status does not change afterwards")
			}
		}
	}
	verifReach("c10.sockets")
}

func VerifC10_Sockets1()   { c10Sockets(1) }
func VerifC10_Sockets2()   { c10Sockets(2) }
func VerifC10_T_Sockets3() { c10Sockets(3) }

// Quit while an event is still being delivered: the application's OnEvent is slow (it blocks until a gate
// opens one second later), a second event arrives meanwhile and waits at the pipe, then the quit signal comes.
// Listen must neither panic nor lose the shutdown: it returns once the reader has finished, both events are
// delivered, nothing is left behind.  (One schedule: goroutines that sleep are parked on a timer and woken in
// time order when the main thread blocks.)
type c10SlowListener struct {
	c10Listener
	gate chan struct{}
	n    int
}

func (l *c10SlowListener) OnEvent(s *types.Status) {
	l.n++
	if l.n == 1 {
		<-l.gate
	}
	l.c10Listener.OnEvent(s)
}

func c10QuitInFlight(crashOnly bool) {
	verifZone(0)
	verifTimedSleeps()
	dgs := [][]byte{nondetBuffer("dg.0", 96), nondetBuffer("dg.1", 96)}
	verifAssume(c10Class(dgs[0]) == 1 && c10Class(dgs[1]) == 1)
	t0 := verifClock()
	verifNetFaults(false)
	verifNetScript(dgs)
	a0, a1 := verifNetArrival(0)-t0, verifNetArrival(1)-t0
	verifAssume(a0 >= int64(50*time.Millisecond) && a0 <= int64(100*time.Millisecond) && a1 >= a0+int64(50*time.Millisecond) && a1 <= int64(250*time.Millisecond))
	lport := uint16(nondetU16("listen.port"))
	verifAssume(lport >= 20000 && lport < 30000)
	verifNetPlayTo(int(lport))
	u := &uhppote{
		devices:    map[uint32]Device{},
		driver:     &ut0311{listenAddr: netip.AddrPortFrom(netip.AddrFrom4([4]byte{127, 0, 0, 1}), lport), timeout: time.Second},
		listenAddr: types.ListenAddrFrom(netip.AddrFrom4([4]byte{127, 0, 0, 1}), lport),
	}
	l := &c10SlowListener{gate: make(chan struct{})}
	q := make(chan os.Signal, 1)
	go func() {
		time.Sleep(500 * time.Millisecond) // both datagrams have arrived; the first event is still in OnEvent
		q <- os.Interrupt
	}()
	go func() {
		time.Sleep(1500 * time.Millisecond)
		close(l.gate)
	}()
	err := u.Listen(l, q)
	if !crashOnly {
		verifAssert(err == nil, "Listen: returns without error when quit arrives while an event is being delivered")
		verifAssert(verifGoroutines() == 0, "Listen: no goroutine is left behind after such a shutdown")
		verifAssert(len(l.log) == 2 && l.log[0].kind == 'E' && l.log[1].kind == 'E', "Listen: events received before the quit are delivered")
	} else {
		verifGoroutines() // (natively: gives the library's goroutines time to finish - or to crash)
	}
	verifReach("c10.quit.inflight")
}

func VerifC10_QuitWithEventInFlight() { c10QuitInFlight(false) }

// C04: shutting down while an event is in flight does not crash the library
func VerifC04_ListenQuitWithEventInFlight() { c10QuitInFlight(true) } // only the panic obligations count

// The same burst under the other canonical schedule: goroutines started by the library do not run until the
// thread that started them blocks (natively: whatever the Go scheduler does).  Two datagrams are read back to
// back before anything else gets to run, so a handler that is detached from the read loop would see the
// receive buffer after it has been reused.  Each delivered status must still be the decoding of its own
// datagram, in order.
func c10Burst(k int) {
	verifZone(0)
	verifTimedSleeps()
	dgs := make([][]byte, k)
	for i := range dgs {
		dgs[i] = nondetBuffer(keyTag("dg", i), 96)
		verifAssume(c10Class(dgs[i]) == 1)
	}
	t0 := verifClock()
	verifNetFaults(false)
	verifNetScript(dgs)
	last := int64(0)
	for i := 0; i < k; i++ {
		a := verifNetArrival(i) - t0
		if i == 0 {
			verifAssume(a >= int64(50*time.Millisecond) && a <= int64(200*time.Millisecond))
		} else {
			verifAssume(a == last) // a burst: the datagrams arrive together
		}
		last = a
	}
	lport := uint16(nondetU16("listen.port"))
	verifAssume(lport >= 20000 && lport < 30000)
	verifNetPlayTo(int(lport))
	u := &uhppote{
		devices:    map[uint32]Device{},
		driver:     &ut0311{listenAddr: netip.AddrPortFrom(netip.AddrFrom4([4]byte{127, 0, 0, 1}), lport), timeout: time.Second},
		listenAddr: types.ListenAddrFrom(netip.AddrFrom4([4]byte{127, 0, 0, 1}), lport),
	}
	l := &c10Listener{}
	q := make(chan os.Signal, 1)
	go func() {
		time.Sleep(600 * time.Millisecond)
		q <- os.Interrupt
	}()
	verifLazySpawn()
	err := u.Listen(l, q)
	verifAssert(err == nil, "Listen (burst): returns without error once signalled")
	verifAssert(verifGoroutines() == 0, "Listen (burst): no goroutine is left behind")
	verifAssert(len(l.log) == k, "Listen (burst): exactly one event per well-formed datagram")
	if len(l.log) == k {
		for i := 0; i < k; i++ {
			rec := l.log[i]
			verifAssert(rec.kind == 'E', "Listen (burst): a well-formed event is delivered to the event callback")
			if rec.kind == 'E' {
				checkStatus(&rec.snap, dgs[i], specStatusOf(dgs[i]), "Listen event (burst)")
				verifAssert(c10SameStatus(rec.st, &rec.snap), "Listen (burst): a delivered status does not change afterwards")
			}
		}
	}
	verifReach("c10.burst")
}

func VerifC10_Burst2()      { c10Burst(2) }
func VerifC17_ListenBurst() { c10Burst(2) }
func VerifC10_T_Burst3()    { c10Burst(3) }

// The receive loop hands its one reused buffer to the handler: whatever the handler is given must stay the
// same for as long as it is handling it, however slow it is, and each call gets its own datagram - otherwise
// the status decoded from it depends on when the next datagram arrives.  The handler here is the harness's: the
// first call takes 400 ms, the second datagram arrives meanwhile.
func c17ListenBufferStable() {
	verifTimedSleeps()
	dgs := [][]byte{nondetBuffer("dg.0", 96), nondetBuffer("dg.1", 96)}
	verifAssume(len(dgs[0]) > 0 && len(dgs[1]) > 0)
	t0 := verifClock()
	verifNetFaults(false)
	verifNetScript(dgs)
	a0, a1 := verifNetArrival(0)-t0, verifNetArrival(1)-t0
	verifAssume(a0 >= int64(50*time.Millisecond) && a0 <= int64(100*time.Millisecond) && a1 >= a0+int64(50*time.Millisecond) && a1 <= int64(250*time.Millisecond))
	lport := uint16(nondetU16("listen.port"))
	verifAssume(lport >= 20000 && lport < 30000)
	verifNetPlayTo(int(lport))
	d := &ut0311{listenAddr: netip.AddrPortFrom(netip.AddrFrom4([4]byte{127, 0, 0, 1}), lport), timeout: time.Second}
	type rec struct {
		n int
		b [96]byte
	}
	take := func(b []byte) rec {
		r := rec{n: len(b)}
		for i := 0; i < 96; i++ {
			if i < len(b) {
				r.b[i] = b[i]
			}
		}
		return r
	}
	var log []rec
	stable, calls := true, 0
	handler := func(b []byte) {
		snap := take(b)
		calls++
		if calls == 1 {
			time.Sleep(400 * time.Millisecond)
			if take(b) != snap {
				stable = false
			}
		}
		log = append(log, snap)
	}
	signal, done, gate := make(chan any), make(chan any), make(chan struct{})
	go func() {
		time.Sleep(1200 * time.Millisecond)
		close(gate)
	}()
	err := d.Listen(signal, done, handler)
	verifAssert(err == nil, "listen: the socket opens")
	if err != nil {
		return
	}
	<-gate
	close(signal)
	<-done
	verifAssert(stable, "listen: the bytes handed to the handler do not change while it is handling them")
	verifAssert(len(log) == 2, "listen: one handler call per datagram")
	if len(log) == 2 {
		for i := 0; i < 2; i++ {
			same := log[i] == take(dgs[i])
			verifAssert(same, "listen: the handler is given exactly the datagram's bytes, in arrival order")
		}
	}
	verifReach("c17.listen.stable")
}

func VerifC17_ListenBufferStable() { c17ListenBufferStable() }
func VerifC10_ListenBufferStable() { c17ListenBufferStable() }

func VerifC17_T_ListenBurst3() { c10Burst(3) }
