// verif:properties C10
package uhppote

import (
	"net/netip"
	"os"
	"time"

	"github.com/uhppoted/uhppote-core/types"
)

// C10 at the socket level: Listen through the real ut0311.Listen (receive loop with one reused 2048-byte
// buffer, shutdown goroutine) over the socket script; natively the loopback peer sends the datagrams to the
// listen port.

func c10Sockets(k int) {
	verifZone(0)
	dgs := make([][]byte, k)
	for i := range dgs {
		dgs[i] = nondetBuffer(keyTag("dg", i), 96)
	}
	t0 := verifClock()
	verifNetFaults(false)
	verifNetScript(dgs)
	last := int64(0)
	for i := 0; i < k; i++ {
		a := verifNetArrival(i) - t0
		verifAssume(a >= last+int64(50*time.Millisecond) && a <= int64(600*time.Millisecond))
		last = a
	}
	lport := uint16(nondetU16("listen.port"))
	verifAssume(lport >= 20000 && lport < 30000)
	verifNetPlayTo(int(lport)) // natively: the peer starts sending to the listen port now
	u := &uhppote{
		devices:    map[uint32]Device{},
		driver:     &ut0311{listenAddr: netip.AddrPortFrom(netip.AddrFrom4([4]byte{127, 0, 0, 1}), lport), timeout: time.Second},
		listenAddr: types.ListenAddrFrom(netip.AddrFrom4([4]byte{127, 0, 0, 1}), lport),
	}
	l := &c10Listener{}
	q := make(chan os.Signal, 1)
	go func() {
		time.Sleep(time.Duration(last) + 200*time.Millisecond)
		q <- os.Interrupt
	}()
	err := u.Listen(l, q)
	verifAssert(err == nil, "Listen: returns without error once signalled")
	verifAssert(l.connected == 1, "Listen: the connected callback fires exactly once")
	verifAssert(verifSockOpen() == 0, "Listen: the listen socket is closed when it returns")
	verifAssert(len(l.log) == k, "Listen: exactly one callback (event or error) per datagram")
	if len(l.log) == k {
		for i := 0; i < k; i++ {
			rec := l.log[i]
			switch c10Class(dgs[i]) {
			case 0:
				verifAssert(rec.kind == 'X', "Listen: a datagram that is not a well-formed event produces an error callback and no event")
			case 1:
				verifAssert(rec.kind == 'E', "Listen: a well-formed event is delivered to the event callback")
			}
			if rec.kind == 'E' && c10Class(dgs[i]) != 0 {
				checkStatus(&rec.snap, dgs[i], specStatusOf(dgs[i]), "Listen event")
				verifAssert(c10SameStatus(rec.st, &rec.snap), "Listen: a delivered status does not change afterwards")
			}
		}
	}
	verifReach("c10.sockets")
}

func VerifC10_Sockets1()   { c10Sockets(1) }
func VerifC10_Sockets2()   { c10Sockets(2) }
func VerifC10_T_Sockets3() { c10Sockets(3) }
