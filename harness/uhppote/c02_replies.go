// verif:properties C02
package uhppote

// C02 - replies are interpreted exactly as the protocol defines, sentinels included.
//
// For every reply-bearing operation the whole 64-byte reply is symbolic (header fixed so that it is
// accepted - the complement is C03's subject).  The result is compared field by field with the protocol
// table; out-of-domain wire values must make the call fail or come back as the zero 'no value'.

import (
	"net/netip"
	"time"

	"github.com/uhppoted/uhppote-core/types"
)

func c02End(d *vDriver, what string) {
	verifAssert(d.calls == 1, what+": exactly one request")
	verifReach("c02." + what)
}

// operations whose reply is a single success flag at offset 8
func c02Flag(err error, ok bool, r []byte, what string) {
	verifObserve("err", err != nil)
	verifObserve("ok", ok)
	verifAssert((err == nil) == specBoolOK(r[8]), what+": the call fails exactly when the flag byte is not 0/1")
	if err == nil {
		verifAssert(ok == (r[8] == 1), what+": result is the flag at offset 8")
	} else {
		verifAssert(!ok, what+": no success reported on failure")
	}
}

func VerifC02_PutCard() {
	verifZone(1)
	d, u, id, r := c02Reply(0x50)
	ok, err := u.PutCard(id, types.Card{CardNumber: 8165538, From: types.ToDate(2024, time.January, 1), To: types.ToDate(2024, time.December, 31), Doors: map[uint8]uint8{1: 1}})
	c02Flag(err, ok, r, "PutCard")
	c02End(d, "PutCard")
}

func VerifC02_DeleteCard() {
	d, u, id, r := c02Reply(0x52)
	ok, err := u.DeleteCard(id, nondetU32("card"))
	c02Flag(err, ok, r, "DeleteCard")
	c02End(d, "DeleteCard")
}

func VerifC02_DeleteCards() {
	d, u, id, r := c02Reply(0x54)
	ok, err := u.DeleteCards(id)
	c02Flag(err, ok, r, "DeleteCards")
	c02End(d, "DeleteCards")
}

func VerifC02_SetTimeProfile() {
	verifZone(1)
	d, u, id, r := c02Reply(0x88)
	seg := types.Segment{Start: types.NewHHmm(8, 30), End: types.NewHHmm(17, 0)}
	ok, err := u.SetTimeProfile(id, types.TimeProfile{ID: 29, From: types.ToDate(2024, time.January, 1), To: types.ToDate(2024, time.December, 31),
		Weekdays: types.Weekdays{time.Monday: true}, Segments: types.Segments{1: seg, 2: seg, 3: seg}})
	c02Flag(err, ok, r, "SetTimeProfile")
	c02End(d, "SetTimeProfile")
}

func VerifC02_ClearTimeProfiles() {
	d, u, id, r := c02Reply(0x8a)
	ok, err := u.ClearTimeProfiles(id)
	c02Flag(err, ok, r, "ClearTimeProfiles")
	c02End(d, "ClearTimeProfiles")
}

func VerifC02_ClearTaskList() {
	d, u, id, r := c02Reply(0xa6)
	ok, err := u.ClearTaskList(id)
	c02Flag(err, ok, r, "ClearTaskList")
	c02End(d, "ClearTaskList")
}

func VerifC02_AddTask() {
	verifZone(1)
	d, u, id, r := c02Reply(0xa8)
	ok, err := u.AddTask(id, types.Task{Task: types.DoorNormallyOpen, Door: 3, From: types.ToDate(2024, time.January, 1), To: types.ToDate(2024, time.December, 31), Start: types.NewHHmm(8, 30)})
	c02Flag(err, ok, r, "AddTask")
	c02End(d, "AddTask")
}

func VerifC02_RefreshTaskList() {
	d, u, id, r := c02Reply(0xac)
	ok, err := u.RefreshTaskList(id)
	c02Flag(err, ok, r, "RefreshTaskList")
	c02End(d, "RefreshTaskList")
}

func VerifC02_RecordSpecialEvents() {
	d, u, id, r := c02Reply(0x8e)
	ok, err := u.RecordSpecialEvents(id, nondetBool("enable"))
	c02Flag(err, ok, r, "RecordSpecialEvents")
	c02End(d, "RecordSpecialEvents")
}

func VerifC02_SetPCControl() {
	d, u, id, r := c02Reply(0xa0)
	ok, err := u.SetPCControl(id, nondetBool("enable"))
	c02Flag(err, ok, r, "SetPCControl")
	c02End(d, "SetPCControl")
}

func VerifC02_SetInterlock() {
	d, u, id, r := c02Reply(0xa2)
	ok, err := u.SetInterlock(id, types.Interlock(nondetU8("interlock")))
	c02Flag(err, ok, r, "SetInterlock")
	c02End(d, "SetInterlock")
}

func VerifC02_ActivateKeypads() {
	d, u, id, r := c02Reply(0xa4)
	ok, err := u.ActivateKeypads(id, map[uint8]bool{1: true, 2: false})
	c02Flag(err, ok, r, "ActivateKeypads")
	c02End(d, "ActivateKeypads")
}

func VerifC02_RestoreDefaultParameters() {
	d, u, id, r := c02Reply(0xc8)
	ok, err := u.RestoreDefaultParameters(id)
	c02Flag(err, ok, r, "RestoreDefaultParameters")
	c02End(d, "RestoreDefaultParameters")
}

func VerifC02_SetDoorPasscodes() {
	d, u, id, r := c02Reply(0x8c)
	ok, err := u.SetDoorPasscodes(id, 2, 12345, 999999)
	c02Flag(err, ok, r, "SetDoorPasscodes")
	c02End(d, "SetDoorPasscodes")
}

func VerifC02_SetListener() {
	d, u, id, r := c02Reply(0x90)
	ok, err := u.SetListener(id, netip.AddrPortFrom(netip.AddrFrom4([4]byte{192, 168, 1, 100}), 60001), nondetU8("interval"))
	c02Flag(err, ok, r, "SetListener")
	c02End(d, "SetListener")
}

func VerifC02_OpenDoor() {
	d, u, id, r := c02Reply(0x40)
	res, err := u.OpenDoor(id, nondetU8("door"))
	verifAssert((err == nil) == specBoolOK(r[8]), "OpenDoor: the call fails exactly when the flag byte is not 0/1")
	if err == nil {
		verifAssert(res != nil && uint32(res.SerialNumber) == id && res.Succeeded == (r[8] == 1), "OpenDoor: result is serial number and flag")
	} else {
		verifAssert(res == nil, "OpenDoor: no result on failure")
	}
	c02End(d, "OpenDoor")
}

func VerifC02_GetCards() {
	d, u, id, r := c02Reply(0x58)
	n, err := u.GetCards(id)
	verifAssert(err == nil && n == specGet32(r, 8), "GetCards: record count is the little-endian word at offset 8")
	c02End(d, "GetCards")
}

func VerifC02_GetEventIndex() {
	d, u, id, r := c02Reply(0xb4)
	res, err := u.GetEventIndex(id)
	verifAssert(err == nil && res != nil, "GetEventIndex: succeeds")
	if res != nil {
		verifAssert(uint32(res.SerialNumber) == id && res.Index == specGet32(r, 8), "GetEventIndex: index is the little-endian word at offset 8")
	}
	c02End(d, "GetEventIndex")
}

func VerifC02_SetEventIndex() {
	d, u, id, r := c02Reply(0xb2)
	index := nondetU32("index")
	res, err := u.SetEventIndex(id, index)
	verifAssert((err == nil) == specBoolOK(r[8]), "SetEventIndex: the call fails exactly when the flag byte is not 0/1")
	if err == nil {
		verifAssert(res != nil && uint32(res.SerialNumber) == id && res.Index == index && res.Changed == (r[8] == 1), "SetEventIndex: result is serial, requested index and flag")
	}
	c02End(d, "SetEventIndex")
}

func VerifC02_GetDoorControlState() {
	d, u, id, r := c02Reply(0x82)
	res, err := u.GetDoorControlState(id, nondetU8("door"))
	verifAssert(err == nil && res != nil, "GetDoorControlState: succeeds")
	if res != nil {
		verifAssert(uint32(res.SerialNumber) == id && res.Door == r[8] && int(res.ControlState) == int(r[9]) && res.Delay == r[10], "GetDoorControlState: door, state, delay from offsets 8, 9, 10")
	}
	c02End(d, "GetDoorControlState")
}

func VerifC02_SetDoorControlState() {
	d, u, id, r := c02Reply(0x80)
	res, err := u.SetDoorControlState(id, nondetU8("door"), types.ControlState(nondetU8("state")), nondetU8("delay"))
	verifAssert(err == nil && res != nil, "SetDoorControlState: succeeds")
	if res != nil {
		verifAssert(uint32(res.SerialNumber) == id && res.Door == r[8] && int(res.ControlState) == int(r[9]) && res.Delay == r[10], "SetDoorControlState: door, state, delay from offsets 8, 9, 10")
	}
	c02End(d, "SetDoorControlState")
}

func VerifC02_GetListener() {
	d, u, id, r := c02Reply(0x92)
	addr, interval, err := u.GetListener(id)
	verifAssert(err == nil, "GetListener: succeeds")
	if err == nil {
		a := addr.Addr().As4()
		verifAssert(addr.Addr().Is4() && a[0] == r[8] && a[1] == r[9] && a[2] == r[10] && a[3] == r[11], "GetListener: IPv4 address from offsets 8..11")
		verifAssert(addr.Port() == specGet16(r, 12), "GetListener: port is the little-endian word at offset 12")
		verifAssert(interval == r[14], "GetListener: interval from offset 14")
	}
	c02End(d, "GetListener")
}

func c02Time(fn byte, what string, call func(u *uhppote, id uint32) (*types.Time, error)) {
	verifZone(1)
	d, u, id, r := c02Reply(fn)
	dt := specDateTime7(r[8:15])
	res, err := call(u, id)
	verifObserve("err", err != nil)
	if !dt.digits && !dt.zero {
		verifAssert(err != nil, what+": a non-decimal BCD nibble makes the call fail")
	}
	if dt.digits {
		verifAssert(err == nil && res != nil, what+": succeeds on decimal digits")
	}
	if err == nil && res != nil {
		verifAssert(uint32(res.SerialNumber) == id, what+": serial number")
		checkDateTime(res.DateTime, dt, what)
	}
	c02End(d, what)
}

func VerifC02_GetTime() {
	c02Time(0x32, "GetTime", func(u *uhppote, id uint32) (*types.Time, error) { return u.GetTime(id) })
}

// the same for a controller that is configured with a time zone (nil, UTC or the process zone)
func VerifC02_GetTimeConfigured() {
	c02Configured = true
	defer func() { c02Configured = false }()
	VerifC02_GetTime()
}

func VerifC02_GetStatusConfigured() {
	c02Configured = true
	defer func() { c02Configured = false }()
	VerifC02_GetStatus()
}

func VerifC02_SetTime() {
	c02Time(0x30, "SetTime", func(u *uhppote, id uint32) (*types.Time, error) {
		return u.SetTime(id, time.Date(2024, time.February, 29, 12, 34, 56, 0, time.Local))
	})
}

func c02Card(fn byte, what string, byIndex bool) {
	verifZone(1)
	d, u, id, r := c02Reply(fn)
	arg := nondetU32("arg")
	from, to := specDate4(r[12:16]), specDate4(r[16:20])
	number := specGet32(r, 8)
	var card *types.Card
	var err error
	if byIndex {
		card, err = u.GetCardByIndex(id, arg)
	} else {
		card, err = u.GetCardByID(id, arg)
	}
	verifObserve("err", err != nil)
	verifObserve("nil", card == nil)
	digits := from.digits && to.digits
	switch {
	case !digits:
		verifAssert(err != nil && card == nil, what+": a non-decimal BCD nibble makes the call fail")
	case number == 0:
		verifAssert(err == nil && card == nil, what+": card number 0 means no card")
	case byIndex && number == 0xffffffff:
		verifAssert(err == nil && card == nil, what+": card number 0xffffffff means a deleted card")
	case !byIndex && number != arg:
		verifAssert(err != nil && card == nil, what+": a mismatching echoed card number is an error")
	default:
		verifAssert(err == nil && card != nil, what+": a card is returned")
		if card != nil {
			verifAssert(card.CardNumber == number, what+": card number from offset 8")
			checkDate(card.From, from, what+" from")
			checkDate(card.To, to, what+" to")
			verifAssert(card.Doors[1] == r[20] && card.Doors[2] == r[21] && card.Doors[3] == r[22] && card.Doors[4] == r[23] && len(card.Doors) == 4, what+": door permissions from offsets 20..23")
			verifAssert(uint32(card.PIN) == uint32(r[24])|uint32(r[25])<<8|uint32(r[26])<<16, what+": PIN is the 3-byte little-endian value at offset 24")
		}
	}
	c02End(d, what)
}

func VerifC02_GetCardByIndex() { c02Card(0x5c, "GetCardByIndex", true) }
func VerifC02_GetCardByID()    { c02Card(0x5a, "GetCardByID", false) }

func VerifC02_GetEvent() {
	verifZone(1)
	d, u, id, r := c02Reply(0xb0)
	ts := specDateTime7(r[20:27])
	ev, err := u.GetEvent(id, nondetU32("index"))
	verifObserve("err", err != nil)
	verifObserve("nil", ev == nil)
	switch {
	case !specBoolOK(r[13]) || (!ts.digits && !ts.zero):
		verifAssert(err != nil && ev == nil, "GetEvent: an out-of-domain flag byte or BCD nibble makes the call fail")
	case r[12] == 0xff:
		verifAssert(err != nil && ev == nil, "GetEvent: event type 0xff is the 'overwritten' error")
	case specGet32(r, 8) == 0:
		verifAssert(err == nil && ev == nil, "GetEvent: index 0 means no event")
	default:
		verifAssert(err == nil && ev != nil, "GetEvent: an event is returned")
		if ev != nil {
			verifAssert(uint32(ev.SerialNumber) == id && ev.Index == specGet32(r, 8) && ev.Type == r[12] && ev.Granted == (r[13] == 1) &&
				ev.Door == r[14] && ev.Direction == r[15] && ev.CardNumber == specGet32(r, 16) && ev.Reason == r[27], "GetEvent: fields from their protocol offsets")
			checkDateTime(ev.Timestamp, ts, "GetEvent timestamp")
		}
	}
	c02End(d, "GetEvent")
}

func VerifC02_GetDevice() {
	verifZone(1)
	d, u, id, r := c02Reply(0x94)
	date := specDate4(r[28:32])
	dev, err := u.GetDevice(id)
	verifObserve("err", err != nil)
	if !date.digits {
		verifAssert(err != nil && dev == nil, "GetDevice: a non-decimal BCD nibble makes the call fail")
	} else {
		verifAssert(err == nil && dev != nil, "GetDevice: succeeds")
		if dev != nil {
			verifAssert(uint32(dev.SerialNumber) == id && dev.Name == "", "GetDevice: serial number, no name for an unconfigured controller")
			ip, mask, gw := dev.IpAddress.To4(), dev.SubnetMask.To4(), dev.Gateway.To4()
			verifAssert(ip != nil && mask != nil && gw != nil, "GetDevice: addresses are IPv4")
			if ip != nil && mask != nil && gw != nil {
				verifAssert(ip[0] == r[8] && ip[1] == r[9] && ip[2] == r[10] && ip[3] == r[11], "GetDevice: IP address from offsets 8..11")
				verifAssert(mask[0] == r[12] && mask[1] == r[13] && mask[2] == r[14] && mask[3] == r[15], "GetDevice: subnet mask from offsets 12..15")
				verifAssert(gw[0] == r[16] && gw[1] == r[17] && gw[2] == r[18] && gw[3] == r[19], "GetDevice: gateway from offsets 16..19")
			}
			verifAssert(len(dev.MacAddress) == 6, "GetDevice: MAC has six bytes")
			if len(dev.MacAddress) == 6 {
				verifAssertEqBytes([]byte(dev.MacAddress), r[20:26], "GetDevice: MAC from offsets 20..25")
			}
			verifAssert(uint16(dev.Version) == uint16(r[26])<<8|uint16(r[27]), "GetDevice: version is big-endian at offset 26")
			checkDate(dev.Date, date, "GetDevice date")
			a := dev.Address.Addr().As4()
			verifAssert(dev.Address.Addr().Is4() && a[0] == r[8] && a[1] == r[9] && a[2] == r[10] && a[3] == r[11] && dev.Address.Port() == 60000, "GetDevice: address is the reply IP with the default port 60000")
		}
	}
	c02End(d, "GetDevice")
}

func VerifC02_GetTimeProfile() {
	verifZone(1)
	d, u, id, r := c02Reply(0x98)
	requested := nondetU8("profile")
	from, to := specDate4(r[9:13]), specDate4(r[13:17])
	p, err := u.GetTimeProfile(id, requested)
	verifObserve("err", err != nil)
	verifObserve("nil", p == nil)
	flagsOK := true
	for i := 17; i <= 23; i++ {
		if !specBoolOK(r[i]) {
			flagsOK = false
		}
	}
	switch {
	case !from.digits || !to.digits || !flagsOK:
		verifAssert(err != nil && p == nil, "GetTimeProfile: an out-of-domain flag byte or BCD nibble in a date makes the call fail")
	case r[8] == 0:
		verifAssert(err == nil && p == nil, "GetTimeProfile: profile id 0 means no profile")
	case r[8] != requested:
		verifAssert(err != nil && p == nil, "GetTimeProfile: a mismatching echoed profile id is an error")
	default:
		verifAssert(err == nil && p != nil, "GetTimeProfile: a profile is returned")
		if p != nil {
			verifAssert(p.ID == r[8] && p.LinkedProfileID == r[36], "GetTimeProfile: id and linked profile from offsets 8 and 36")
			checkDate(p.From, from, "GetTimeProfile from")
			checkDate(p.To, to, "GetTimeProfile to")
			w := p.Weekdays
			verifAssert(w[time.Monday] == (r[17] == 1) && w[time.Tuesday] == (r[18] == 1) && w[time.Wednesday] == (r[19] == 1) && w[time.Thursday] == (r[20] == 1) &&
				w[time.Friday] == (r[21] == 1) && w[time.Saturday] == (r[22] == 1) && w[time.Sunday] == (r[23] == 1), "GetTimeProfile: weekdays from offsets 17..23")
			for k := 0; k < 3; k++ {
				seg, present := p.Segments[uint8(k+1)]
				verifAssert(present, "GetTimeProfile: three segments")
				s, e := specHHmm2(r[24+4*k:26+4*k]), specHHmm2(r[26+4*k:28+4*k])
				if s.valid {
					verifAssert(seg.Start.Equals(types.NewHHmm(s.h, s.m)), "GetTimeProfile: segment start is the transmitted HH:mm")
				} else {
					verifAssert(seg.Start.Equals(types.NewHHmm(0, 0)), "GetTimeProfile: an out-of-domain segment start comes back as 00:00, never as another time")
				}
				if e.valid {
					verifAssert(seg.End.Equals(types.NewHHmm(e.h, e.m)), "GetTimeProfile: segment end is the transmitted HH:mm")
				} else {
					verifAssert(seg.End.Equals(types.NewHHmm(0, 0)), "GetTimeProfile: an out-of-domain segment end comes back as 00:00, never as another time")
				}
			}
		}
	}
	c02End(d, "GetTimeProfile")
}

func VerifC02_GetStatus() {
	verifZone(1)
	d, u, id, r := c02Reply(0x20)
	ts := specDateTime7(r[20:27])
	flagsOK := specBoolOK(r[13])
	for i := 28; i <= 35; i++ {
		if !specBoolOK(r[i]) {
			flagsOK = false
		}
	}
	// system date YYMMDD at 51 (00 00 00 = none), system time HHmmss at 37
	sdZero := specAllZero(r[51:54])
	sdDigits, stDigits := specNibblesOK(r[51:54]), specNibblesOK(r[37:40])
	yy, mo, dd := specBCD2(r[51]), specBCD2(r[52]), specBCD2(r[53])
	hh, mi, ss := specBCD2(r[37]), specBCD2(r[38]), specBCD2(r[39])
	year := 2000 + yy
	if yy >= 69 {
		year = 1900 + yy // two-digit year pivot of the standard library (outside the protocol: not asserted)
	}
	sdValid := sdDigits && verifValidDate(year, mo, dd)
	stValid := stDigits && hh <= 23 && mi <= 59 && ss <= 59
	st, err := u.GetStatus(id)
	verifObserve("err", err != nil)
	switch {
	case !flagsOK || (!ts.digits && !ts.zero) || (!sdZero && !sdValid) || !stValid:
		verifAssert(err != nil && st == nil, "GetStatus: an out-of-domain flag byte, BCD nibble or system date/time makes the call fail")
	default:
		verifAssert(err == nil && st != nil, "GetStatus: a status is returned")
		if st != nil {
			verifAssert(uint32(st.SerialNumber) == id && st.SystemError == r[36] && st.SequenceId == specGet32(r, 40) &&
				st.SpecialInfo == r[48] && st.RelayState == r[49] && st.InputState == r[50], "GetStatus: scalar fields from their protocol offsets")
			ds, db := st.DoorState, st.DoorButton
			verifAssert(len(ds) == 4 && ds[1] == (r[28] == 1) && ds[2] == (r[29] == 1) && ds[3] == (r[30] == 1) && ds[4] == (r[31] == 1), "GetStatus: door states from offsets 28..31")
			verifAssert(len(db) == 4 && db[1] == (r[32] == 1) && db[2] == (r[33] == 1) && db[3] == (r[34] == 1) && db[4] == (r[35] == 1), "GetStatus: door buttons from offsets 32..35")
			sys := time.Time(st.SystemDateTime)
			if sdZero {
				verifAssert(st.SystemDateTime.IsZero(), "GetStatus: system date 00 00 00 gives the zero system date-time")
			} else if yy < 69 {
				verifAssert(sys.Year() == year && int(sys.Month()) == mo && sys.Day() == dd && sys.Hour() == hh && sys.Minute() == mi && sys.Second() == ss,
					"GetStatus: system date-time is the combination of system date and system time")
			}
			e := st.Event
			if specGet32(r, 8) == 0 {
				verifAssert(e.Index == 0 && e.Type == 0 && !e.Granted && e.Door == 0 && e.Direction == 0 && e.CardNumber == 0 && e.Reason == 0 && e.Timestamp.IsZero(), "GetStatus: no event when the event index is 0")
			} else {
				verifAssert(e.Index == specGet32(r, 8) && e.Type == r[12] && e.Granted == (r[13] == 1) && e.Door == r[14] && e.Direction == r[15] &&
					e.CardNumber == specGet32(r, 16) && e.Reason == r[27], "GetStatus: event fields from their protocol offsets")
				checkDateTime(e.Timestamp, ts, "GetStatus event timestamp")
			}
		}
	}
	c02End(d, "GetStatus")
}

// ---- the same decodings after an earlier call of the same operation (results depend on the current reply only)

func c02Twice(earlier func(u *uhppote, id uint32) error, harness func()) {
	c02Earlier = earlier
	defer func() { c02Earlier = nil }()
	harness()
}

func VerifC02_GetTimeProfileTwice() {
	// one segment field at a time is arbitrary in the second reply, the other five are 00:00
	c02Narrow = func(r []byte) {
		k := nondetEnum("segment", 6)
		for i := 0; i < 6; i++ {
			if i != k {
				verifAssume(r[24+2*i] == 0 && r[25+2*i] == 0)
			}
		}
	}
	defer func() { c02Narrow = nil }()
	c02Twice(func(u *uhppote, id uint32) error { _, err := u.GetTimeProfile(id, nondetU8("earlier.profile")); return err }, VerifC02_GetTimeProfile)
}
func VerifC02_GetCardByIndexTwice() {
	c02Twice(func(u *uhppote, id uint32) error { _, err := u.GetCardByIndex(id, nondetU32("earlier.index")); return err }, VerifC02_GetCardByIndex)
}
func VerifC02_GetEventTwice() {
	c02Twice(func(u *uhppote, id uint32) error { _, err := u.GetEvent(id, nondetU32("earlier.index")); return err }, VerifC02_GetEvent)
}
func VerifC02_T_GetStatusTwice() {
	c02Twice(func(u *uhppote, id uint32) error { _, err := u.GetStatus(id); return err }, VerifC02_GetStatus)
}
func VerifC02_T_GetDeviceTwice() {
	c02Twice(func(u *uhppote, id uint32) error { _, err := u.GetDevice(id); return err }, VerifC02_GetDevice)
}
