// verif:properties C06
package uhppote

import (
	"net"
	"net/netip"
	"time"
)

// C06 at the socket level: each of the four driver methods opens exactly one socket, bound to the configured
// bind address and port, writes the request exactly once, to the requested endpoint only.

func c06Sockets(route int, what string) {
	const timeout = 300 * time.Millisecond
	t0 := verifClock()
	_ = t0
	verifNetFaults(false)
	verifNetScript(nil)
	var bind netip.AddrPort
	bport := 0
	switch nondetEnum("bind", 4) {
	case 0: // not configured
	case 1: // 0.0.0.0:0
		bind = netip.AddrPortFrom(netip.AddrFrom4([4]byte{0, 0, 0, 0}), 0)
	case 2: // any address, fixed port
		bport = int(nondetU16("bind.port"))
		verifAssume(bport >= 20000 && bport < 30000)
		bind = netip.AddrPortFrom(netip.AddrFrom4([4]byte{0, 0, 0, 0}), uint16(bport))
	case 3: // fixed address and port
		bport = int(nondetU16("bind.port"))
		verifAssume(bport >= 20000 && bport < 30000)
		bind = netip.AddrPortFrom(netip.AddrFrom4([4]byte{127, 0, 0, 1}), uint16(bport))
	}
	u := &ut0311{bindAddr: bind, timeout: timeout}
	req := nondetBytes("request", 64)
	verifAssume(req[1] != 0x96)
	peer := &net.UDPAddr{IP: net.IPv4(127, 0, 0, 1), Port: verifPeerPort()}
	switch route {
	case 0:
		u.SendUDP(peer, req)
	case 1:
		verifNetConnectMax(int64(5 * time.Millisecond))
		u.SendTCP(&net.TCPAddr{IP: peer.IP, Port: peer.Port}, req)
	case 2:
		u.BroadcastTo(peer, req, func([]byte) bool { return true })
	case 3:
		u.Broadcast(peer, req)
	}
	verifAssert(verifPeerRequests() == 1 && verifNetStray() == 0, what+": exactly one request reaches the endpoint, nothing goes anywhere else")
	if verifPeerRequests() == 1 {
		verifAssert(c09SameBytesC06(verifPeerRequest(0), req), what+": the request arrives unchanged")
		if bport != 0 {
			verifAssert(verifPeerFromPort(0) == bport, what+": the request leaves from the configured bind port")
		}
	}
	verifAssert(verifSockOpen() == 0, what+": the socket is closed afterwards")
	verifReach("c06.sockets." + what)
}

func c09SameBytesC06(a, b []byte) bool {
	if len(a) != len(b) {
		return false
	}
	for i := range a {
		if a[i] != b[i] {
			return false
		}
	}
	return true
}

func VerifC06_SocketsSendUDP()     { c06Sockets(0, "SendUDP") }
func VerifC06_SocketsSendTCP()     { c06Sockets(1, "SendTCP") }
func VerifC06_SocketsBroadcastTo() { c06Sockets(2, "BroadcastTo") }
func VerifC06_SocketsBroadcast()   { c06Sockets(3, "Broadcast") }

// with faults: whatever fails (socket cannot be opened, bind address in use, write fails), a request that does
// leave leaves from the configured bind port, at most once, and only to the requested endpoint
func c06SocketsFaults(route int, what string) {
	const timeout = 300 * time.Millisecond
	verifClock()
	verifNetFaults(true)
	verifNetScript(nil)
	bport := int(nondetU16("bind.port"))
	verifAssume(bport >= 20000 && bport < 30000)
	verifBindPortBusy(bport)
	u := &ut0311{bindAddr: netip.AddrPortFrom(netip.AddrFrom4([4]byte{127, 0, 0, 1}), uint16(bport)), timeout: timeout}
	req := nondetBytes("request", 64)
	verifAssume(req[1] != 0x96)
	peer := &net.UDPAddr{IP: net.IPv4(127, 0, 0, 1), Port: verifPeerPort()}
	switch route {
	case 0:
		u.SendUDP(peer, req)
	case 1:
		verifNetConnectMax(int64(5 * time.Millisecond))
		u.SendTCP(&net.TCPAddr{IP: peer.IP, Port: verifDialTarget()}, req)
	}
	n := verifPeerRequests()
	verifAssert(n <= 1 && verifNetStray() == 0, what+": at most one request, nothing goes anywhere else")
	if n == 1 {
		verifAssert(verifPeerFromPort(0) == bport, what+": a request that leaves, leaves from the configured bind port")
	}
	verifAssert(verifSockOpen() == 0, what+": the socket is closed afterwards")
	verifReach("c06.sockets.faults." + what)
}

func VerifC06_SocketsFaultsUDP() { c06SocketsFaults(0, "SendUDP") }
func VerifC06_SocketsFaultsTCP() { c06SocketsFaults(1, "SendTCP") }

// "... over the configured transport - a connected UDP socket by default": a datagram that reaches the bind
// port from another port than the controller's is not the controller's reply - the call waits for the
// controller (which stays silent here) and fails at the deadline
func VerifC06_SendUDPIsConnected() {
	const timeout = 400 * time.Millisecond
	dg := nondetBytes("dg", 64)
	t0 := verifClock()
	verifNetFaults(false)
	verifNetScript([][]byte{dg})
	verifNetFromOtherPort(0)
	a := verifNetArrival(0) - t0
	verifAssume(a >= int64(20*time.Millisecond) && a <= int64(200*time.Millisecond))
	u := &ut0311{bindAddr: netip.AddrPort{}, timeout: timeout}
	req := nondetBytes("request", 64)
	verifAssume(req[1] != 0x96)
	reply, err := u.SendUDP(&net.UDPAddr{IP: net.IPv4(127, 0, 0, 1), Port: verifPeerPort()}, req)
	verifObserve("err", err != nil)
	verifAssert(err != nil && reply == nil, "SendUDP: a datagram from another endpoint is not taken for the controller's reply (connected socket)")
	verifAssert(verifSockOpen() == 0, "SendUDP: socket closed")
	verifReach("c06.connected")
}
