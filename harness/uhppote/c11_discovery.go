// verif:properties C11 C17
package uhppote

// C11 - discovery returns exactly the controllers that answered, despite network noise.

import (
	"net/netip"

	"github.com/uhppoted/uhppote-core/types"
)

// a well-formed get-device reply: 64 bytes, protocol id 0x17, function 0x94, decimal BCD date
func c11WellFormed(m []byte) bool {
	return len(m) == 64 && m[0] == 0x17 && m[1] == 0x94 && specNibblesOK(m[28:32])
}

func c11Discovery(k int) {
	verifZone(1)
	replies := make([][]byte, k)
	for i := range replies {
		replies[i] = nondetBuffer(keyTag("dg", i), 2048)
	}
	d := &vDriver{replies: replies}
	u := vClient(d)
	cid := nondetU32("configured.id")
	u.devices[cid] = Device{Name: "alpha", DeviceID: cid, Address: types.ControllerAddrFrom(netip.AddrFrom4([4]byte{10, 0, 0, 1}), 12345)}
	port := uint16(60000)
	if nondetBool("bcast.valid") {
		port = nondetU16("bcast.port")
		u.broadcastAddr = types.BroadcastAddrFrom(netip.AddrFrom4([4]byte{192, 168, 1, 255}), port)
	}
	devices, err := u.GetDevices()
	verifAssert(d.calls == 1 && d.method == "Broadcast", "GetDevices: one broadcast")
	c11Check(replies, devices, err, cid, port)
	verifReach("c11.discovery")
}

// c11Check: devices is, in arrival order, exactly one entry per well-formed reply.
func c11Check(replies [][]byte, devices []types.Device, err error, cid uint32, port uint16) {
	k := len(replies)
	verifAssert(err == nil, "GetDevices: malformed datagrams never make the call fail")
	j := 0
	for i := 0; i < k; i++ {
		m := replies[i]
		if c11WellFormed(m) {
			verifAssert(j < len(devices), "GetDevices: every well-formed reply yields an entry")
			if j < len(devices) {
				dev := devices[j]
				serial := specGet32(m, 4)
				verifAssert(uint32(dev.SerialNumber) == serial, "GetDevices: entries are in arrival order, serial number from the reply")
				wantName := ""
				if serial == cid {
					wantName = "alpha"
				}
				verifAssert(dev.Name == wantName, "GetDevices: name of the matching configured controller")
				ip := dev.IpAddress.To4()
				verifAssert(ip != nil && ip[0] == m[8] && ip[1] == m[9] && ip[2] == m[10] && ip[3] == m[11], "GetDevices: IP address from the reply")
				a := dev.Address.Addr().As4()
				verifAssert(dev.Address.Addr().Is4() && a[0] == m[8] && a[1] == m[9] && a[2] == m[10] && a[3] == m[11] && dev.Address.Port() == port, "GetDevices: address completed by the broadcast port (60000 by default)")
				verifAssert(len(dev.MacAddress) == 6 && uint16(dev.Version) == uint16(m[26])<<8|uint16(m[27]), "GetDevices: MAC and version from the reply")
				checkDate(dev.Date, specDate4(m[28:32]), "GetDevices date")
			}
			j++
		}
	}
	verifObserve("n", len(devices))
	verifAssert(len(devices) == j, "GetDevices: nothing for malformed datagrams, one entry per well-formed reply (duplicates included)")
}

func VerifC11_Discovery0() { c11Discovery(0) }
func VerifC11_Discovery1() { c11Discovery(1) }
func VerifC11_Discovery2() { c11Discovery(2) }

func VerifC11_T_Discovery3() { c11Discovery(3) }

// (four datagrams take about an hour of solver time for no new behaviour: the loop is the same per datagram)

// the driver failing (socket error) is reported, not swallowed
func VerifC11_DriverError() {
	d := &vDriver{err: errVerifNoReply}
	u := vClient(d)
	devices, err := u.GetDevices()
	verifAssert(err != nil && devices == nil, "GetDevices: a transport failure is an error")
	verifReach("c11.error")
}
