// verif:properties C17
package uhppote

// C17 - clients are insulated from later input changes, results from network buffers.
//
// "havoc-after": after the operation of interest every settable cell reachable from the caller's data
// (or from the transport buffer) is overwritten with fresh symbols; the assertions then speak about the
// values observed afterwards, so a shared cell shows up as a satisfiable difference.

import (
	"net/netip"
	"time"

	"github.com/uhppoted/uhppote-core/types"
)

// (1) the client keeps its own copy of the configuration
func VerifC17_ConfigIsCopied() {
	id1, id2 := nondetSerial("id1"), nondetSerial("id2")
	verifAssume(id1 != id2)
	ip := nondetBytes("ip", 4)
	port := nondetU16("port")
	verifAssume(port != 0 && !(ip[0] == 0 && ip[1] == 0 && ip[2] == 0 && ip[3] == 0))
	doors1 := []string{"Gryffindor", "Hufflepuff"}
	devices := []Device{
		{Name: "alpha", DeviceID: id1, Address: types.ControllerAddrFrom(netip.AddrFrom4([4]byte{ip[0], ip[1], ip[2], ip[3]}), port), Doors: doors1, TimeZone: time.Local, Protocol: "tcp"},
		{Name: "beta", DeviceID: id2, Doors: []string{"Ravenclaw"}, TimeZone: time.Local, Protocol: "udp"},
	}
	var bind types.BindAddr
	var bcast types.BroadcastAddr
	var listen types.ListenAddr
	api := NewUHPPOTE(bind, bcast, listen, 5*time.Second, devices, false)
	u := api.(*uhppote)
	d := &vDriver{err: errVerifNoReply}
	u.driver = d

	// the caller changes everything it still holds: the client keeps its own copy of the configuration
	verifHavoc(&devices)
	verifHavoc(&doors1)
	list := u.DeviceList()
	a, okA := list[id1]
	b, okB := list[id2]
	verifAssert(okA && okB && len(list) == 2, "device list still has the two configured controllers")
	verifAssert(a.Name == "alpha" && a.DeviceID == id1 && a.Protocol == "tcp" && len(a.Doors) == 2 && a.Doors[0] == "Gryffindor" && a.Doors[1] == "Hufflepuff", "first controller is the client's own copy")
	verifAssert(b.Name == "beta" && b.DeviceID == id2 && b.Protocol == "udp" && len(b.Doors) == 1 && b.Doors[0] == "Ravenclaw", "second controller is the client's own copy")

	// ... and then scribbles over the map DeviceList returned: where requests go does not change
	verifHavoc(&list)
	u.GetTime(id1)
	verifAssert(d.calls == 1 && d.method == "SendTCP" && specIPEq(d.ip, ip) && d.port == int(port), "configured controller is still reached at its original endpoint over its original transport")
	d2 := &vDriver{err: errVerifNoReply}
	u.driver = d2
	u.GetTime(id2)
	verifAssert(d2.calls == 1 && d2.method == "BroadcastTo", "controller configured without an address is still reached by broadcast")
	again := u.DeviceList()
	verifAssert(len(again) == 2, "the client still knows its two controllers")
	verifReach("c17.config")
}

// (2) operations never modify their arguments
func VerifC17_PutCardArgs() {
	verifZone(1)
	d := &vDriver{err: errVerifNoReply}
	u := vClient(d)
	doors, want := nondetDoors("doors")
	card := types.Card{CardNumber: 8165538, From: types.ToDate(2024, time.January, 1), To: types.ToDate(2024, time.December, 31), Doors: doors, PIN: 7531}
	wasNil := doors == nil
	n := len(doors)
	u.PutCard(nondetSerial("id"), card)
	verifAssert((card.Doors == nil) == wasNil && len(card.Doors) == n, "PutCard: the door map keeps its entries")
	for k := 1; k <= 5; k++ {
		verifAssert(card.Doors[uint8(k)] == want[k], "PutCard: door permissions are not modified")
	}
	verifReach("c17.putcard")
}

func VerifC17_SetTimeProfileArgs() {
	verifZone(1)
	d := &vDriver{err: errVerifNoReply}
	u := vClient(d)
	weekdays, ww := nondetWeekdays("weekdays")
	s1, e1 := types.NewHHmm(8, 30), types.NewHHmm(9, 45)
	segments := types.Segments{1: {Start: s1, End: e1}, 2: {Start: s1, End: e1}, 3: {Start: s1, End: e1}}
	n := len(weekdays)
	u.SetTimeProfile(nondetSerial("id"), types.TimeProfile{ID: 29, From: types.ToDate(2024, time.January, 1), To: types.ToDate(2024, time.December, 31), Weekdays: weekdays, Segments: segments})
	verifAssert(len(weekdays) == n && len(segments) == 3, "SetTimeProfile: maps keep their entries")
	for k := 0; k < 7; k++ {
		verifAssert(weekdays[time.Weekday(k)] == ww[k], "SetTimeProfile: weekdays are not modified")
	}
	for k := 1; k <= 3; k++ {
		verifAssert(segments[uint8(k)].Start.Equals(s1) && segments[uint8(k)].End.Equals(e1), "SetTimeProfile: segments are not modified")
	}
	verifReach("c17.settimeprofile")
}

func VerifC17_SetAddressArgs() {
	d := &vDriver{}
	u := vClient(d)
	addr, a := nondetIPv4("addr")
	mask, m := nondetIPv4("mask")
	gw, g := nondetIPv4("gw")
	la, lm, lg := len(addr), len(mask), len(gw)
	u.SetAddress(nondetSerial("id"), addr, mask, gw)
	chk := func(ip []byte, n int, w [4]byte, what string) {
		verifAssert(len(ip) == n, what+": length unchanged")
		verifAssert(ip[n-4] == w[0] && ip[n-3] == w[1] && ip[n-2] == w[2] && ip[n-1] == w[3], what+": bytes unchanged")
		if n == 16 {
			verifAssert(ip[0] == 0 && ip[9] == 0 && ip[10] == 0xff && ip[11] == 0xff, what+": prefix unchanged")
		}
	}
	chk(addr, la, a, "SetAddress address")
	chk(mask, lm, m, "SetAddress mask")
	chk(gw, lg, g, "SetAddress gateway")
	verifReach("c17.setaddress")
}

func VerifC17_ActivateKeypadsArgs() {
	d := &vDriver{err: errVerifNoReply}
	u := vClient(d)
	readers, want := nondetBoolMap("readers")
	n := len(readers)
	u.ActivateKeypads(nondetSerial("id"), readers)
	verifAssert(len(readers) == n, "ActivateKeypads: the map keeps its entries")
	for k := 1; k <= 5; k++ {
		verifAssert(readers[uint8(k)] == want[k], "ActivateKeypads: the map is not modified")
	}
	verifReach("c17.activatekeypads")
}

// (3) results do not change when the network buffer is reused
func VerifC17_GetDeviceResult() {
	verifZone(1)
	d, u, id, r := c02Reply(0x94)
	verifAssume(specNibblesOK(r[28:32]))
	var ip, mask, gw [4]byte
	var mac [6]byte
	copy(ip[:], r[8:12])
	copy(mask[:], r[12:16])
	copy(gw[:], r[16:20])
	copy(mac[:], r[20:26])
	dev, err := u.GetDevice(id)
	verifAssume(err == nil && dev != nil)
	date := time.Time(dev.Date)
	y, mo, dd, zero := date.Year(), date.Month(), date.Day(), dev.Date.IsZero()
	version := dev.Version
	verifHavoc(&r)
	verifHavoc(&d.req)
	i4, m4, g4 := dev.IpAddress.To4(), dev.SubnetMask.To4(), dev.Gateway.To4()
	verifAssert(i4 != nil && i4[0] == ip[0] && i4[1] == ip[1] && i4[2] == ip[2] && i4[3] == ip[3], "GetDevice: IP address is not affected by reuse of the buffer")
	verifAssert(m4 != nil && m4[0] == mask[0] && m4[1] == mask[1] && m4[2] == mask[2] && m4[3] == mask[3], "GetDevice: subnet mask is not affected by reuse of the buffer")
	verifAssert(g4 != nil && g4[0] == gw[0] && g4[1] == gw[1] && g4[2] == gw[2] && g4[3] == gw[3], "GetDevice: gateway is not affected by reuse of the buffer")
	verifAssert(len(dev.MacAddress) == 6, "GetDevice: MAC length")
	if len(dev.MacAddress) == 6 {
		verifAssertEqBytes([]byte(dev.MacAddress), mac[:], "GetDevice: MAC is not affected by reuse of the buffer")
	}
	date2 := time.Time(dev.Date)
	verifAssert(dev.Version == version && date2.Year() == y && date2.Month() == mo && date2.Day() == dd && dev.Date.IsZero() == zero, "GetDevice: version and date are not affected by reuse of the buffer")
	a := dev.Address.Addr().As4()
	verifAssert(a[0] == ip[0] && a[1] == ip[1] && a[2] == ip[2] && a[3] == ip[3], "GetDevice: address is not affected by reuse of the buffer")
	verifReach("c17.getdevice")
}

func VerifC17_GetCardResult() {
	verifZone(1)
	d, u, id, r := c02Reply(0x5c)
	verifAssume(specNibblesOK(r[12:20]))
	var doors [4]byte
	copy(doors[:], r[20:24])
	number := specGet32(r, 8)
	pin := uint32(r[24]) | uint32(r[25])<<8 | uint32(r[26])<<16
	card, err := u.GetCardByIndex(id, 7)
	verifAssume(err == nil && card != nil)
	from := time.Time(card.From)
	fy, fm, fd := from.Year(), from.Month(), from.Day()
	verifHavoc(&r)
	verifHavoc(&d.req)
	verifAssert(card.CardNumber == number && uint32(card.PIN) == pin, "GetCardByIndex: scalars are not affected by reuse of the buffer")
	verifAssert(card.Doors[1] == doors[0] && card.Doors[2] == doors[1] && card.Doors[3] == doors[2] && card.Doors[4] == doors[3], "GetCardByIndex: door map is not affected by reuse of the buffer")
	from2 := time.Time(card.From)
	verifAssert(from2.Year() == fy && from2.Month() == fm && from2.Day() == fd, "GetCardByIndex: dates are not affected by reuse of the buffer")
	verifReach("c17.getcard")
}

func VerifC17_GetListenerResult() {
	d, u, id, r := c02Reply(0x92)
	var ip [4]byte
	copy(ip[:], r[8:12])
	port := specGet16(r, 12)
	addr, _, err := u.GetListener(id)
	verifAssume(err == nil)
	verifHavoc(&r)
	verifHavoc(&d.req)
	a := addr.Addr().As4()
	verifAssert(a[0] == ip[0] && a[1] == ip[1] && a[2] == ip[2] && a[3] == ip[3] && addr.Port() == port, "GetListener: address is not affected by reuse of the buffer")
	verifReach("c17.getlistener")
}

// (4) clones are equal and share no mutable storage
func VerifC17_DeviceClone() {
	id := nondetU32("id")
	doors := []string{"Gryffindor", "Hufflepuff", "Ravenclaw"}
	dev := Device{Name: "alpha", DeviceID: id, Address: types.ControllerAddrFrom(netip.AddrFrom4([4]byte{192, 168, 1, 100}), nondetU16("port")), Doors: doors, TimeZone: time.Local, Protocol: "udp"}
	port := dev.Address.Port()
	c := dev.Clone()
	verifAssert(c.Name == dev.Name && c.DeviceID == dev.DeviceID && c.Address == dev.Address && c.Protocol == dev.Protocol && c.TimeZone == dev.TimeZone, "Device.Clone: equal scalars")
	verifAssert(len(c.Doors) == 3 && c.Doors[0] == "Gryffindor" && c.Doors[1] == "Hufflepuff" && c.Doors[2] == "Ravenclaw", "Device.Clone: equal door names")
	verifHavoc(&dev)
	verifHavoc(&doors)
	verifAssert(c.Name == "alpha" && c.DeviceID == id && c.Address.Port() == port && c.Protocol == "udp", "Device.Clone: scalars independent of the original")
	verifAssert(len(c.Doors) == 3 && c.Doors[0] == "Gryffindor" && c.Doors[1] == "Hufflepuff" && c.Doors[2] == "Ravenclaw", "Device.Clone: door names share no storage with the original")
	verifReach("c17.deviceclone")
}

func VerifC17_CardClone() {
	verifZone(1)
	doors, want := nondetDoors("doors")
	card := types.Card{CardNumber: nondetU32("card"), From: types.ToDate(2024, time.January, 1), To: types.ToDate(2024, time.December, 31), Doors: doors, PIN: types.PIN(nondetU32("pin"))}
	number, pin := card.CardNumber, card.PIN
	c := card.Clone()
	verifAssert(c.CardNumber == number && c.PIN == pin && c.From.Equals(card.From) && c.To.Equals(card.To), "Card.Clone: equal scalars and dates")
	for k := 1; k <= 4; k++ {
		verifAssert(c.Doors[uint8(k)] == want[k], "Card.Clone: equal door permissions")
	}
	// writing into the clone does not reach the original (an empty door map included) ...
	for k := 1; k <= 4; k++ {
		c.Doors[uint8(k)] = want[k] + 1
	}
	for k := 1; k <= 4; k++ {
		verifAssert(card.Doors[uint8(k)] == want[k], "Card.Clone: writing into the clone's door map does not change the original")
		c.Doors[uint8(k)] = want[k]
	}
	// ... nor the other way round
	verifHavoc(&card)
	for k := 1; k <= 4; k++ {
		verifAssert(c.Doors[uint8(k)] == want[k], "Card.Clone: door map shares no storage with the original")
	}
	verifAssert(c.CardNumber == number && c.PIN == pin, "Card.Clone: scalars independent of the original")
	verifReach("c17.cardclone")
}
