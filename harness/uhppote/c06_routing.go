// verif:properties C06
package uhppote

// C06 - each request is sent once, to the right endpoint, over the right transport.
//
// Seam level: the device table, the controller's address/port/protocol and the broadcast address are
// symbolic; the assertion is which driver method is invoked, exactly once, with which endpoint.

import (
	"net/netip"

	"github.com/uhppoted/uhppote-core/types"
)

type c06Config struct {
	configured bool // the controller is in the device table
	addrValid  bool // its address is a valid IPv4 address
	ip         []byte
	port       uint16
	proto      string
	bcastValid bool
	bip        []byte
	bport      uint16
}

var c06Earlier bool
var c06EarlierSame bool

func c06Client(d *vDriver, id uint32, protoLen int) (*uhppote, c06Config) {
	cfg := c06Config{
		configured: nondetBool("configured"),
		addrValid:  nondetBool("addr.valid"),
		ip:         nondetBytes("addr.ip", 4),
		port:       nondetU16("addr.port"),
		proto:      nondetString("proto", protoLen),
		bcastValid: nondetBool("bcast.valid"),
		bip:        nondetBytes("bcast.ip", 4),
		bport:      nondetU16("bcast.port"),
	}
	if c06Earlier {
		// an earlier broadcast operation by another client of the same process that has its own broadcast
		// address configured: where this client's requests go must not depend on it
		other := &uhppote{devices: map[uint32]Device{}, driver: &vDriver{err: errVerifNoReply},
			broadcastAddr: types.BroadcastAddrFrom(netip.AddrFrom4([4]byte{nondetU8("earlier.a"), nondetU8("earlier.b"), 1, 255}), nondetU16("earlier.port"))}
		other.GetDevices()
		other.GetTime(nondetSerial("earlier.id"))
	}
	u := &uhppote{devices: map[uint32]Device{}, driver: d}
	// one unrelated controller (different serial number) is always configured
	other := nondetU32("other.id")
	verifAssume(other != id)
	u.devices[other] = Device{Name: "other", DeviceID: other, Address: types.ControllerAddrFrom(netip.AddrFrom4([4]byte{10, 1, 2, 3}), 54321), Protocol: "tcp"}
	if cfg.configured {
		dev := Device{Name: "alpha", DeviceID: id, Protocol: cfg.proto}
		if cfg.addrValid {
			dev.Address = types.ControllerAddrFrom(netip.AddrFrom4([4]byte{cfg.ip[0], cfg.ip[1], cfg.ip[2], cfg.ip[3]}), cfg.port)
		}
		u.devices[id] = dev
	}
	if cfg.bcastValid {
		u.broadcastAddr = types.BroadcastAddrFrom(netip.AddrFrom4([4]byte{cfg.bip[0], cfg.bip[1], cfg.bip[2], cfg.bip[3]}), cfg.bport)
	}
	if c06EarlierSame {
		// earlier calls on this client that mention other addresses and succeed: the controller is told to
		// take another IP address (it does not reply), the event listener address is set, a discovery runs -
		// where later requests go is still what was configured
		saved := *d
		d.err, d.reply = nil, nil
		u.SetAddress(id, []byte{nondetU8("newip.a"), nondetU8("newip.b"), nondetU8("newip.c"), nondetU8("newip.d")}, []byte{255, 255, 255, 0}, []byte{192, 168, 1, 1})
		u.GetDevices()
		*d = saved
	}
	return u, cfg
}

func c06Check(d *vDriver, cfg c06Config, what string) {
	verifObserve("method", d.method)
	verifObserve("ip", d.ip)
	verifObserve("port", d.port)
	verifAssert(d.calls == 1, what+": exactly one request leaves")
	zero := cfg.ip[0] == 0 && cfg.ip[1] == 0 && cfg.ip[2] == 0 && cfg.ip[3] == 0
	usable := cfg.configured && cfg.addrValid && cfg.port != 0 && !zero
	if !usable {
		verifAssert(d.method == "BroadcastTo", what+": a controller without a usable address is reached by broadcast")
		if cfg.bcastValid {
			verifAssert(specIPEq(d.ip, cfg.bip) && d.port == int(cfg.bport), what+": broadcast goes to the configured broadcast address")
		} else {
			verifAssert(specIPEq(d.ip, []byte{255, 255, 255, 255}) && d.port == 60000, what+": broadcast defaults to 255.255.255.255:60000")
		}
	} else {
		if cfg.proto == "tcp" {
			verifAssert(d.method == "SendTCP", what+": a controller configured as tcp is reached over TCP")
		} else {
			verifAssert(d.method == "SendUDP", what+": a configured controller is reached over connected UDP by default")
		}
		verifAssert(specIPEq(d.ip, cfg.ip) && d.port == int(cfg.port), what+": the request goes to the configured address and port")
	}
	verifAssert(d.zone == "", what+": no IPv6 zone")
	verifReach("c06." + what)
}

func c06GetTime(protoLen int) {
	d := &vDriver{err: errVerifNoReply}
	id := nondetSerial("id")
	u, cfg := c06Client(d, id, protoLen)
	u.GetTime(id)
	c06Check(d, cfg, "GetTime")
}

func VerifC06_GetTimeProto0() { c06GetTime(0) }
func VerifC06_GetTimeProto3() { c06GetTime(3) }
func VerifC06_GetTimeProto4() { c06GetTime(4) }

func VerifC06_T_GetTimeProto1() { c06GetTime(1) }
func VerifC06_T_GetTimeProto2() { c06GetTime(2) }

func VerifC06_OpenDoor() {
	d := &vDriver{err: errVerifNoReply}
	id := nondetSerial("id")
	u, cfg := c06Client(d, id, 3)
	u.OpenDoor(id, nondetU8("door"))
	c06Check(d, cfg, "OpenDoor")
}

func VerifC06_SetAddress() {
	d := &vDriver{}
	id := nondetSerial("id")
	u, cfg := c06Client(d, id, 3)
	u.SetAddress(id, []byte{192, 168, 1, 100}, []byte{255, 255, 255, 0}, []byte{192, 168, 1, 1})
	c06Check(d, cfg, "SetAddress")
}

// discovery always broadcasts, to the configured broadcast address or the default
func VerifC06_GetDevices() {
	d := &vDriver{err: errVerifNoReply}
	u, cfg := c06Client(d, 405419896, 3)
	u.GetDevices()
	verifAssert(d.calls == 1 && d.method == "Broadcast", "GetDevices: discovery is exactly one broadcast")
	if cfg.bcastValid {
		verifAssert(specIPEq(d.ip, cfg.bip) && d.port == int(cfg.bport), "GetDevices: broadcast goes to the configured broadcast address")
	} else {
		verifAssert(specIPEq(d.ip, []byte{255, 255, 255, 255}) && d.port == 60000, "GetDevices: broadcast defaults to 255.255.255.255:60000")
	}
	verifReach("c06.GetDevices")
}

// the same after an earlier broadcast by another client with its own broadcast address (no state is shared)
func VerifC06_AfterOtherClient() {
	c06Earlier = true
	defer func() { c06Earlier = false }()
	c06GetTime(3)
}

// the same after earlier successful calls on the same client (set-ip with another address, discovery): the
// configured endpoint is not rewritten
func VerifC06_AfterSetAddress() {
	c06EarlierSame = true
	defer func() { c06EarlierSame = false }()
	c06GetTime(3)
}

func VerifC06_DiscoveryAfterOtherClient() {
	c06Earlier = true
	defer func() { c06Earlier = false }()
	VerifC06_GetDevices()
}

// every operation is routed the same way: sendto is instantiated per reply type
func VerifC06_AllOps() {
	ops := vOps()
	op := ops[nondetEnum("op", len(ops))]
	d := &vDriver{err: errVerifNoReply}
	id := nondetSerial("id")
	u, cfg := c06Client(d, id, 3)
	op.call(u, id)
	c06Check(d, cfg, op.name)
}
