package uhppote

// Shared harness support for package uhppote: an in-memory transport driver that records every call
// and plays scripted replies, plus the protocol-table helpers the oracles are written with.  No code is
// shared with the repository's codec: offsets, widths and encodings are written out from the protocol
// description (DESIGN.md appendix A).

import (
	"errors"
	"net"
	"net/netip"
	"time"

	"github.com/uhppoted/uhppote-core/types"
)

var errVerifNoReply = errors.New("verif: no reply")
var errVerifTimeout = errors.New("verif: i/o timeout")

type vDriver struct {
	calls    int
	method   string // "Broadcast" | "BroadcastTo" | "SendUDP" | "SendTCP" | "Listen"
	req      []byte
	ip       []byte
	port     int
	zone     string
	reply    []byte    // SendUDP / SendTCP reply (nil with nil error = no reply expected)
	err      error     // error returned instead of a reply
	seq      [][]byte  // BroadcastTo: datagrams arriving in order
	consumed int       // BroadcastTo: index of the accepted datagram, -1 if none
	replies  [][]byte  // Broadcast: collected datagrams
	events   [][]byte  // Listen: datagrams fed to the handler
	lstErr   error     // Listen: error returned by the driver
	async    bool      // Listen: deliver from a goroutine through one reused receive buffer, like the real driver
	settle   func(int) // Listen (async): called after the handler has returned for datagram i
}

func (d *vDriver) record(method string, ip net.IP, port int, zone string, req []byte) {
	d.calls++
	d.method = method
	d.req = append([]byte{}, req...)
	d.ip = append([]byte{}, ip...)
	d.port = port
	d.zone = zone
}

func (d *vDriver) Broadcast(addr *net.UDPAddr, req []byte) ([][]byte, error) {
	d.record("Broadcast", addr.IP, addr.Port, addr.Zone, req)
	if d.err != nil {
		return nil, d.err
	}
	return d.replies, nil
}

func (d *vDriver) BroadcastTo(addr *net.UDPAddr, req []byte, accept func([]byte) bool) ([]byte, error) {
	d.record("BroadcastTo", addr.IP, addr.Port, addr.Zone, req)
	d.consumed = -1
	if d.err != nil {
		return nil, d.err
	}
	if len(req) > 1 && req[1] == 0x96 {
		return nil, nil
	}
	for i, m := range d.seq {
		if accept(m) {
			d.consumed = i
			return m, nil
		}
	}
	return nil, errVerifTimeout
}

func (d *vDriver) SendUDP(addr *net.UDPAddr, req []byte) ([]byte, error) {
	d.record("SendUDP", addr.IP, addr.Port, addr.Zone, req)
	if d.err != nil {
		return nil, d.err
	}
	if len(req) > 1 && req[1] == 0x96 {
		return nil, nil
	}
	return d.reply, nil
}

func (d *vDriver) SendTCP(addr *net.TCPAddr, req []byte) ([]byte, error) {
	d.record("SendTCP", addr.IP, addr.Port, addr.Zone, req)
	if d.err != nil {
		return nil, d.err
	}
	if len(req) > 1 && req[1] == 0x96 {
		return nil, nil
	}
	return d.reply, nil
}

func (d *vDriver) Listen(signal chan any, done chan any, handler func([]byte)) error {
	d.calls++
	d.method = "Listen"
	if d.lstErr != nil {
		return d.lstErr
	}
	if d.async {
		go func() {
			buf := make([]byte, 2048)
			for i, m := range d.events {
				if len(m) == 64 {
					copy(buf[:64], m[:64]) // every datagram arrives in the same buffer
					handler(buf[:64])
				} else {
					handler(m)
				}
				if d.settle != nil {
					d.settle(i)
				}
			}
			<-signal
			close(done)
		}()
		return nil
	}
	for _, m := range d.events {
		handler(m)
	}
	close(done)
	return nil
}

// client not configured with any controller: every directed request is broadcast-to
func vClient(d *vDriver) *uhppote {
	// (debug printing on or off: it must not change what is sent or returned)
	return &uhppote{devices: map[uint32]Device{}, driver: d, debug: nondetBool("client.debug")}
}

// vConfigure: the controller is in the device table (directed route) with a configured time zone that is nil,
// UTC or the process zone - what is sent and what is returned must not depend on it
func vConfigure(u *uhppote, id uint32, proto string) {
	var tz *time.Location
	switch nondetEnum("device.timezone", 3) {
	case 1:
		tz = time.UTC
	case 2:
		tz = time.Local
	}
	u.devices[id] = Device{Name: "alpha", DeviceID: id, Address: types.ControllerAddrFrom(netip.AddrFrom4([4]byte{192, 168, 1, 100}), 60000), Protocol: proto, TimeZone: tz}
}

// ---------------------------------------------------------------- protocol table helpers

func specReq(fn byte, serial uint32) []byte {
	b := make([]byte, 64)
	b[0] = 0x17
	b[1] = fn
	specPut32(b, 4, serial)
	return b
}

func specPut32(b []byte, off int, v uint32) {
	b[off] = byte(v)
	b[off+1] = byte(v >> 8)
	b[off+2] = byte(v >> 16)
	b[off+3] = byte(v >> 24)
}

func specPut16(b []byte, off int, v uint16) {
	b[off] = byte(v)
	b[off+1] = byte(v >> 8)
}

func specPutBool(b []byte, off int, v bool) {
	if v {
		b[off] = 1
	} else {
		b[off] = 0
	}
}

func specMagic(b []byte, off int) {
	b[off], b[off+1], b[off+2], b[off+3] = 0x55, 0xaa, 0xaa, 0x55
}

func specGet32(b []byte, off int) uint32 {
	return uint32(b[off]) | uint32(b[off+1])<<8 | uint32(b[off+2])<<16 | uint32(b[off+3])<<24
}

func specGet16(b []byte, off int) uint16 {
	return uint16(b[off]) | uint16(b[off+1])<<8
}

// ---------------------------------------------------------------- symbolic argument builders

// vDate: a date argument together with its protocol encoding (BCD YYYYMMDD; 00 00 00 00 for the zero date).
type vDate struct {
	date    types.Date
	bcd     [4]byte
	zero    bool
	y, m, d int
}

// nondetDate: the zero 'no date' value or any valid calendar date 0001-01-02 .. 9999-12-31, built from its
// eight decimal digits so that the oracle needs no division.
func nondetDate(tag string) vDate {
	if nondetBool(tag + ".zero") {
		return vDate{zero: true}
	}
	return nondetValidDate(tag)
}

func nondetValidDate(tag string) vDate {
	dg := nondetBytes(tag+".digits", 8)
	for i := 0; i < 8; i++ {
		verifAssume(dg[i] <= 9)
	}
	y := int(dg[0])*1000 + int(dg[1])*100 + int(dg[2])*10 + int(dg[3])
	m := int(dg[4])*10 + int(dg[5])
	d := int(dg[6])*10 + int(dg[7])
	verifAssume(y >= 1 && verifValidDate(y, m, d))
	verifAssume(!(y == 1 && m == 1 && d == 1))
	return vDate{
		date: types.ToDate(y, time.Month(m), d),
		bcd:  [4]byte{dg[0]<<4 | dg[1], dg[2]<<4 | dg[3], dg[4]<<4 | dg[5], dg[6]<<4 | dg[7]},
		y:    y, m: m, d: d,
	}
}

// vHHmm: an HH:mm argument 00:00..24:00 with its BCD encoding.
type vHHmm struct {
	t    types.HHmm
	bcd  [2]byte
	h, m int
}

func nondetHHmm(tag string) vHHmm {
	dg := nondetBytes(tag+".digits", 4)
	for i := 0; i < 4; i++ {
		verifAssume(dg[i] <= 9)
	}
	h := int(dg[0])*10 + int(dg[1])
	m := int(dg[2])*10 + int(dg[3])
	verifAssume(h <= 24 && m <= 59 && (h < 24 || m == 0))
	return vHHmm{t: types.NewHHmm(h, m), bcd: [2]byte{dg[0]<<4 | dg[1], dg[2]<<4 | dg[3]}, h: h, m: m}
}

func keyTag(tag string, k int) string { return tag + "." + string(rune('0'+k)) }

// nondetDoors: nil map, or a map over keys 1..5 with symbolic presence and values; want[k] is the
// value a lookup yields (0 when absent).
func nondetDoors(tag string) (map[uint8]uint8, [6]uint8) {
	var want [6]uint8
	if nondetBool(tag + ".nil") {
		return nil, want
	}
	m := map[uint8]uint8{}
	for k := 1; k <= 5; k++ {
		v := nondetU8(keyTag(tag, k))
		if nondetBool(keyTag(tag+".has", k)) {
			m[uint8(k)] = v
			want[k] = v
		}
	}
	return m, want
}

func nondetBoolMap(tag string) (map[uint8]bool, [6]bool) {
	var want [6]bool
	if nondetBool(tag + ".nil") {
		return nil, want
	}
	m := map[uint8]bool{}
	for k := 1; k <= 5; k++ {
		v := nondetBool(keyTag(tag, k))
		if nondetBool(keyTag(tag+".has", k)) {
			m[uint8(k)] = v
			want[k] = v
		}
	}
	return m, want
}

// nondetWeekdays: nil or a map over the seven weekdays with symbolic presence; want indexed by time.Weekday.
func nondetWeekdays(tag string) (types.Weekdays, [7]bool) {
	var want [7]bool
	if nondetBool(tag + ".nil") {
		return nil, want
	}
	m := types.Weekdays{}
	for k := 0; k < 7; k++ {
		v := nondetBool(keyTag(tag, k))
		if nondetBool(keyTag(tag+".has", k)) {
			m[time.Weekday(k)] = v
			want[k] = v
		}
	}
	return m, want
}

func nondetSerial(tag string) uint32 {
	s := nondetU32(tag)
	verifAssume(s != 0)
	return s
}

func nondetIPv4(tag string) (net.IP, [4]byte) {
	b := nondetBytes(tag, 4)
	want := [4]byte{b[0], b[1], b[2], b[3]}
	if nondetBool(tag + ".v4in6") {
		return net.IPv4(b[0], b[1], b[2], b[3]), want // 16-byte form
	}
	return net.IP(b), want
}

func specIPEq(got []byte, want []byte) bool {
	// the destination may be given in the 4-byte or the 16-byte (IPv4-mapped) form
	if len(got) == 4 {
		return got[0] == want[0] && got[1] == want[1] && got[2] == want[2] && got[3] == want[3]
	}
	if len(got) == 16 {
		for i := 0; i < 10; i++ {
			if got[i] != 0 {
				return false
			}
		}
		return got[10] == 0xff && got[11] == 0xff && got[12] == want[0] && got[13] == want[1] && got[14] == want[2] && got[15] == want[3]
	}
	return false
}
