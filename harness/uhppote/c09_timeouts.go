// verif:properties C09 C01 C06
package uhppote

import (
	"net"
	"net/netip"
	"time"
)

// C09 - every call ends within its timeout and releases its socket and goroutines.
//
// Socket level: the real ut0311 methods run over the engine's socket script and deterministic clock (time
// advances only by waiting); natively the same harness runs against a loopback peer that plays the script
// with real sockets and the wall clock.  Arrival instants keep a margin from the deadline so that the native
// replay does not depend on scheduling noise; the returns-in-time assertion allows the same slack.

const (
	c09Timeout = 600 * time.Millisecond
	c09Slack   = 400 * time.Millisecond
	c09Margin  = 150 * time.Millisecond
)

type c09Env struct {
	u   *ut0311
	t0  int64
	dgs [][]byte
	arr []int64 // arrival instants relative to the start of the call
}

func c09Setup(k int, faults bool) *c09Env {
	env := &c09Env{}
	for i := 0; i < k; i++ {
		env.dgs = append(env.dgs, nondetBuffer(keyTag("dg", i), 96))
	}
	env.t0 = verifClock()
	verifNetFaults(faults)
	verifNetScript(env.dgs)
	for i := 0; i < k; i++ {
		a := verifNetArrival(i) - env.t0
		// keep clear of the deadline (scheduling slack), and bounded so that a native replay is short
		verifAssume(a >= int64(10*time.Millisecond) && a <= int64(3*c09Timeout))
		verifAssume(a <= int64(c09Timeout-c09Margin) || a >= int64(c09Timeout+c09Margin))
		if i > 0 {
			verifAssume(a >= env.arr[i-1]+int64(20*time.Millisecond))
		}
		env.arr = append(env.arr, a)
	}
	env.u = &ut0311{bindAddr: netip.AddrPort{}, timeout: c09Timeout, debug: nondetBool("driver.debug")}
	return env
}

func c09Request(fn byte) []byte {
	req := make([]byte, 64)
	req[0], req[1] = 0x17, fn
	req[4], req[5], req[6], req[7] = 0x78, 0x56, 0x34, 0x12
	return req
}

func c09SameBytes(a, b []byte) bool {
	if len(a) != len(b) {
		return false
	}
	for i := range a {
		if a[i] != b[i] {
			return false
		}
	}
	return true
}

// c09Done: the assertions every call must satisfy when it returns.
func c09Done(env *c09Env, what string) {
	elapsed := verifClock() - env.t0
	verifAssert(elapsed <= int64(c09Timeout+c09Slack), what+": returns within the timeout")
	verifAssert(verifSockOpen() == 0, what+": the socket it opened is closed when it returns")
	verifAssert(verifGoroutines() == 0, what+": no goroutine it started is left behind")
	verifAssert(c09GuardFree(), what+": the bind-port lock is released when it returns")
}

// c09GuardFree: the process-wide send lock (held while a fixed bind port is in use) is free.
func c09GuardFree() bool {
	if guard.TryLock() {
		guard.Unlock()
		return true
	}
	return false
}

func c09Directed(k int, tcp bool, what string) {
	env := c09Setup(k, false)
	req := c09Request(0x20)
	var reply []byte
	var err error
	if tcp && k > 0 {
		verifAssume(len(env.dgs[0]) >= 1) // a TCP peer cannot send an empty chunk
	}
	if tcp {
		verifNetConnectMax(int64(5 * time.Millisecond))
		reply, err = env.u.SendTCP(&net.TCPAddr{IP: net.IPv4(127, 0, 0, 1), Port: verifPeerPort()}, req)
	} else {
		reply, err = env.u.SendUDP(&net.UDPAddr{IP: net.IPv4(127, 0, 0, 1), Port: verifPeerPort()}, req)
	}
	c09Done(env, what)
	verifObserve("err", err != nil)
	if k > 0 && env.arr[0] <= int64(c09Timeout-c09Margin) {
		verifAssert(err == nil && c09SameBytes(reply, env.dgs[0]), what+": a reply that arrives before the deadline is accepted")
	} else {
		verifAssert(err != nil, what+": no reply before the deadline is an error")
	}
	verifAssert(verifPeerRequests() == 1 && verifNetStray() == 0, what+": exactly one request reaches the controller, nothing goes anywhere else")
	verifReach("c09." + what)
}

func VerifC09_SendUDPSilence() { c09Directed(0, false, "SendUDP") }
func VerifC09_SendUDPReply()   { c09Directed(1, false, "SendUDP") }
func VerifC09_SendTCPStall()   { c09Directed(0, true, "SendTCP") }
func VerifC09_SendTCPReply()   { c09Directed(1, true, "SendTCP") }

// C01 / C06: one call, one request on the wire - whenever the reply comes, or if none comes (no retransmission)
func VerifC01_OneRequestOnTheWireUDP()       { c09Directed(1, false, "SendUDP") }
func VerifC01_OneRequestOnTheWireBroadcast() { c09BroadcastTo(1) }
func VerifC06_OneRequestOnTheWireUDP()       { c09Directed(1, false, "SendUDP") }
func VerifC06_OneRequestOnTheWireBroadcast() { c09BroadcastTo(1) }

// the broadcast path: stray datagrams are skipped until the deadline, which they never extend
func c09Accept(b []byte) bool { return len(b) == 64 && b[0] == 0x17 }

func c09BroadcastTo(k int) {
	env := c09Setup(k, false)
	req := c09Request(0x20)
	reply, err := env.u.BroadcastTo(&net.UDPAddr{IP: net.IPv4(127, 0, 0, 1), Port: verifPeerPort()}, req, c09Accept)
	c09Done(env, "BroadcastTo")
	verifObserve("err", err != nil)
	first := -1
	for i := k - 1; i >= 0; i-- {
		if c09Accept(env.dgs[i]) {
			first = i
		}
	}
	if first >= 0 && env.arr[first] <= int64(c09Timeout-c09Margin) {
		verifAssert(err == nil && c09SameBytes(reply, env.dgs[first]), "BroadcastTo: the first acceptable reply that arrives before the deadline is returned, whatever stray datagrams precede it")
	} else {
		verifAssert(err != nil, "BroadcastTo: no acceptable reply before the deadline is an error")
	}
	verifAssert(verifPeerRequests() == 1 && verifNetStray() == 0, "BroadcastTo: exactly one request leaves, nothing goes anywhere else")
	verifReach("c09.BroadcastTo")
}

func VerifC09_BroadcastToSilence() { c09BroadcastTo(0) }
func VerifC09_BroadcastTo1()       { c09BroadcastTo(1) }
func VerifC09_BroadcastTo2()       { c09BroadcastTo(2) }
func VerifC09_T_BroadcastTo3()     { c09BroadcastTo(3) }

// discovery: sleeps for exactly the timeout, returns what arrived, ends its collector goroutine
func c09Broadcast(k int) {
	env := c09Setup(k, false)
	req := c09Request(0x94)
	replies, err := env.u.Broadcast(&net.UDPAddr{IP: net.IPv4(127, 0, 0, 1), Port: verifPeerPort()}, req)
	elapsed := verifClock() - env.t0
	verifAssert(elapsed >= int64(c09Timeout) && elapsed <= int64(c09Timeout+c09Slack), "Broadcast: collects replies for the timeout, no less and no more")
	verifAssert(verifSockOpen() == 0, "Broadcast: the socket it opened is closed when it returns")
	verifAssert(verifGoroutines() == 0, "Broadcast: the collector goroutine ends when the call returns")
	verifAssert(err == nil, "Broadcast: silence or any replies are not an error")
	want := 0
	for i := 0; i < k; i++ {
		if env.arr[i] <= int64(c09Timeout-c09Margin) {
			want++
		}
	}
	verifAssert(len(replies) >= want, "Broadcast: every datagram that arrives within the timeout is collected")
	verifReach("c09.Broadcast")
}

func VerifC09_BroadcastSilence() { c09Broadcast(0) }
func VerifC09_Broadcast2()       { c09Broadcast(2) }

// faults: a socket that cannot be opened, a write or a connect that fails - an error, nothing left open
func c09Faults(route int, bindPort bool) {
	env := c09Setup(0, true)
	if bindPort {
		// a fixed bind port: the call holds the process-wide send lock while it uses the port
		p := nondetU16("bind.port")
		verifAssume(p >= 20000 && p < 30000)
		env.u.bindAddr = netip.AddrPortFrom(netip.AddrFrom4([4]byte{127, 0, 0, 1}), p)
	}
	req := c09Request(0x20)
	addr := &net.UDPAddr{IP: net.IPv4(127, 0, 0, 1), Port: verifPeerPort()}
	var err error
	switch route {
	case 0:
		_, err = env.u.SendUDP(addr, req)
	case 1:
		verifNetConnectMax(int64(5 * time.Millisecond)) // slow connects: VerifC09_SendTCPSlowConnect
		_, err = env.u.SendTCP(&net.TCPAddr{IP: addr.IP, Port: verifDialTarget()}, req)
	case 2:
		_, err = env.u.BroadcastTo(addr, req, c09Accept)
	}
	c09Done(env, "faults")
	verifAssert(err != nil, "faults: with no reply the call fails, whatever else goes wrong")
	verifReach("c09.faults")
}

func VerifC09_FaultsUDP()              { c09Faults(0, false) }
func VerifC09_FaultsTCP()              { c09Faults(1, false) }
func VerifC09_FaultsBroadcastTo()      { c09Faults(2, false) }
func VerifC09_FaultsUDPBound()         { c09Faults(0, true) }
func VerifC09_FaultsTCPBound()         { c09Faults(1, true) }
func VerifC09_FaultsBroadcastToBound() { c09Faults(2, true) }

// a TCP controller that is slow to accept the connection and then never answers: the whole call - connect
// included - is bounded by one timeout (timeout 2 s here: natively the connect completes with the kernel's
// SYN retransmission after one second)
func VerifC09_SendTCPSlowConnect() {
	const timeout = 2 * time.Second
	t0 := verifClock()
	verifNetFaults(false)
	verifNetScript(nil)
	verifNetConnectRange(int64(900*time.Millisecond), int64(1300*time.Millisecond))
	u := &ut0311{bindAddr: netip.AddrPort{}, timeout: timeout}
	_, err := u.SendTCP(&net.TCPAddr{IP: net.IPv4(127, 0, 0, 1), Port: verifSlowDialTarget()}, c09Request(0x20))
	elapsed := verifClock() - t0
	verifAssert(err != nil, "SendTCP: a peer that accepts late and never answers is an error")
	verifAssert(elapsed <= int64(timeout+c09Slack), "SendTCP: the connect and the wait for the reply share one timeout")
	verifAssert(verifSockOpen() == 0, "SendTCP: the socket it opened is closed when it returns")
	verifReach("c09.tcp.slowconnect")
}
