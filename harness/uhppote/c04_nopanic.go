// verif:properties C04
package uhppote

// C04 - nothing the network or the caller supplies can crash the library.
//
// Every runtime panic (index, slice bounds, nil dereference, nil-map write, failed type assertion,
// division by zero, explicit panic) is a solver obligation in the engine; these harnesses only have to
// drive the code with arbitrary inputs: any byte string of length 0..2048 as the reply on each route,
// then String() and JSON rendering of whatever came back.

import (
	"encoding/json"
	"fmt"
	"net/netip"
	"os"
	"reflect"
	"time"

	"github.com/uhppoted/uhppote-core/types"
)

// c04Render: the value, and each of its exported fields that has a String method, can be rendered with
// String() and with JSON encoding.
func c04Render(v any) {
	if v == nil {
		return
	}
	if s, ok := v.(fmt.Stringer); ok {
		_ = s.String()
	}
	json.Marshal(v)
	rv := reflect.Indirect(reflect.ValueOf(v))
	if rv.Kind() == reflect.Struct {
		for i := 0; i < rv.NumField(); i++ {
			f := rv.Field(i)
			if !f.CanInterface() {
				continue
			}
			if s, ok := f.Interface().(fmt.Stringer); ok {
				if f.Kind() == reflect.Ptr && f.IsNil() {
					continue
				}
				_ = s.String()
			}
		}
	}
}

type c04Op struct {
	name string
	call func(u *uhppote, id uint32) any
}

func c04Ops() []c04Op {
	date1, date2 := types.ToDate(2024, time.January, 1), types.ToDate(2024, time.December, 31)
	seg := types.Segment{Start: types.NewHHmm(8, 30), End: types.NewHHmm(17, 0)}
	return []c04Op{
		{"GetDevice", func(u *uhppote, id uint32) any {
			if r, err := u.GetDevice(id); err == nil && r != nil {
				return r
			}
			return nil
		}},
		{"GetListener", func(u *uhppote, id uint32) any {
			// the result is a standard-library value (netip.AddrPort): rendering it is not the library's code
			u.GetListener(id)
			return nil
		}},
		{"SetListener", func(u *uhppote, id uint32) any {
			u.SetListener(id, netip.AddrPortFrom(netip.AddrFrom4([4]byte{192, 168, 1, 100}), 60001), 13)
			return nil
		}},
		{"GetTime", func(u *uhppote, id uint32) any {
			if r, err := u.GetTime(id); err == nil && r != nil {
				return r
			}
			return nil
		}},
		{"SetTime", func(u *uhppote, id uint32) any {
			if r, err := u.SetTime(id, time.Date(2024, time.February, 29, 12, 34, 56, 0, time.Local)); err == nil && r != nil {
				return r
			}
			return nil
		}},
		{"GetDoorControlState", func(u *uhppote, id uint32) any {
			if r, err := u.GetDoorControlState(id, 3); err == nil && r != nil {
				return r
			}
			return nil
		}},
		{"SetDoorControlState", func(u *uhppote, id uint32) any {
			if r, err := u.SetDoorControlState(id, 3, types.Controlled, 7); err == nil && r != nil {
				return r
			}
			return nil
		}},
		{"GetStatus", func(u *uhppote, id uint32) any {
			if r, err := u.GetStatus(id); err == nil && r != nil {
				return r
			}
			return nil
		}},
		{"GetCards", func(u *uhppote, id uint32) any { u.GetCards(id); return nil }},
		{"GetCardByIndex", func(u *uhppote, id uint32) any {
			if r, err := u.GetCardByIndex(id, 17); err == nil && r != nil {
				return r
			}
			return nil
		}},
		{"GetCardByID", func(u *uhppote, id uint32) any {
			if r, err := u.GetCardByID(id, 8165538); err == nil && r != nil {
				return r
			}
			return nil
		}},
		{"PutCard", func(u *uhppote, id uint32) any {
			u.PutCard(id, types.Card{CardNumber: 8165538, From: date1, To: date2, Doors: map[uint8]uint8{1: 1}})
			return nil
		}},
		{"DeleteCard", func(u *uhppote, id uint32) any { u.DeleteCard(id, 8165538); return nil }},
		{"DeleteCards", func(u *uhppote, id uint32) any { u.DeleteCards(id); return nil }},
		{"GetTimeProfile", func(u *uhppote, id uint32) any {
			if r, err := u.GetTimeProfile(id, 29); err == nil && r != nil {
				return r
			}
			return nil
		}},
		{"SetTimeProfile", func(u *uhppote, id uint32) any {
			u.SetTimeProfile(id, types.TimeProfile{ID: 29, From: date1, To: date2, Segments: types.Segments{1: seg, 2: seg, 3: seg}})
			return nil
		}},
		{"ClearTimeProfiles", func(u *uhppote, id uint32) any { u.ClearTimeProfiles(id); return nil }},
		{"ClearTaskList", func(u *uhppote, id uint32) any { u.ClearTaskList(id); return nil }},
		{"AddTask", func(u *uhppote, id uint32) any {
			u.AddTask(id, types.Task{Task: types.DoorNormallyOpen, Door: 3, From: date1, To: date2, Start: types.NewHHmm(8, 30)})
			return nil
		}},
		{"RefreshTaskList", func(u *uhppote, id uint32) any { u.RefreshTaskList(id); return nil }},
		{"RecordSpecialEvents", func(u *uhppote, id uint32) any { u.RecordSpecialEvents(id, true); return nil }},
		{"GetEvent", func(u *uhppote, id uint32) any {
			if r, err := u.GetEvent(id, 37); err == nil && r != nil {
				return r
			}
			return nil
		}},
		{"GetEventIndex", func(u *uhppote, id uint32) any {
			if r, err := u.GetEventIndex(id); err == nil && r != nil {
				return r
			}
			return nil
		}},
		{"SetEventIndex", func(u *uhppote, id uint32) any {
			if r, err := u.SetEventIndex(id, 37); err == nil && r != nil {
				return r
			}
			return nil
		}},
		{"OpenDoor", func(u *uhppote, id uint32) any {
			if r, err := u.OpenDoor(id, 3); err == nil && r != nil {
				return r
			}
			return nil
		}},
		{"SetPCControl", func(u *uhppote, id uint32) any { u.SetPCControl(id, true); return nil }},
		{"SetInterlock", func(u *uhppote, id uint32) any { u.SetInterlock(id, types.Interlock12); return nil }},
		{"ActivateKeypads", func(u *uhppote, id uint32) any { u.ActivateKeypads(id, map[uint8]bool{1: true}); return nil }},
		{"RestoreDefaultParameters", func(u *uhppote, id uint32) any { u.RestoreDefaultParameters(id); return nil }},
		{"SetDoorPasscodes", func(u *uhppote, id uint32) any { u.SetDoorPasscodes(id, 2, 12345); return nil }},
	}
}

func c04Reply(name string) {
	verifZone(1)
	for _, op := range c04Ops() {
		if op.name != name {
			continue
		}
		id := nondetSerial("id")
		reply := nondetBuffer("reply", 2048)
		var d *vDriver
		u := vClient(nil)
		switch nondetEnum("route", 4) {
		case 0: // broadcast route: the datagram goes through the receive filter
			d = &vDriver{seq: [][]byte{reply}}
		case 1: // directed UDP
			d = &vDriver{reply: reply}
			vConfigure(u, id, "udp")
		case 2: // directed TCP, nil reply without an error
			d = &vDriver{}
			vConfigure(u, id, "tcp")
		default: // transport error
			d = &vDriver{err: errVerifTimeout}
		}
		u.driver = d
		res := op.call(u, id)
		verifOpaqueNumbers(true)
		c04Render(res)
		verifOpaqueNumbers(false)
		verifReach("c04." + name)
	}
}

func VerifC04_GetDevice()                { c04Reply("GetDevice") }
func VerifC04_GetListener()              { c04Reply("GetListener") }
func VerifC04_SetListener()              { c04Reply("SetListener") }
func VerifC04_GetTime()                  { c04Reply("GetTime") }
func VerifC04_SetTime()                  { c04Reply("SetTime") }
func VerifC04_GetDoorControlState()      { c04Reply("GetDoorControlState") }
func VerifC04_SetDoorControlState()      { c04Reply("SetDoorControlState") }
func VerifC04_GetStatus()                { c04Reply("GetStatus") }
func VerifC04_GetCards()                 { c04Reply("GetCards") }
func VerifC04_GetCardByIndex()           { c04Reply("GetCardByIndex") }
func VerifC04_GetCardByID()              { c04Reply("GetCardByID") }
func VerifC04_PutCard()                  { c04Reply("PutCard") }
func VerifC04_DeleteCard()               { c04Reply("DeleteCard") }
func VerifC04_DeleteCards()              { c04Reply("DeleteCards") }
func VerifC04_GetTimeProfile()           { c04Reply("GetTimeProfile") }
func VerifC04_SetTimeProfile()           { c04Reply("SetTimeProfile") }
func VerifC04_ClearTimeProfiles()        { c04Reply("ClearTimeProfiles") }
func VerifC04_ClearTaskList()            { c04Reply("ClearTaskList") }
func VerifC04_AddTask()                  { c04Reply("AddTask") }
func VerifC04_RefreshTaskList()          { c04Reply("RefreshTaskList") }
func VerifC04_RecordSpecialEvents()      { c04Reply("RecordSpecialEvents") }
func VerifC04_GetEvent()                 { c04Reply("GetEvent") }
func VerifC04_GetEventIndex()            { c04Reply("GetEventIndex") }
func VerifC04_SetEventIndex()            { c04Reply("SetEventIndex") }
func VerifC04_OpenDoor()                 { c04Reply("OpenDoor") }
func VerifC04_SetPCControl()             { c04Reply("SetPCControl") }
func VerifC04_SetInterlock()             { c04Reply("SetInterlock") }
func VerifC04_ActivateKeypads()          { c04Reply("ActivateKeypads") }
func VerifC04_RestoreDefaultParameters() { c04Reply("RestoreDefaultParameters") }
func VerifC04_SetDoorPasscodes()         { c04Reply("SetDoorPasscodes") }

// discovery with arbitrary datagrams
func VerifC04_GetDevices() {
	verifZone(1)
	d := &vDriver{replies: [][]byte{nondetBuffer("dg0", 2048), nondetBuffer("dg1", 2048)}}
	u := vClient(d)
	devices, _ := u.GetDevices()
	verifOpaqueNumbers(true)
	for i := range devices {
		c04Render(&devices[i])
	}
	verifReach("c04.GetDevices")
}

// the event listener's datagram handler
type c04Listener struct {
	events, errors, connected int
}

func (l *c04Listener) OnConnected()         { l.connected++ }
func (l *c04Listener) OnEvent(*types.Status) { l.events++ }
func (l *c04Listener) OnError(error) bool    { l.errors++; return true }

// any datagram handed to the listener's handler produces a callback, never a panic
func VerifC04_ListenHandler() {
	verifZone(1)
	d := &vDriver{events: [][]byte{nondetBuffer("dg0", 2048), nondetBuffer("dg1", 2048)}}
	u := vClient(d)
	l := &c04Listener{}
	p := make(chan *event, 4)
	q := make(chan os.Signal, 1)
	q <- os.Interrupt
	err := u.listen(p, q, l)
	verifAssert(err == nil && l.connected == 1, "listen: returns without error")
	verifAssert(l.errors+len(p) == 2, "listen: every datagram is either queued as an event or reported as an error")
	verifReach("c04.listen")
}

// a client whose listen address was never configured (or is not a valid address): Listen is an error, not a crash
func VerifC04_ListenWithoutAddress() {
	var addr netip.AddrPort
	if nondetBool("listen.v4") {
		addr = netip.AddrPortFrom(netip.AddrFrom4([4]byte{nondetU8("a"), nondetU8("b"), nondetU8("c"), nondetU8("d")}), 0)
	}
	u := &uhppote{devices: map[uint32]Device{}, driver: &ut0311{listenAddr: addr, timeout: time.Second}, listenAddr: types.ListenAddr{AddrPort: addr}}
	l := &c04Listener{}
	q := make(chan os.Signal, 1)
	q <- os.Interrupt
	err := u.Listen(l, q)
	verifObserve("err", err != nil)
	verifReach("c04.listen.noaddress")
}

// extreme dates and times as arguments: years beyond 9999 and before 0 (concrete samples: they are outside the
// symbolic calendar model) - an error or a garbled request, never a crash
func VerifC04_ExtremeYears() {
	verifZone(1)
	d := &vDriver{err: errVerifNoReply}
	u := vClient(d)
	id := nondetU32("id")
	y := []int{10000, 12345, 99999, -1, -2023}[nondetEnum("year", 5)]
	date := types.ToDate(y, time.March, 5)
	u.PutCard(id, types.Card{CardNumber: 8165538, From: date, To: date, Doors: map[uint8]uint8{1: 1}})
	u.SetTime(id, time.Date(y, time.March, 5, 12, 34, 56, 0, time.Local))
	seg := types.Segment{Start: types.NewHHmm(8, 30), End: types.NewHHmm(17, 0)}
	u.SetTimeProfile(id, types.TimeProfile{ID: 29, From: date, To: date, Weekdays: types.Weekdays{time.Monday: true}, Segments: types.Segments{1: seg, 2: seg, 3: seg}})
	u.AddTask(id, types.Task{Task: types.DoorControlled, Door: 3, From: date, To: date, Weekdays: types.Weekdays{time.Monday: true}, Start: types.NewHHmm(8, 30)})
	verifObserve("date.zero", date.IsZero())
	verifReach("c04.extreme.years")
}

// arbitrary argument values
func VerifC04_Arguments() {
	verifZone(1)
	d := &vDriver{err: errVerifNoReply}
	u := vClient(d)
	id := nondetU32("id")
	var zeroDate types.Date
	u.PutCard(id, types.Card{CardNumber: nondetU32("card"), PIN: types.PIN(nondetU32("pin"))}, types.CardFormat(nondetU8("format")))
	u.SetTime(id, time.Time{})
	u.SetTimeProfile(id, types.TimeProfile{From: zeroDate, To: zeroDate})
	u.AddTask(id, types.Task{Task: types.TaskType(nondetInt("task"))})
	u.SetAddress(id, nil, nil, nil)
	u.SetListener(id, netip.AddrPort{}, 0)
	u.SetDoorPasscodes(id, nondetU8("door"))
	u.SetDoorPasscodes(id, nondetU8("door3"), nondetU32("c1"), nondetU32("c2"), nondetU32("c3"), nondetU32("c4"), nondetU32("c5"), nondetU32("c6"))
	u.ActivateKeypads(id, nil)
	u.SetDoorControlState(id, nondetU8("door2"), types.ControlState(nondetInt("state")), 0)
	u.SetInterlock(id, types.Interlock(nondetU8("interlock")))
	var nilU *uhppote
	nilU.DeviceList()
	nilU.ListenAddrList()
	verifReach("c04.arguments")
}
