// verif:properties C11 C17
package uhppote

import (
	"net/netip"
	"time"

	"github.com/uhppoted/uhppote-core/types"
)

// C11 at the socket level: GetDevices through the real ut0311.Broadcast (collector goroutine, per-datagram
// receive buffer) over the socket script; natively against the loopback peer.

func c11Sockets(k int) {
	verifZone(0)
	const timeout = 400 * time.Millisecond
	dgs := make([][]byte, k)
	for i := range dgs {
		dgs[i] = nondetBuffer(keyTag("dg", i), 96)
	}
	t0 := verifClock()
	verifNetFaults(false)
	verifNetScript(dgs)
	prev := int64(0)
	for i := 0; i < k; i++ {
		a := verifNetArrival(i) - t0
		verifAssume(a >= prev+int64(20*time.Millisecond) && a <= int64(timeout-150*time.Millisecond))
		prev = a
	}
	port := uint16(verifPeerPort())
	u := &uhppote{
		devices:       map[uint32]Device{},
		driver:        &ut0311{bindAddr: netip.AddrPort{}, timeout: timeout},
		broadcastAddr: types.BroadcastAddrFrom(netip.AddrFrom4([4]byte{127, 0, 0, 1}), port),
	}
	cid := nondetU32("configured.id")
	u.devices[cid] = Device{Name: "alpha", DeviceID: cid, Address: types.ControllerAddrFrom(netip.AddrFrom4([4]byte{10, 0, 0, 1}), 12345)}
	devices, err := u.GetDevices()
	c11Check(dgs, devices, err, cid, port)
	verifAssert(verifSockOpen() == 0 && verifGoroutines() == 0, "GetDevices: socket closed and collector goroutine ended")
	verifReach("c11.sockets")
}

func VerifC11_Sockets1()   { c11Sockets(1) }
func VerifC11_Sockets2()   { c11Sockets(2) }
func VerifC11_T_Sockets3() { c11Sockets(3) }

// C17: the entries of one discovery are decoded from independent copies of the receive buffer
func VerifC17_BroadcastReplies() { c11Sockets(2) }
