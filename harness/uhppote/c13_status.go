// verif:properties C13 C02 C10
package uhppote

import (
	"net/netip"
	"os"
	"sync"
	"time"

	"github.com/uhppoted/uhppote-core/types"
)

// C13 - the controller system date and time in a status are combined as civil fields in every zone
// (zone view Z2: a symbolic two-interval zone anchored at the transmitted system date).

type c13Zoned struct {
	id         uint32
	r          []byte
	y, mo, d   int
	hh, mi, ss int
}

func c13ZonedReply(iana bool) c13Zoned {
	z, _ := c13ZonedReplyIn(iana, false)
	return z
}

// controller: the symbolic zone is not the process zone (which is UTC) but the zone configured for the
// controller (Device.TimeZone) - the system date-time is the wall clock the controller sent, whatever that
// zone does to it (every transmitted wall clock time exists in the process zone, so nothing is assumed away)
func c13ZonedReplyIn(iana bool, controller bool) (c13Zoned, *time.Location) {
	verifUseSummary("bcd.Decode") // compositional: the contract of bcd.Decode is what C12 proves
	id := nondetSerial("id")
	dg := nondetBytes("sys.digits", 12) // YY MM DD HH mm ss
	for i := 0; i < 12; i++ {
		verifAssume(dg[i] <= 9)
	}
	yy := int(dg[0])*10 + int(dg[1])
	y, mo, d := 2000+yy, int(dg[2])*10+int(dg[3]), int(dg[4])*10+int(dg[5])
	hh, mi, ss := int(dg[6])*10+int(dg[7]), int(dg[8])*10+int(dg[9]), int(dg[10])*10+int(dg[11])
	verifAssume(yy <= 68 && verifValidDate(y, mo, d) && hh <= 23 && mi <= 59 && ss <= 59)
	if iana {
		verifZoneTable()
	}
	var loc *time.Location
	if controller {
		loc = verifControllerZoneAt(y, mo, d)
	} else {
		verifZoneAt(y, mo, d)
		o1, o2, tau := verifZoneParams()
		sod := hh*3600 + mi*60 + ss
		verifAssume(!(o2 > o1 && sod-o1 >= tau && sod-o2 < tau)) // the civil time exists in the zone
	}
	r := make([]byte, 64)
	r[0], r[1] = 0x17, 0x20
	specPut32(r, 4, id)
	r[51], r[52], r[53] = dg[0]<<4|dg[1], dg[2]<<4|dg[3], dg[4]<<4|dg[5]
	r[37], r[38], r[39] = dg[6]<<4|dg[7], dg[8]<<4|dg[9], dg[10]<<4|dg[11]
	return c13Zoned{id: id, r: r, y: y, mo: mo, d: d, hh: hh, mi: mi, ss: ss}, loc
}

func c13Status(iana bool) {
	z := c13ZonedReply(iana)
	id, r, y, mo, d, hh, mi, ss := z.id, z.r, z.y, z.mo, z.d, z.hh, z.mi, z.ss
	dr := &vDriver{seq: [][]byte{r}}
	u := vClient(dr)
	st, err := u.GetStatus(id)
	verifAssert(err == nil && st != nil, "GetStatus: a well-formed status is returned")
	if st != nil {
		t := time.Time(st.SystemDateTime)
		verifObserve("sys.day", t.Day())
		verifObserve("sys.hour", t.Hour())
		verifAssert(!st.SystemDateTime.IsZero(), "GetStatus: an existing system date-time is not the zero value")
		verifAssert(t.Year() == y && int(t.Month()) == mo && t.Day() == d, "GetStatus: the system date-time reports the transmitted calendar day")
		verifAssert(t.Hour() == hh && t.Minute() == mi && t.Second() == ss, "GetStatus: the system date-time reports the transmitted time of day")
	}
	verifReach("c13.status")
}

func VerifC13_Status()      { c13Status(false) }
func VerifC13_Status_IANA() { c13Status(true) }

// the same harness under C02: the status system date-time is the protocol decoding of the reply in every zone
func VerifC02_StatusZoned()      { c13Status(false) }
func VerifC02_StatusZoned_IANA() { c13Status(true) }

// the same for an event delivered by the listener (Listen has its own copy of the recombination)
type c13Listener struct {
	mu  sync.Mutex
	got []types.Status
}

func (l *c13Listener) OnConnected() {}
func (l *c13Listener) OnEvent(s *types.Status) {
	l.mu.Lock()
	defer l.mu.Unlock()
	l.got = append(l.got, *s)
}
func (l *c13Listener) OnError(error) bool { return true }
func (l *c13Listener) settle(i int) {
	for tries := 0; tries < 100; tries++ {
		l.mu.Lock()
		n := len(l.got)
		l.mu.Unlock()
		if n > i {
			return
		}
		time.Sleep(10 * time.Millisecond)
	}
}

func c13Listen(iana bool) {
	z := c13ZonedReply(iana)
	d := &vDriver{events: [][]byte{z.r}, async: true}
	u := vClient(d)
	l := &c13Listener{}
	d.settle = l.settle
	q := make(chan os.Signal, 1)
	q <- os.Interrupt
	err := u.Listen(l, q)
	verifAssert(verifGoroutines() == 0, "Listen: its goroutines have ended") // (natively this also waits for the dispatcher)
	verifAssert(err == nil && len(l.got) == 1, "Listen: the event is delivered")
	if len(l.got) == 1 {
		t := time.Time(l.got[0].SystemDateTime)
		verifObserve("sys.day", t.Day())
		verifObserve("sys.hour", t.Hour())
		verifAssert(t.Year() == z.y && int(t.Month()) == z.mo && t.Day() == z.d, "Listen: the system date-time of an event reports the transmitted calendar day")
		verifAssert(t.Hour() == z.hh && t.Minute() == z.mi && t.Second() == z.ss, "Listen: the system date-time of an event reports the transmitted time of day")
	}
	verifReach("c13.listen")
}

func VerifC13_Listen()           { c13Listen(false) }
func VerifC13_Listen_IANA()      { c13Listen(true) }
func VerifC10_ListenZoned()      { c13Listen(false) }
func VerifC10_ListenZoned_IANA() { c13Listen(true) }

// the controller is configured with its own time zone (any two-interval zone; the process zone is UTC): the
// system date-time of a status and of an event are still the transmitted wall clock fields
func c13StatusControllerZone(iana bool) {
	z, loc := c13ZonedReplyIn(iana, true)
	dr := &vDriver{seq: [][]byte{z.r}, reply: z.r} // (a configured controller is addressed directly)
	u := vClient(dr)
	u.devices[z.id] = Device{Name: "alpha", DeviceID: z.id, Address: types.ControllerAddrFrom(netip.AddrFrom4([4]byte{192, 168, 1, 100}), 60000), Protocol: "udp", TimeZone: loc}
	st, err := u.GetStatus(z.id)
	verifAssert(err == nil && st != nil, "GetStatus (controller zone): a well-formed status is returned")
	if st != nil {
		t := time.Time(st.SystemDateTime)
		verifObserve("sys.day", t.Day())
		verifObserve("sys.hour", t.Hour())
		verifAssert(t.Year() == z.y && int(t.Month()) == z.mo && t.Day() == z.d, "GetStatus (controller zone): the system date-time reports the transmitted calendar day")
		verifAssert(t.Hour() == z.hh && t.Minute() == z.mi && t.Second() == z.ss, "GetStatus (controller zone): the system date-time reports the transmitted time of day")
		verifAssert(t.Format("2006-01-02 15:04:05") == c13Text(z), "GetStatus (controller zone): the system date-time prints as the transmitted wall clock")
	}
	verifReach("c13.status.controllerzone")
}

func c13Text(z c13Zoned) string {
	two := func(v int) string { return string([]byte{byte('0' + v/10%10), byte('0' + v%10)}) }
	return two(z.y/100) + two(z.y%100) + "-" + two(z.mo) + "-" + two(z.d) + " " + two(z.hh) + ":" + two(z.mi) + ":" + two(z.ss)
}

func VerifC13_StatusControllerZone()      { c13StatusControllerZone(false) }
func VerifC13_StatusControllerZone_IANA() { c13StatusControllerZone(true) }

func c13ListenControllerZone(iana bool) {
	z, loc := c13ZonedReplyIn(iana, true)
	d := &vDriver{events: [][]byte{z.r}, async: true}
	u := vClient(d)
	u.devices[z.id] = Device{Name: "alpha", DeviceID: z.id, Address: types.ControllerAddrFrom(netip.AddrFrom4([4]byte{192, 168, 1, 100}), 60000), Protocol: "udp", TimeZone: loc}
	l := &c13Listener{}
	d.settle = l.settle
	q := make(chan os.Signal, 1)
	q <- os.Interrupt
	err := u.Listen(l, q)
	verifAssert(verifGoroutines() == 0, "Listen (controller zone): its goroutines have ended")
	verifAssert(err == nil && len(l.got) == 1, "Listen (controller zone): the event is delivered")
	if len(l.got) == 1 {
		t := time.Time(l.got[0].SystemDateTime)
		verifObserve("sys.day", t.Day())
		verifObserve("sys.hour", t.Hour())
		verifAssert(t.Year() == z.y && int(t.Month()) == z.mo && t.Day() == z.d, "Listen (controller zone): the system date-time of an event reports the transmitted calendar day")
		verifAssert(t.Hour() == z.hh && t.Minute() == z.mi && t.Second() == z.ss, "Listen (controller zone): the system date-time of an event reports the transmitted time of day")
	}
	verifReach("c13.listen.controllerzone")
}

func VerifC13_ListenControllerZone()      { c13ListenControllerZone(false) }
func VerifC13_ListenControllerZone_IANA() { c13ListenControllerZone(true) }

// get-time for a controller configured with its own time zone: the date-time returned is the transmitted wall
// clock (bytes 8..14: YYYYMMDDHHmmss), whatever that zone does to it
func c13GetTimeControllerZone(iana bool) {
	z, loc := c13ZonedReplyIn(iana, true)
	r := make([]byte, 64)
	r[0], r[1] = 0x17, 0x32
	specPut32(r, 4, z.id)
	r[8], r[9], r[10], r[11] = 0x20, z.r[51], z.r[52], z.r[53]
	r[12], r[13], r[14] = z.r[37], z.r[38], z.r[39]
	dr := &vDriver{seq: [][]byte{r}, reply: r}
	u := vClient(dr)
	u.devices[z.id] = Device{Name: "alpha", DeviceID: z.id, Address: types.ControllerAddrFrom(netip.AddrFrom4([4]byte{192, 168, 1, 100}), 60000), Protocol: "udp", TimeZone: loc}
	tm, err := u.GetTime(z.id)
	verifAssert(err == nil && tm != nil, "GetTime (controller zone): a well-formed reply is returned")
	if tm != nil {
		t := time.Time(tm.DateTime)
		verifObserve("time.day", t.Day())
		verifObserve("time.hour", t.Hour())
		verifAssert(t.Year() == z.y && int(t.Month()) == z.mo && t.Day() == z.d, "GetTime (controller zone): the date-time reports the transmitted calendar day")
		verifAssert(t.Hour() == z.hh && t.Minute() == z.mi && t.Second() == z.ss, "GetTime (controller zone): the date-time reports the transmitted time of day")
		verifAssert(t.Format("2006-01-02 15:04:05") == c13Text(z), "GetTime (controller zone): the date-time prints as the transmitted wall clock")
	}
	verifReach("c13.gettime.controllerzone")
}

func VerifC13_GetTimeControllerZone()      { c13GetTimeControllerZone(false) }
func VerifC13_GetTimeControllerZone_IANA() { c13GetTimeControllerZone(true) }
func VerifC02_GetTimeControllerZone()      { c13GetTimeControllerZone(false) }
func VerifC02_GetTimeControllerZone_IANA() { c13GetTimeControllerZone(true) }
