package uhppote

import (
	"net/netip"
	"time"

	"github.com/uhppoted/uhppote-core/types"
)

// The reply-bearing operations with valid default arguments (shared by the "every operation" harnesses of
// C03 and C06): name, function code, and a call that reports whether a result was returned.

type vOp struct {
	name string
	fn   byte
	call func(u *uhppote, id uint32) (bool, error)
}

func vOps() []vOp {
	date := types.ToDate(2024, time.March, 5)
	ok := func(err error) (bool, error) { return err == nil, err }
	return []vOp{
		{"GetDevice", 0x94, func(u *uhppote, id uint32) (bool, error) { r, err := u.GetDevice(id); return err == nil && r != nil, err }},
		{"GetListener", 0x92, func(u *uhppote, id uint32) (bool, error) { _, _, err := u.GetListener(id); return ok(err) }},
		{"SetListener", 0x90, func(u *uhppote, id uint32) (bool, error) {
			_, err := u.SetListener(id, netip.AddrPortFrom(netip.AddrFrom4([4]byte{192, 168, 1, 100}), 60001), 13)
			return ok(err)
		}},
		{"GetTime", 0x32, func(u *uhppote, id uint32) (bool, error) { _, err := u.GetTime(id); return ok(err) }},
		{"SetTime", 0x30, func(u *uhppote, id uint32) (bool, error) {
			_, err := u.SetTime(id, time.Date(2024, time.March, 5, 12, 34, 56, 0, time.Local))
			return ok(err)
		}},
		{"GetDoorControlState", 0x82, func(u *uhppote, id uint32) (bool, error) { _, err := u.GetDoorControlState(id, 3); return ok(err) }},
		{"SetDoorControlState", 0x80, func(u *uhppote, id uint32) (bool, error) {
			_, err := u.SetDoorControlState(id, 3, types.Controlled, 7)
			return ok(err)
		}},
		{"RecordSpecialEvents", 0x8e, func(u *uhppote, id uint32) (bool, error) { _, err := u.RecordSpecialEvents(id, true); return ok(err) }},
		{"GetStatus", 0x20, func(u *uhppote, id uint32) (bool, error) { r, err := u.GetStatus(id); return err == nil && r != nil, err }},
		{"GetCards", 0x58, func(u *uhppote, id uint32) (bool, error) { _, err := u.GetCards(id); return ok(err) }},
		{"GetCardByID", 0x5a, func(u *uhppote, id uint32) (bool, error) { _, err := u.GetCardByID(id, 8165538); return ok(err) }},
		{"GetCardByIndex", 0x5c, func(u *uhppote, id uint32) (bool, error) { _, err := u.GetCardByIndex(id, 17); return ok(err) }},
		{"PutCard", 0x50, func(u *uhppote, id uint32) (bool, error) {
			_, err := u.PutCard(id, types.Card{CardNumber: 8165538, From: date, To: date, Doors: map[uint8]uint8{1: 1}})
			return ok(err)
		}},
		{"DeleteCard", 0x52, func(u *uhppote, id uint32) (bool, error) { _, err := u.DeleteCard(id, 8165538); return ok(err) }},
		{"DeleteCards", 0x54, func(u *uhppote, id uint32) (bool, error) { _, err := u.DeleteCards(id); return ok(err) }},
		{"GetTimeProfile", 0x98, func(u *uhppote, id uint32) (bool, error) { _, err := u.GetTimeProfile(id, 29); return ok(err) }},
		{"SetTimeProfile", 0x88, func(u *uhppote, id uint32) (bool, error) {
			seg := types.Segment{Start: types.NewHHmm(8, 30), End: types.NewHHmm(17, 0)}
			_, err := u.SetTimeProfile(id, types.TimeProfile{ID: 29, From: date, To: date, Weekdays: types.Weekdays{time.Monday: true}, Segments: types.Segments{1: seg, 2: seg, 3: seg}})
			return ok(err)
		}},
		{"ClearTimeProfiles", 0x8a, func(u *uhppote, id uint32) (bool, error) { _, err := u.ClearTimeProfiles(id); return ok(err) }},
		{"ClearTaskList", 0xa6, func(u *uhppote, id uint32) (bool, error) { _, err := u.ClearTaskList(id); return ok(err) }},
		{"AddTask", 0xa8, func(u *uhppote, id uint32) (bool, error) {
			_, err := u.AddTask(id, types.Task{Task: types.DoorNormallyOpen, Door: 2, From: date, To: date, Weekdays: types.Weekdays{time.Monday: true}, Start: types.NewHHmm(8, 30)})
			return ok(err)
		}},
		{"RefreshTaskList", 0xac, func(u *uhppote, id uint32) (bool, error) { _, err := u.RefreshTaskList(id); return ok(err) }},
		{"GetEvent", 0xb0, func(u *uhppote, id uint32) (bool, error) { _, err := u.GetEvent(id, 17); return ok(err) }},
		{"GetEventIndex", 0xb4, func(u *uhppote, id uint32) (bool, error) { _, err := u.GetEventIndex(id); return ok(err) }},
		{"SetEventIndex", 0xb2, func(u *uhppote, id uint32) (bool, error) { _, err := u.SetEventIndex(id, 17); return ok(err) }},
		{"OpenDoor", 0x40, func(u *uhppote, id uint32) (bool, error) { _, err := u.OpenDoor(id, 3); return ok(err) }},
		{"SetPCControl", 0xa0, func(u *uhppote, id uint32) (bool, error) { _, err := u.SetPCControl(id, true); return ok(err) }},
		{"SetDoorPasscodes", 0x8c, func(u *uhppote, id uint32) (bool, error) { _, err := u.SetDoorPasscodes(id, 2, 12345); return ok(err) }},
		{"SetInterlock", 0xa2, func(u *uhppote, id uint32) (bool, error) { _, err := u.SetInterlock(id, types.Interlock12); return ok(err) }},
		{"ActivateKeypads", 0xa4, func(u *uhppote, id uint32) (bool, error) { _, err := u.ActivateKeypads(id, map[uint8]bool{1: true}); return ok(err) }},
		{"RestoreDefaultParameters", 0xc8, func(u *uhppote, id uint32) (bool, error) { _, err := u.RestoreDefaultParameters(id); return ok(err) }},
	}
}
