// verif:properties C03
package uhppote

import (
	"net/netip"
	"time"

	"github.com/uhppoted/uhppote-core/types"
)

// C03 at the socket level: GetCards through the real ut0311 driver (directed UDP, TCP, broadcast) over the
// socket script: a result is reported only on the basis of a 64-byte datagram / chunk with the right
// protocol id, function code and serial number; natively against the loopback peer.

func c03Sockets(route int, k int, what string) {
	const timeout = 500 * time.Millisecond
	id := nondetSerial("id")
	dgs := make([][]byte, k)
	for i := range dgs {
		dgs[i] = nondetBuffer(keyTag("dg", i), 96)
		if route == 1 {
			verifAssume(len(dgs[i]) >= 1) // a TCP peer cannot send an empty chunk
		}
	}
	t0 := verifClock()
	verifNetFaults(false)
	verifNetScript(dgs)
	prev := int64(0)
	for i := 0; i < k; i++ {
		a := verifNetArrival(i) - t0
		verifAssume(a >= prev+int64(20*time.Millisecond) && a <= int64(timeout-200*time.Millisecond))
		prev = a
	}
	port := uint16(verifPeerPort())
	peer := netip.AddrFrom4([4]byte{127, 0, 0, 1})
	u := &uhppote{devices: map[uint32]Device{}, driver: &ut0311{bindAddr: netip.AddrPort{}, timeout: timeout}}
	switch route {
	case 0:
		u.devices[id] = Device{DeviceID: id, Address: types.ControllerAddrFrom(peer, port), Protocol: "udp"}
	case 1:
		verifNetConnectMax(int64(5 * time.Millisecond))
		u.devices[id] = Device{DeviceID: id, Address: types.ControllerAddrFrom(peer, port), Protocol: "tcp"}
	case 2:
		u.broadcastAddr = types.BroadcastAddrFrom(peer, port)
	}
	n, err := u.GetCards(id)
	verifObserve("ok", err == nil)
	wellFormed := func(m []byte) bool {
		return len(m) == 64 && m[0] == 0x17 && m[1] == 0x58 && specGet32(m, 4) == id
	}
	if route < 2 {
		// directed: the one reply decides
		if wellFormed(dgs[0]) {
			verifAssert(err == nil && n == specGet32(dgs[0], 8), what+": a well-formed reply from the addressed controller is the result")
		} else {
			verifAssert(err != nil, what+": on a directed route a reply of the wrong length, serial number, protocol id or function code makes the call fail")
		}
	} else {
		// broadcast: wrong-length and wrong-serial datagrams are skipped, the first one from the controller decides
		first := -1
		for i := k - 1; i >= 0; i-- {
			if len(dgs[i]) == 64 && specGet32(dgs[i], 4) == id {
				first = i
			}
		}
		if first >= 0 && wellFormed(dgs[first]) {
			verifAssert(err == nil && n == specGet32(dgs[first], 8), what+": the first datagram from the addressed controller is the result")
		} else {
			verifAssert(err != nil, what+": no well-formed datagram from the addressed controller: the call fails")
		}
	}
	verifAssert(verifSockOpen() == 0, what+": socket closed")
	verifReach("c03.sockets." + what)
}

func VerifC03_SocketsUDP()          { c03Sockets(0, 1, "udp") }
func VerifC03_SocketsUDP2()         { c03Sockets(0, 2, "udp") } // the first datagram decides; nothing is skipped on a directed route
func VerifC03_T_SocketsUDP3()       { c03Sockets(0, 3, "udp") }
func VerifC03_SocketsTCP()          { c03Sockets(1, 1, "tcp") }
func VerifC03_SocketsBroadcast1()   { c03Sockets(2, 1, "broadcast") }
func VerifC03_SocketsBroadcast2()   { c03Sockets(2, 2, "broadcast") }
func VerifC03_T_SocketsBroadcast3() { c03Sockets(2, 3, "broadcast") }
