package uhppote

// Reply-side protocol oracle: what a field at a protocol offset means, written from the protocol
// description (DESIGN.md appendix A), with no code shared with the repository's decoders and no
// division (decimal values are rebuilt from nibbles).

import (
	"time"

	"github.com/uhppoted/uhppote-core/types"
)

func specNibblesOK(b []byte) bool {
	ok := true
	for i := 0; i < len(b); i++ {
		if b[i]>>4 > 9 || b[i]&0x0f > 9 {
			ok = false
		}
	}
	return ok
}

func specAllZero(b []byte) bool {
	z := true
	for i := 0; i < len(b); i++ {
		if b[i] != 0 {
			z = false
		}
	}
	return z
}

func specBCD2(b byte) int { return int(b>>4)*10 + int(b&0x0f) }

// specDate: interpretation of a 4-byte BCD YYYYMMDD field.
type specDate struct {
	digits  bool // every nibble is a decimal digit
	zero    bool // 00 00 00 00: the 'no date' value
	valid   bool // a calendar date
	y, m, d int
}

func specDate4(b []byte) specDate {
	r := specDate{digits: specNibblesOK(b[0:4]), zero: specAllZero(b[0:4])}
	r.y = specBCD2(b[0])*100 + specBCD2(b[1])
	r.m = specBCD2(b[2])
	r.d = specBCD2(b[3])
	r.valid = r.digits && verifValidDate(r.y, r.m, r.d)
	return r
}

// checkDate: got must be the protocol decoding of the field (the call is known to have succeeded).
func checkDate(got types.Date, r specDate, what string) {
	t := time.Time(got)
	switch {
	case r.zero:
		verifAssert(got.IsZero(), what+": all-zero bytes are the zero 'no date' value")
	case r.valid && r.y == 1 && r.m == 1 && r.d == 1:
		// 0001-01-01 coincides with the zero instant when the zone offset is 0: not constrained
	case r.valid:
		verifAssert(!got.IsZero() && t.Year() == r.y && int(t.Month()) == r.m && t.Day() == r.d, what+": date is the transmitted year, month and day")
	default:
		verifAssert(got.IsZero(), what+": an impossible calendar date comes back as 'no date', never as another date")
	}
}

type specDateTime struct {
	digits, zero, valid bool
	y, m, d, h, mi, s   int
}

func specDateTime7(b []byte) specDateTime {
	r := specDateTime{digits: specNibblesOK(b[0:7]), zero: specAllZero(b[0:7])}
	r.y = specBCD2(b[0])*100 + specBCD2(b[1])
	r.m, r.d = specBCD2(b[2]), specBCD2(b[3])
	r.h, r.mi, r.s = specBCD2(b[4]), specBCD2(b[5]), specBCD2(b[6])
	r.valid = r.digits && verifValidDate(r.y, r.m, r.d) && r.h <= 23 && r.mi <= 59 && r.s <= 59
	return r
}

func checkDateTime(got types.DateTime, r specDateTime, what string) {
	t := time.Time(got)
	switch {
	case r.zero:
		verifAssert(got.IsZero(), what+": all-zero bytes are the zero 'no value' date-time")
	case r.valid && r.y <= 1:
		// years 0000/0001 are within a zone offset of the zero instant: not constrained
	case r.valid:
		verifAssert(!got.IsZero() && t.Year() == r.y && int(t.Month()) == r.m && t.Day() == r.d &&
			t.Hour() == r.h && t.Minute() == r.mi && t.Second() == r.s, what+": date-time is the transmitted civil time")
	default:
		verifAssert(got.IsZero(), what+": an impossible date-time comes back as 'no value', never as another time")
	}
}

// specHHmm: a 2-byte BCD HHmm field; in domain 00:00..24:00 with minutes 0..59.
type specHHmmR struct {
	digits, valid bool
	h, m          int
}

func specHHmm2(b []byte) specHHmmR {
	r := specHHmmR{digits: specNibblesOK(b[0:2]), h: specBCD2(b[0]), m: specBCD2(b[1])}
	r.valid = r.digits && r.h <= 24 && r.m <= 59 && (r.h < 24 || r.m == 0)
	return r
}

func specBoolOK(b byte) bool { return b <= 1 }

// c02Reply: a symbolic 64-byte reply that carries the right protocol id, function code and serial number
// (everything else arbitrary), delivered on the broadcast route of an unconfigured client.
func c02Reply(fn byte) (*vDriver, *uhppote, uint32, []byte) {
	id := nondetSerial("id")
	r := nondetBytes("reply", 64)
	verifAssume(r[0] == 0x17 && r[1] == fn && specGet32(r, 4) == id)
	d := &vDriver{seq: [][]byte{r}}
	u := vClient(d)
	if c02Configured {
		d.seq, d.reply = nil, r
		vConfigure(u, id, "udp")
	}
	if c02Earlier != nil {
		// an earlier call of the same operation on the same client, with its own arbitrary (accepted) reply:
		// the result of the call under test must not depend on it
		r0 := nondetBytes("earlier.reply", 64)
		id0 := nondetSerial("earlier.id")
		verifAssume(r0[0] == 0x17 && r0[1] == fn && specGet32(r0, 4) == id0)
		d.seq = [][]byte{r0}
		verifAssume(c02Earlier(u, id0) == nil) // the earlier call succeeded (its leftovers are what matters)
		d.seq = [][]byte{r}
		d.calls = 0
		if c02Narrow != nil {
			c02Narrow(r)
		}
	}
	return d, u, id, r
}

var c02Earlier func(u *uhppote, id uint32) error

// c02Configured: the controller is configured (directed route) with a time zone of its own
var c02Configured bool

// c02Narrow: optional restriction of the current reply in the 'twice' harnesses (keeps the number of heap
// shapes small when leftovers of the earlier call make pointer fields differ)
var c02Narrow func(r []byte)

// specStatus: classification of a 64-byte status / event payload (GetStatus reply layout, appendix A).
type specStatus struct {
	malformed bool // a boolean byte other than 0/1, a non-decimal BCD nibble, an impossible system date or time
	ts        specDateTime
	sdZero    bool
	yy        int
	year, mo, dd, hh, mi, ss int
}

func specStatusOf(r []byte) specStatus {
	s := specStatus{ts: specDateTime7(r[20:27])}
	flagsOK := specBoolOK(r[13])
	for i := 28; i <= 35; i++ {
		if !specBoolOK(r[i]) {
			flagsOK = false
		}
	}
	s.sdZero = specAllZero(r[51:54])
	sdDigits, stDigits := specNibblesOK(r[51:54]), specNibblesOK(r[37:40])
	s.yy, s.mo, s.dd = specBCD2(r[51]), specBCD2(r[52]), specBCD2(r[53])
	s.hh, s.mi, s.ss = specBCD2(r[37]), specBCD2(r[38]), specBCD2(r[39])
	s.year = 2000 + s.yy
	if s.yy >= 69 {
		s.year = 1900 + s.yy // two-digit year pivot of the standard library (outside the protocol: not asserted)
	}
	sdValid := sdDigits && verifValidDate(s.year, s.mo, s.dd)
	stValid := stDigits && s.hh <= 23 && s.mi <= 59 && s.ss <= 59
	s.malformed = !flagsOK || (!s.ts.digits && !s.ts.zero) || (!s.sdZero && !sdValid) || !stValid
	return s
}

// checkStatus: st must be the protocol decoding of the (well-formed) payload r.
func checkStatus(st *types.Status, r []byte, s specStatus, what string) {
	verifAssert(uint32(st.SerialNumber) == specGet32(r, 4) && st.SystemError == r[36] && st.SequenceId == specGet32(r, 40) &&
		st.SpecialInfo == r[48] && st.RelayState == r[49] && st.InputState == r[50], what+": scalar fields from their protocol offsets")
	ds, db := st.DoorState, st.DoorButton
	verifAssert(len(ds) == 4 && ds[1] == (r[28] == 1) && ds[2] == (r[29] == 1) && ds[3] == (r[30] == 1) && ds[4] == (r[31] == 1), what+": door states from offsets 28..31")
	verifAssert(len(db) == 4 && db[1] == (r[32] == 1) && db[2] == (r[33] == 1) && db[3] == (r[34] == 1) && db[4] == (r[35] == 1), what+": door buttons from offsets 32..35")
	sys := time.Time(st.SystemDateTime)
	if s.sdZero {
		verifAssert(st.SystemDateTime.IsZero(), what+": system date 00 00 00 gives the zero system date-time")
	} else if s.yy < 69 {
		verifAssert(sys.Year() == s.year && int(sys.Month()) == s.mo && sys.Day() == s.dd && sys.Hour() == s.hh && sys.Minute() == s.mi && sys.Second() == s.ss,
			what+": system date-time is the combination of system date and system time")
	}
	e := st.Event
	if specGet32(r, 8) == 0 {
		verifAssert(e.Index == 0 && e.Type == 0 && !e.Granted && e.Door == 0 && e.Direction == 0 && e.CardNumber == 0 && e.Reason == 0 && e.Timestamp.IsZero(), what+": no event when the event index is 0")
	} else {
		verifAssert(e.Index == specGet32(r, 8) && e.Type == r[12] && e.Granted == (r[13] == 1) && e.Door == r[14] && e.Direction == r[15] &&
			e.CardNumber == specGet32(r, 16) && e.Reason == r[27], what+": event fields from their protocol offsets")
		checkDateTime(e.Timestamp, s.ts, what+" event timestamp")
	}
}
