package uhppote

// Reply-side protocol oracle: what a field at a protocol offset means, written from the protocol
// description (DESIGN.md appendix A), with no code shared with the repository's decoders and no
// division (decimal values are rebuilt from nibbles).

import (
	"time"

	"github.com/uhppoted/uhppote-core/types"
)

func specNibblesOK(b []byte) bool {
	ok := true
	for i := 0; i < len(b); i++ {
		if b[i]>>4 > 9 || b[i]&0x0f > 9 {
			ok = false
		}
	}
	return ok
}

func specAllZero(b []byte) bool {
	z := true
	for i := 0; i < len(b); i++ {
		if b[i] != 0 {
			z = false
		}
	}
	return z
}

func specBCD2(b byte) int { return int(b>>4)*10 + int(b&0x0f) }

// specDate: interpretation of a 4-byte BCD YYYYMMDD field.
type specDate struct {
	digits  bool // every nibble is a decimal digit
	zero    bool // 00 00 00 00: the 'no date' value
	valid   bool // a calendar date
	y, m, d int
}

func specDate4(b []byte) specDate {
	r := specDate{digits: specNibblesOK(b[0:4]), zero: specAllZero(b[0:4])}
	r.y = specBCD2(b[0])*100 + specBCD2(b[1])
	r.m = specBCD2(b[2])
	r.d = specBCD2(b[3])
	r.valid = r.digits && verifValidDate(r.y, r.m, r.d)
	return r
}

// checkDate: got must be the protocol decoding of the field (the call is known to have succeeded).
func checkDate(got types.Date, r specDate, what string) {
	t := time.Time(got)
	switch {
	case r.zero:
		verifAssert(got.IsZero(), what+": all-zero bytes are the zero 'no date' value")
	case r.valid && r.y == 1 && r.m == 1 && r.d == 1:
		// 0001-01-01 coincides with the zero instant when the zone offset is 0: not constrained
	case r.valid:
		verifAssert(!got.IsZero() && t.Year() == r.y && int(t.Month()) == r.m && t.Day() == r.d, what+": date is the transmitted year, month and day")
	default:
		verifAssert(got.IsZero(), what+": an impossible calendar date comes back as 'no date', never as another date")
	}
}

type specDateTime struct {
	digits, zero, valid bool
	y, m, d, h, mi, s   int
}

func specDateTime7(b []byte) specDateTime {
	r := specDateTime{digits: specNibblesOK(b[0:7]), zero: specAllZero(b[0:7])}
	r.y = specBCD2(b[0])*100 + specBCD2(b[1])
	r.m, r.d = specBCD2(b[2]), specBCD2(b[3])
	r.h, r.mi, r.s = specBCD2(b[4]), specBCD2(b[5]), specBCD2(b[6])
	r.valid = r.digits && verifValidDate(r.y, r.m, r.d) && r.h <= 23 && r.mi <= 59 && r.s <= 59
	return r
}

func checkDateTime(got types.DateTime, r specDateTime, what string) {
	t := time.Time(got)
	switch {
	case r.zero:
		verifAssert(got.IsZero(), what+": all-zero bytes are the zero 'no value' date-time")
	case r.valid && r.y <= 1:
		// years 0000/0001 are within a zone offset of the zero instant: not constrained
	case r.valid:
		verifAssert(!got.IsZero() && t.Year() == r.y && int(t.Month()) == r.m && t.Day() == r.d &&
			t.Hour() == r.h && t.Minute() == r.mi && t.Second() == r.s, what+": date-time is the transmitted civil time")
	default:
		verifAssert(got.IsZero(), what+": an impossible date-time comes back as 'no value', never as another time")
	}
}

// specHHmm: a 2-byte BCD HHmm field; in domain 00:00..24:00 with minutes 0..59.
type specHHmmR struct {
	digits, valid bool
	h, m          int
}

func specHHmm2(b []byte) specHHmmR {
	r := specHHmmR{digits: specNibblesOK(b[0:2]), h: specBCD2(b[0]), m: specBCD2(b[1])}
	r.valid = r.digits && r.h <= 24 && r.m <= 59 && (r.h < 24 || r.m == 0)
	return r
}

func specBoolOK(b byte) bool { return b <= 1 }

// c02Reply: a symbolic 64-byte reply that carries the right protocol id, function code and serial number
// (everything else arbitrary), delivered on the broadcast route of an unconfigured client.
func c02Reply(fn byte) (*vDriver, *uhppote, uint32, []byte) {
	id := nondetSerial("id")
	r := nondetBytes("reply", 64)
	verifAssume(r[0] == 0x17 && r[1] == fn && specGet32(r, 4) == id)
	d := &vDriver{seq: [][]byte{r}}
	return d, vClient(d), id, r
}
