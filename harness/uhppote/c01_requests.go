// verif:properties C01
package uhppote

// C01 - every request on the wire is exactly the protocol encoding of the call.
//
// One harness per API operation: the arguments are symbolic over their whole domain, the driver records
// what reaches the transport, and the recorded bytes are compared with the protocol table written out
// below (function code, offsets, encodings) - all 64 bytes, so "zero elsewhere" is part of the claim.

import (
	"net/netip"
	"time"

	"github.com/uhppoted/uhppote-core/types"
)

func c01Check(d *vDriver, want []byte, what string) {
	verifAssert(d.calls == 1, what+": exactly one request reaches the transport")
	verifAssert(len(d.req) == 64, what+": request is 64 bytes")
	if len(d.req) == 64 {
		verifObserve("request", d.req)
		verifAssertEqBytes(d.req, want, what+": request bytes")
	}
	verifReach("c01." + what)
}

// c01History: when set, every harness first performs an earlier, unrelated call with its own symbolic
// arguments - on the same client or on another client of the same process - before the call under test:
// the request bytes must be a function of the current call only.
var c01History bool

func c01Driver() (*vDriver, *uhppote) {
	d := &vDriver{err: errVerifNoReply}
	u := vClient(d)
	if c01History {
		c01Earlier(u)
		d.calls, d.req, d.method = 0, nil, ""
	}
	return d, u
}

func c01Earlier(u *uhppote) {
	who := u
	if nondetEnum("earlier.client", 2) == 1 {
		who = vClient(&vDriver{err: errVerifNoReply}) // another client instance of the same process
	}
	// a request that fills bytes 8..27 with arbitrary values, and one that has a different shape
	door := nondetU8("earlier.door")
	c1, c2, c3, c4 := nondetU32("earlier.c1"), nondetU32("earlier.c2"), nondetU32("earlier.c3"), nondetU32("earlier.c4")
	verifAssume(door >= 1 && door <= 4 && c1 <= 999999 && c2 <= 999999 && c3 <= 999999 && c4 <= 999999)
	who.SetDoorPasscodes(nondetU32("earlier.id"), door, c1, c2, c3, c4)
	who.SetListener(nondetU32("earlier.id2"), netip.AddrPortFrom(netip.AddrFrom4([4]byte{nondetU8("earlier.a"), nondetU8("earlier.b"), 3, 4}), nondetU16("earlier.port")), nondetU8("earlier.interval"))
}

func VerifC01_GetDevices() {
	d, u := c01Driver()
	u.GetDevices()
	c01Check(d, specReq(0x94, 0), "GetDevices")
	verifAssert(d.method == "Broadcast", "GetDevices: discovery is a broadcast")
}

func VerifC01_GetDevice() {
	d, u := c01Driver()
	id := nondetSerial("id")
	u.GetDevice(id)
	c01Check(d, specReq(0x94, id), "GetDevice")
}

func VerifC01_SetAddress() {
	d, u := c01Driver()
	d.err = nil // set-address has no reply
	id := nondetSerial("id")
	addr, a := nondetIPv4("addr")
	mask, m := nondetIPv4("mask")
	gw, g := nondetIPv4("gw")
	u.SetAddress(id, addr, mask, gw)
	want := specReq(0x96, id)
	copy(want[8:12], a[:])
	copy(want[12:16], m[:])
	copy(want[16:20], g[:])
	specMagic(want, 20)
	c01Check(d, want, "SetAddress")
}

func VerifC01_GetListener() {
	d, u := c01Driver()
	id := nondetSerial("id")
	u.GetListener(id)
	c01Check(d, specReq(0x92, id), "GetListener")
}

func VerifC01_SetListener() {
	d, u := c01Driver()
	id := nondetSerial("id")
	ip := nondetBytes("ip", 4)
	port := nondetU16("port")
	interval := nondetU8("interval")
	// accepted arguments: 0.0.0.0:0, or any IPv4 address with a non-zero port
	verifAssume(port != 0 || (ip[0] == 0 && ip[1] == 0 && ip[2] == 0 && ip[3] == 0))
	addr := netip.AddrPortFrom(netip.AddrFrom4([4]byte{ip[0], ip[1], ip[2], ip[3]}), port)
	u.SetListener(id, addr, interval)
	want := specReq(0x90, id)
	copy(want[8:12], ip)
	specPut16(want, 12, port)
	want[14] = interval
	c01Check(d, want, "SetListener")
}

func VerifC01_GetTime() {
	d, u := c01Driver()
	id := nondetSerial("id")
	u.GetTime(id)
	c01Check(d, specReq(0x32, id), "GetTime")
}

func VerifC01_SetTime() {
	verifZone(1)
	d, u := c01Driver()
	id := nondetSerial("id")
	dg := nondetBytes("dt.digits", 14) // YYYYMMDDHHmmss
	for i := 0; i < 14; i++ {
		verifAssume(dg[i] <= 9)
	}
	y := int(dg[0])*1000 + int(dg[1])*100 + int(dg[2])*10 + int(dg[3])
	mo := int(dg[4])*10 + int(dg[5])
	dd := int(dg[6])*10 + int(dg[7])
	h := int(dg[8])*10 + int(dg[9])
	mi := int(dg[10])*10 + int(dg[11])
	s := int(dg[12])*10 + int(dg[13])
	// years 0000/0001 are within a zone offset of the zero instant (the 'no value' date-time): excluded
	verifAssume(y >= 2 && verifValidDate(y, mo, dd) && h <= 23 && mi <= 59 && s <= 59)
	t := time.Date(y, time.Month(mo), dd, h, mi, s, 0, time.Local)
	if c01SetTimeConfigured {
		vConfigure(u, id, "udp")
	}
	u.SetTime(id, t)
	want := specReq(0x30, id)
	for i := 0; i < 7; i++ {
		want[8+i] = dg[2*i]<<4 | dg[2*i+1]
	}
	c01Check(d, want, "SetTime")
}

// the same for a controller that is configured with a time zone (nil, UTC or the process zone): the request
// carries the wall clock of the argument
var c01SetTimeConfigured bool

func VerifC01_SetTimeConfigured() {
	c01SetTimeConfigured = true
	defer func() { c01SetTimeConfigured = false }()
	VerifC01_SetTime()
}

// the same for a controller configured with its own time zone (any two-interval zone, the process zone is UTC):
// the request still carries the wall clock fields of the argument
func VerifC01_SetTimeControllerZone() {
	d, u := c01Driver()
	id := nondetSerial("id")
	dg := nondetBytes("dt.digits", 14) // YYYYMMDDHHmmss
	for i := 0; i < 14; i++ {
		verifAssume(dg[i] <= 9)
	}
	y := int(dg[0])*1000 + int(dg[1])*100 + int(dg[2])*10 + int(dg[3])
	mo := int(dg[4])*10 + int(dg[5])
	dd := int(dg[6])*10 + int(dg[7])
	h := int(dg[8])*10 + int(dg[9])
	mi := int(dg[10])*10 + int(dg[11])
	s := int(dg[12])*10 + int(dg[13])
	verifAssume(y >= 2 && verifValidDate(y, mo, dd) && h <= 23 && mi <= 59 && s <= 59)
	loc := verifControllerZoneAt(y, mo, dd)
	t := time.Date(y, time.Month(mo), dd, h, mi, s, 0, time.Local)
	u.devices[id] = Device{Name: "alpha", DeviceID: id, Address: types.ControllerAddrFrom(netip.AddrFrom4([4]byte{192, 168, 1, 100}), 60000), Protocol: "udp", TimeZone: loc}
	u.SetTime(id, t)
	want := specReq(0x30, id)
	for i := 0; i < 7; i++ {
		want[8+i] = dg[2*i]<<4 | dg[2*i+1]
	}
	c01Check(d, want, "SetTime (controller zone)")
}

func VerifC01_GetDoorControlState() {
	d, u := c01Driver()
	id := nondetSerial("id")
	door := nondetU8("door")
	u.GetDoorControlState(id, door)
	want := specReq(0x82, id)
	want[8] = door
	c01Check(d, want, "GetDoorControlState")
}

func VerifC01_SetDoorControlState() {
	d, u := c01Driver()
	id := nondetSerial("id")
	door, state, delay := nondetU8("door"), nondetU8("state"), nondetU8("delay")
	u.SetDoorControlState(id, door, types.ControlState(state), delay)
	want := specReq(0x80, id)
	want[8], want[9], want[10] = door, state, delay
	c01Check(d, want, "SetDoorControlState")
}

func VerifC01_GetStatus() {
	d, u := c01Driver()
	id := nondetSerial("id")
	u.GetStatus(id)
	c01Check(d, specReq(0x20, id), "GetStatus")
}

func VerifC01_GetCards() {
	d, u := c01Driver()
	id := nondetSerial("id")
	u.GetCards(id)
	c01Check(d, specReq(0x58, id), "GetCards")
}

func VerifC01_GetCardByIndex() {
	d, u := c01Driver()
	id := nondetSerial("id")
	index := nondetU32("index")
	u.GetCardByIndex(id, index)
	want := specReq(0x5c, id)
	specPut32(want, 8, index)
	c01Check(d, want, "GetCardByIndex")
}

func VerifC01_GetCardByID() {
	d, u := c01Driver()
	id := nondetSerial("id")
	card := nondetU32("card")
	u.GetCardByID(id, card)
	want := specReq(0x5a, id)
	specPut32(want, 8, card)
	c01Check(d, want, "GetCardByID")
}

func VerifC01_PutCard() {
	verifZone(1)
	d, u := c01Driver()
	id := nondetSerial("id")
	card := nondetU32("card")
	pin := nondetU32("pin")
	verifAssume(card != 0 && card != 0xffffffff && card != 0x00ffffff && pin <= 999999)
	from, to := nondetDate("from"), nondetDate("to")
	doors, wd := nondetDoors("doors")
	u.PutCard(id, types.Card{CardNumber: card, From: from.date, To: to.date, Doors: doors, PIN: types.PIN(pin)})
	want := specReq(0x50, id)
	specPut32(want, 8, card)
	copy(want[12:16], from.bcd[:])
	copy(want[16:20], to.bcd[:])
	want[20], want[21], want[22], want[23] = wd[1], wd[2], wd[3], wd[4]
	want[24], want[25], want[26] = byte(pin), byte(pin>>8), byte(pin>>16)
	c01Check(d, want, "PutCard")
}

func VerifC01_DeleteCard() {
	d, u := c01Driver()
	id := nondetSerial("id")
	card := nondetU32("card")
	u.DeleteCard(id, card)
	want := specReq(0x52, id)
	specPut32(want, 8, card)
	c01Check(d, want, "DeleteCard")
}

func c01Magic8(fn byte, id uint32) []byte {
	want := specReq(fn, id)
	specMagic(want, 8)
	return want
}

func VerifC01_DeleteCards() {
	d, u := c01Driver()
	id := nondetSerial("id")
	u.DeleteCards(id)
	c01Check(d, c01Magic8(0x54, id), "DeleteCards")
}

func VerifC01_GetTimeProfile() {
	d, u := c01Driver()
	id := nondetSerial("id")
	profile := nondetU8("profile")
	u.GetTimeProfile(id, profile)
	want := specReq(0x98, id)
	want[8] = profile
	c01Check(d, want, "GetTimeProfile")
}

func VerifC01_SetTimeProfile() {
	verifZone(1)
	d, u := c01Driver()
	id := nondetSerial("id")
	profile, linked := nondetU8("profile"), nondetU8("linked")
	from, to := nondetValidDate("from"), nondetValidDate("to")
	weekdays, ww := nondetWeekdays("weekdays")
	var seg [7]vHHmm
	segments := types.Segments{}
	for k := 1; k <= 3; k++ {
		seg[2*k-1] = nondetHHmm(keyTag("start", k))
		seg[2*k] = nondetHHmm(keyTag("end", k))
		// accepted only when the segment does not end before it starts
		verifAssume(seg[2*k].h > seg[2*k-1].h || (seg[2*k].h == seg[2*k-1].h && seg[2*k].m >= seg[2*k-1].m))
		segments[uint8(k)] = types.Segment{Start: seg[2*k-1].t, End: seg[2*k].t}
	}
	u.SetTimeProfile(id, types.TimeProfile{ID: profile, LinkedProfileID: linked, From: from.date, To: to.date, Weekdays: weekdays, Segments: segments})
	want := specReq(0x88, id)
	want[8] = profile
	copy(want[9:13], from.bcd[:])
	copy(want[13:17], to.bcd[:])
	specPutBool(want, 17, ww[time.Monday])
	specPutBool(want, 18, ww[time.Tuesday])
	specPutBool(want, 19, ww[time.Wednesday])
	specPutBool(want, 20, ww[time.Thursday])
	specPutBool(want, 21, ww[time.Friday])
	specPutBool(want, 22, ww[time.Saturday])
	specPutBool(want, 23, ww[time.Sunday])
	for k := 1; k <= 6; k++ {
		want[22+2*k], want[23+2*k] = seg[k].bcd[0], seg[k].bcd[1]
	}
	want[36] = linked
	c01Check(d, want, "SetTimeProfile")
}

func VerifC01_ClearTimeProfiles() {
	d, u := c01Driver()
	id := nondetSerial("id")
	u.ClearTimeProfiles(id)
	c01Check(d, c01Magic8(0x8a, id), "ClearTimeProfiles")
}

func VerifC01_ClearTaskList() {
	d, u := c01Driver()
	id := nondetSerial("id")
	u.ClearTaskList(id)
	c01Check(d, c01Magic8(0xa6, id), "ClearTaskList")
}

func VerifC01_AddTask() {
	verifZone(1)
	d, u := c01Driver()
	id := nondetSerial("id")
	from, to := nondetDate("from"), nondetDate("to")
	weekdays, ww := nondetWeekdays("weekdays")
	start := nondetHHmm("start")
	door, task, cards := nondetU8("door"), nondetU8("task"), nondetU8("cards")
	u.AddTask(id, types.Task{Task: types.TaskType(task), Door: door, From: from.date, To: to.date, Weekdays: weekdays, Start: start.t, Cards: cards})
	want := specReq(0xa8, id)
	copy(want[8:12], from.bcd[:])
	copy(want[12:16], to.bcd[:])
	specPutBool(want, 16, ww[time.Monday])
	specPutBool(want, 17, ww[time.Tuesday])
	specPutBool(want, 18, ww[time.Wednesday])
	specPutBool(want, 19, ww[time.Thursday])
	specPutBool(want, 20, ww[time.Friday])
	specPutBool(want, 21, ww[time.Saturday])
	specPutBool(want, 22, ww[time.Sunday])
	want[23], want[24] = start.bcd[0], start.bcd[1]
	want[25], want[26], want[27] = door, task, cards
	c01Check(d, want, "AddTask")
}

func VerifC01_RefreshTaskList() {
	d, u := c01Driver()
	id := nondetSerial("id")
	u.RefreshTaskList(id)
	c01Check(d, c01Magic8(0xac, id), "RefreshTaskList")
}

func VerifC01_RecordSpecialEvents() {
	d, u := c01Driver()
	id := nondetSerial("id")
	enable := nondetBool("enable")
	u.RecordSpecialEvents(id, enable)
	want := specReq(0x8e, id)
	specPutBool(want, 8, enable)
	c01Check(d, want, "RecordSpecialEvents")
}

func VerifC01_GetEvent() {
	d, u := c01Driver()
	id := nondetSerial("id")
	index := nondetU32("index")
	u.GetEvent(id, index)
	want := specReq(0xb0, id)
	specPut32(want, 8, index)
	c01Check(d, want, "GetEvent")
}

func VerifC01_GetEventIndex() {
	d, u := c01Driver()
	id := nondetSerial("id")
	u.GetEventIndex(id)
	c01Check(d, specReq(0xb4, id), "GetEventIndex")
}

func VerifC01_SetEventIndex() {
	d, u := c01Driver()
	id := nondetSerial("id")
	index := nondetU32("index")
	u.SetEventIndex(id, index)
	want := specReq(0xb2, id)
	specPut32(want, 8, index)
	specMagic(want, 12)
	c01Check(d, want, "SetEventIndex")
}

func c01Passcodes(n int) {
	d, u := c01Driver()
	id := nondetSerial("id")
	door := nondetU8("door")
	verifAssume(door >= 1 && door <= 4)
	codes := make([]uint32, n)
	for i := range codes {
		codes[i] = nondetU32(keyTag("code", i))
	}
	u.SetDoorPasscodes(id, door, codes...)
	want := specReq(0x8c, id)
	want[8] = door
	for i := 0; i < 4 && i < n; i++ {
		if codes[i] <= 999999 {
			specPut32(want, 12+4*i, codes[i])
		}
	}
	c01Check(d, want, "SetDoorPasscodes")
}

func VerifC01_SetDoorPasscodes0() { c01Passcodes(0) }
func VerifC01_SetDoorPasscodes1() { c01Passcodes(1) }
func VerifC01_SetDoorPasscodes3() { c01Passcodes(3) }
func VerifC01_SetDoorPasscodes4() { c01Passcodes(4) }
func VerifC01_SetDoorPasscodes6() { c01Passcodes(6) }

func VerifC01_OpenDoor() {
	d, u := c01Driver()
	id := nondetSerial("id")
	door := nondetU8("door")
	u.OpenDoor(id, door)
	want := specReq(0x40, id)
	want[8] = door
	c01Check(d, want, "OpenDoor")
}

func VerifC01_SetPCControl() {
	d, u := c01Driver()
	id := nondetSerial("id")
	enable := nondetBool("enable")
	u.SetPCControl(id, enable)
	want := c01Magic8(0xa0, id)
	specPutBool(want, 12, enable)
	c01Check(d, want, "SetPCControl")
}

func VerifC01_SetInterlock() {
	d, u := c01Driver()
	id := nondetSerial("id")
	interlock := nondetU8("interlock")
	u.SetInterlock(id, types.Interlock(interlock))
	want := specReq(0xa2, id)
	want[8] = interlock
	c01Check(d, want, "SetInterlock")
}

func VerifC01_ActivateKeypads() {
	d, u := c01Driver()
	id := nondetSerial("id")
	readers, wr := nondetBoolMap("readers")
	u.ActivateKeypads(id, readers)
	want := specReq(0xa4, id)
	specPutBool(want, 8, wr[1])
	specPutBool(want, 9, wr[2])
	specPutBool(want, 10, wr[3])
	specPutBool(want, 11, wr[4])
	c01Check(d, want, "ActivateKeypads")
}

func VerifC01_RestoreDefaultParameters() {
	d, u := c01Driver()
	id := nondetSerial("id")
	u.RestoreDefaultParameters(id)
	c01Check(d, c01Magic8(0xc8, id), "RestoreDefaultParameters")
}

// a configured controller whose transport fails (no reply, refused): still exactly one request, and the same bytes
func c01Configured(proto string) {
	d := &vDriver{err: errVerifNoReply}
	u := vClient(d)
	id := nondetSerial("id")
	u.devices[id] = Device{Name: "alpha", DeviceID: id, Address: types.ControllerAddrFrom(netip.AddrFrom4([4]byte{192, 168, 1, 100}), 60000), Protocol: proto}
	door := nondetU8("door")
	_, err := u.OpenDoor(id, door)
	verifAssert(err != nil, "OpenDoor: a failed exchange is reported")
	want := specReq(0x40, id)
	want[8] = door
	c01Check(d, want, "OpenDoor (configured "+proto+")")
}

func VerifC01_ConfiguredUDPFails() { c01Configured("udp") }
func VerifC01_ConfiguredTCPFails() { c01Configured("tcp") }

// ---- the history half: the same harnesses after an earlier call (quick: six operations, thorough: all)

func VerifC01_T_History_GetDevices() {
	c01History = true
	defer func() { c01History = false }()
	VerifC01_GetDevices()
}

func VerifC01_T_History_GetDevice() {
	c01History = true
	defer func() { c01History = false }()
	VerifC01_GetDevice()
}

func VerifC01_T_History_SetAddress() {
	c01History = true
	defer func() { c01History = false }()
	VerifC01_SetAddress()
}

func VerifC01_T_History_GetListener() {
	c01History = true
	defer func() { c01History = false }()
	VerifC01_GetListener()
}

func VerifC01_T_History_SetListener() {
	c01History = true
	defer func() { c01History = false }()
	VerifC01_SetListener()
}

func VerifC01_T_History_GetTime() {
	c01History = true
	defer func() { c01History = false }()
	VerifC01_GetTime()
}

func VerifC01_History_SetTime() {
	c01History = true
	defer func() { c01History = false }()
	VerifC01_SetTime()
}

func VerifC01_T_History_GetDoorControlState() {
	c01History = true
	defer func() { c01History = false }()
	VerifC01_GetDoorControlState()
}

func VerifC01_T_History_SetDoorControlState() {
	c01History = true
	defer func() { c01History = false }()
	VerifC01_SetDoorControlState()
}

func VerifC01_T_History_GetStatus() {
	c01History = true
	defer func() { c01History = false }()
	VerifC01_GetStatus()
}

func VerifC01_T_History_GetCards() {
	c01History = true
	defer func() { c01History = false }()
	VerifC01_GetCards()
}

func VerifC01_T_History_GetCardByIndex() {
	c01History = true
	defer func() { c01History = false }()
	VerifC01_GetCardByIndex()
}

func VerifC01_History_GetCardByID() {
	c01History = true
	defer func() { c01History = false }()
	VerifC01_GetCardByID()
}

func VerifC01_History_PutCard() {
	c01History = true
	defer func() { c01History = false }()
	VerifC01_PutCard()
}

func VerifC01_T_History_DeleteCard() {
	c01History = true
	defer func() { c01History = false }()
	VerifC01_DeleteCard()
}

func VerifC01_T_History_DeleteCards() {
	c01History = true
	defer func() { c01History = false }()
	VerifC01_DeleteCards()
}

func VerifC01_T_History_GetTimeProfile() {
	c01History = true
	defer func() { c01History = false }()
	VerifC01_GetTimeProfile()
}

func VerifC01_History_SetTimeProfile() {
	c01History = true
	defer func() { c01History = false }()
	VerifC01_SetTimeProfile()
}

func VerifC01_T_History_ClearTimeProfiles() {
	c01History = true
	defer func() { c01History = false }()
	VerifC01_ClearTimeProfiles()
}

func VerifC01_T_History_ClearTaskList() {
	c01History = true
	defer func() { c01History = false }()
	VerifC01_ClearTaskList()
}

func VerifC01_History_AddTask() {
	c01History = true
	defer func() { c01History = false }()
	VerifC01_AddTask()
}

func VerifC01_T_History_RefreshTaskList() {
	c01History = true
	defer func() { c01History = false }()
	VerifC01_RefreshTaskList()
}

func VerifC01_T_History_RecordSpecialEvents() {
	c01History = true
	defer func() { c01History = false }()
	VerifC01_RecordSpecialEvents()
}

func VerifC01_T_History_GetEvent() {
	c01History = true
	defer func() { c01History = false }()
	VerifC01_GetEvent()
}

func VerifC01_T_History_GetEventIndex() {
	c01History = true
	defer func() { c01History = false }()
	VerifC01_GetEventIndex()
}

func VerifC01_T_History_SetEventIndex() {
	c01History = true
	defer func() { c01History = false }()
	VerifC01_SetEventIndex()
}

func VerifC01_T_History_SetDoorPasscodes0() {
	c01History = true
	defer func() { c01History = false }()
	VerifC01_SetDoorPasscodes0()
}

func VerifC01_T_History_SetDoorPasscodes1() {
	c01History = true
	defer func() { c01History = false }()
	VerifC01_SetDoorPasscodes1()
}

func VerifC01_T_History_SetDoorPasscodes3() {
	c01History = true
	defer func() { c01History = false }()
	VerifC01_SetDoorPasscodes3()
}

func VerifC01_T_History_SetDoorPasscodes4() {
	c01History = true
	defer func() { c01History = false }()
	VerifC01_SetDoorPasscodes4()
}

func VerifC01_T_History_SetDoorPasscodes6() {
	c01History = true
	defer func() { c01History = false }()
	VerifC01_SetDoorPasscodes6()
}

func VerifC01_History_OpenDoor() {
	c01History = true
	defer func() { c01History = false }()
	VerifC01_OpenDoor()
}

func VerifC01_T_History_SetPCControl() {
	c01History = true
	defer func() { c01History = false }()
	VerifC01_SetPCControl()
}

func VerifC01_T_History_SetInterlock() {
	c01History = true
	defer func() { c01History = false }()
	VerifC01_SetInterlock()
}

func VerifC01_T_History_ActivateKeypads() {
	c01History = true
	defer func() { c01History = false }()
	VerifC01_ActivateKeypads()
}

func VerifC01_T_History_RestoreDefaultParameters() {
	c01History = true
	defer func() { c01History = false }()
	VerifC01_RestoreDefaultParameters()
}
