// verif:properties C03 C09
package uhppote

// C03 - only a well-formed reply from the addressed controller is ever accepted.
//
// Seam level: the driver hands the library's real receive filter a sequence of k datagrams of symbolic
// length (0..2048) and content, or one such datagram on the directed routes.

import (
	"net/netip"

	"github.com/uhppoted/uhppote-core/types"
)

const c03Max = 2048

// wellFormedHeader: 64 bytes, protocol id 0x17 (0x19 only for the status/event function 0x20), function code, serial number.
func c03Mine(m []byte, id uint32) bool {
	return len(m) == 64 && specGet32(m, 4) == id
}

func c03HeaderOK(m []byte, fn byte) bool {
	return (m[0] == 0x17 || (m[0] == 0x19 && m[1] == 0x20)) && m[1] == fn
}

type c03Op struct {
	fn   byte
	name string
	// call performs the operation and reports (ok, err): ok = a result was reported; check compares the
	// result with the decoding of datagram m
	call func(u *uhppote, id uint32) (bool, error)
}

var c03Result struct {
	u32  uint32
	flag bool
	st   *types.Status
}

func c03GetCards() c03Op {
	return c03Op{0x58, "GetCards", func(u *uhppote, id uint32) (bool, error) {
		n, err := u.GetCards(id)
		c03Result.u32 = n
		return err == nil, err
	}}
}

func c03OpenDoor() c03Op {
	return c03Op{0x40, "OpenDoor", func(u *uhppote, id uint32) (bool, error) {
		r, err := u.OpenDoor(id, 3)
		if r != nil {
			c03Result.flag = r.Succeeded
			c03Result.u32 = uint32(r.SerialNumber)
		}
		return err == nil && r != nil, err
	}}
}

func c03GetStatus() c03Op {
	return c03Op{0x20, "GetStatus", func(u *uhppote, id uint32) (bool, error) {
		r, err := u.GetStatus(id)
		c03Result.st = r
		return err == nil && r != nil, err
	}}
}

// content check: the reported result is the decoding of datagram m (and of no other datagram)
func c03Content(op c03Op, m []byte, id uint32) {
	switch op.fn {
	case 0x58:
		verifAssert(c03Result.u32 == specGet32(m, 8), op.name+": the result is decoded from the accepted datagram")
	case 0x40:
		verifAssert(c03Result.u32 == id && c03Result.flag == (m[8] == 1), op.name+": the result is decoded from the accepted datagram")
	case 0x20:
		st := c03Result.st
		verifAssert(uint32(st.SerialNumber) == id && st.SequenceId == specGet32(m, 40) && st.SystemError == m[36] && st.RelayState == m[49], op.name+": the result is decoded from the accepted datagram")
	}
}

func c03Broadcast(op c03Op, k int) {
	verifZone(1)
	id := nondetSerial("id")
	seq := make([][]byte, k)
	for i := range seq {
		seq[i] = nondetBuffer(keyTag("dg", i), c03Max)
	}
	d := &vDriver{seq: seq}
	u := vClient(d)
	ok, err := op.call(u, id)
	verifObserve("ok", ok)
	verifObserve("consumed", d.consumed)
	// first datagram that is 64 bytes long and carries the serial number
	first := -1
	for i := k - 1; i >= 0; i-- {
		if c03Mine(seq[i], id) {
			first = i
		}
	}
	verifAssert(d.calls == 1 && d.method == "BroadcastTo", op.name+": one broadcast-to request")
	verifAssert(d.consumed == first, op.name+": wrong-length and wrong-serial datagrams are skipped; the first datagram from the addressed controller is the one consumed")
	if first < 0 {
		verifAssert(!ok && err != nil, op.name+": no datagram from the addressed controller: the call fails (deadline)")
	}
	for i := 0; i < k; i++ {
		if first == i {
			m := seq[i]
			if !c03HeaderOK(m, op.fn) {
				verifAssert(!ok && err != nil, op.name+": a datagram that passes as the controller's but has a wrong protocol id or function code makes the call fail")
			}
			if ok {
				verifAssert(c03HeaderOK(m, op.fn), op.name+": a result is only reported for a well-formed reply")
				c03Content(op, m, id)
			}
		}
	}
	verifReach("c03.broadcast." + op.name)
}

func c03Directed(op c03Op, proto string) {
	verifZone(1)
	id := nondetSerial("id")
	m := nondetBuffer("reply", c03Max)
	d := &vDriver{reply: m}
	u := vClient(d)
	u.devices[id] = Device{Name: "alpha", DeviceID: id, Address: types.ControllerAddrFrom(netip.AddrFrom4([4]byte{192, 168, 1, 100}), 60000), Protocol: proto}
	ok, err := op.call(u, id)
	verifObserve("ok", ok)
	want := "SendUDP"
	if proto == "tcp" {
		want = "SendTCP"
	}
	verifAssert(d.calls == 1 && d.method == want, op.name+": one directed request")
	if !c03Mine(m, id) {
		verifAssert(!ok && err != nil, op.name+": on a directed route any wrong-length or wrong-serial datagram makes the call fail")
	} else if !c03HeaderOK(m, op.fn) {
		verifAssert(!ok && err != nil, op.name+": a wrong protocol id or function code makes the call fail")
	}
	if ok {
		verifAssert(c03Mine(m, id) && c03HeaderOK(m, op.fn), op.name+": a result is only reported for a well-formed reply from the addressed controller")
		c03Content(op, m, id)
	}
	verifReach("c03.directed." + op.name)
}

func VerifC03_BroadcastGetCards2()  { c03Broadcast(c03GetCards(), 2) }
func VerifC03_BroadcastOpenDoor2()  { c03Broadcast(c03OpenDoor(), 2) }
func VerifC03_BroadcastGetStatus1() { c03Broadcast(c03GetStatus(), 1) }
func VerifC03_UDPGetCards()         { c03Directed(c03GetCards(), "udp") }
func VerifC03_TCPGetCards()         { c03Directed(c03GetCards(), "tcp") }
func VerifC03_UDPOpenDoor()         { c03Directed(c03OpenDoor(), "udp") }

func VerifC03_T_BroadcastGetCards3()  { c03Broadcast(c03GetCards(), 3) }
func VerifC03_T_BroadcastGetCards4()  { c03Broadcast(c03GetCards(), 4) }
func VerifC03_T_BroadcastOpenDoor4()  { c03Broadcast(c03OpenDoor(), 4) }
func VerifC03_T_BroadcastGetStatus2() { c03Broadcast(c03GetStatus(), 2) }
func VerifC03_T_TCPGetStatus()        { c03Directed(c03GetStatus(), "tcp") }
func VerifC03_T_UDPGetStatus()        { c03Directed(c03GetStatus(), "udp") }

// SetAddress: controllers do not reply; the call succeeds once the request is sent and consumes no datagram
func VerifC03_SetAddress() {
	id := nondetSerial("id")
	d := &vDriver{seq: [][]byte{nondetBuffer("dg", c03Max)}, reply: nondetBuffer("reply", c03Max)}
	u := vClient(d)
	if nondetBool("configured") {
		proto := "udp"
		if nondetBool("tcp") {
			proto = "tcp"
		}
		u.devices[id] = Device{DeviceID: id, Address: types.ControllerAddrFrom(netip.AddrFrom4([4]byte{192, 168, 1, 100}), 60000), Protocol: proto}
	}
	res, err := u.SetAddress(id, []byte{192, 168, 1, 101}, []byte{255, 255, 255, 0}, []byte{192, 168, 1, 1})
	verifAssert(err == nil && res != nil && res.Succeeded && uint32(res.SerialNumber) == id, "SetAddress: succeeds once the request is sent")
	verifAssert(d.calls == 1, "SetAddress: one request")
	verifAssert(d.method != "BroadcastTo" || d.consumed == -1, "SetAddress: never consumes a datagram")
	verifReach("c03.SetAddress")
}

// ---- every reply-bearing operation: a result is only reported for a well-formed reply from the
// addressed controller, on the broadcast route (one datagram) and on the directed route

func c03AllOps(directed bool) {
	verifZone(1)
	ops := vOps()
	op := ops[nondetEnum("op", len(ops))]
	id := nondetSerial("id")
	m := nondetBuffer("dg", c03Max)
	d := &vDriver{seq: [][]byte{m}, reply: m}
	u := vClient(d)
	if directed {
		u.devices[id] = Device{Name: "alpha", DeviceID: id, Address: types.ControllerAddrFrom(netip.AddrFrom4([4]byte{192, 168, 1, 100}), 60000), Protocol: "udp"}
	}
	ok, err := op.call(u, id)
	verifAssert(d.calls == 1, op.name+": one request")
	if !c03Mine(m, id) || !c03HeaderOK(m, op.fn) {
		verifAssert(!ok && err != nil, op.name+": a datagram of the wrong length, serial number, protocol id or function code never yields a result")
	}
	if ok {
		verifAssert(c03Mine(m, id) && c03HeaderOK(m, op.fn), op.name+": a result is only reported for a well-formed reply from the addressed controller")
	}
	verifReach("c03.allops")
}

func VerifC03_AllOpsBroadcast() { c03AllOps(false) }
func VerifC03_AllOpsDirected()  { c03AllOps(true) }

// "... a datagram that passes as S's but has a malformed field makes the call fail": a date or date-time field
// of the reply that contains a non-decimal BCD nibble (the rest of the reply arbitrary), on the broadcast and on
// the directed routes.  (Fields whose out-of-domain values come back as their zero value instead - impossible
// calendar dates, HH:mm - are C02's subject.)
func VerifC03_MalformedDateField() {
	type fld struct {
		op       string
		off, len int
	}
	fields := []fld{
		{"GetCardByID", 12, 4}, {"GetCardByID", 16, 4}, {"GetCardByIndex", 12, 4}, {"GetCardByIndex", 16, 4},
		{"GetTime", 8, 7}, {"GetEvent", 20, 7}, {"GetTimeProfile", 9, 4}, {"GetTimeProfile", 13, 4}, {"GetStatus", 20, 7},
	}
	f := fields[nondetEnum("field", len(fields))]
	var op vOp
	for _, o := range vOps() {
		if o.name == f.op {
			op = o
		}
	}
	verifZone(1)
	id := nondetSerial("id")
	m := nondetBytes("reply", 64)
	verifAssume(m[0] == 0x17 && m[1] == op.fn && specGet32(m, 4) == id)
	bad := false
	for i := f.off; i < f.off+f.len; i++ {
		if m[i]>>4 > 9 || m[i]&0x0f > 9 {
			bad = true
		}
	}
	verifAssume(bad)
	u := vClient(nil)
	switch nondetEnum("route", 3) {
	case 0:
		u.driver = &vDriver{seq: [][]byte{m}}
	case 1:
		u.driver = &vDriver{reply: m}
		u.devices[id] = Device{DeviceID: id, Address: types.ControllerAddrFrom(netip.AddrFrom4([4]byte{192, 168, 1, 100}), 60000), Protocol: "udp"}
	default:
		u.driver = &vDriver{reply: m}
		u.devices[id] = Device{DeviceID: id, Address: types.ControllerAddrFrom(netip.AddrFrom4([4]byte{192, 168, 1, 100}), 60000), Protocol: "tcp"}
	}
	ok, err := op.call(u, id)
	verifAssert(!ok && err != nil, f.op+": a reply that passes as the controller's but has a non-decimal date field makes the call fail")
	verifReach("c03.malformed")
}

// C09: "... never gives up early": on the broadcast route a datagram from another controller, or of the wrong
// length, does not end the call - the reply that follows is still accepted
func VerifC09_BroadcastKeepsWaitingForItsController() { c03Broadcast(c03GetCards(), 2) }
