// verif:properties C07 C16
package uhppote

// C07 - invalid arguments are rejected before anything is sent; a call is rejected only for the
// documented reasons.  "Rejected" is observed at the transport: the driver's call counter stays 0.

import (
	"net"
	"net/netip"
	"time"

	"github.com/uhppoted/uhppote-core/types"
)

func c07Driver() (*vDriver, *uhppote) {
	d := &vDriver{err: errVerifNoReply}
	return d, vClient(d)
}

func c07Check(d *vDriver, err error, wantReject bool, what string) {
	rejected := d.calls == 0
	verifObserve("rejected", rejected)
	verifAssert(rejected == wantReject, what+": rejected exactly for the documented reasons")
	if rejected {
		verifAssert(err != nil, what+": a rejected call returns an error")
	} else {
		verifAssert(d.calls == 1, what+": an accepted call sends exactly one request")
	}
	verifReach("c07." + what)
}

// ---- controller id 0 is rejected by every operation that takes one

func VerifC07_IdGetDevice() {
	d, u := c07Driver()
	id := nondetU32("id")
	_, err := u.GetDevice(id)
	c07Check(d, err, id == 0, "GetDevice")
}

func VerifC07_IdGetListener() {
	d, u := c07Driver()
	id := nondetU32("id")
	_, _, err := u.GetListener(id)
	c07Check(d, err, id == 0, "GetListener")
}

func VerifC07_IdGetTime() {
	d, u := c07Driver()
	id := nondetU32("id")
	_, err := u.GetTime(id)
	c07Check(d, err, id == 0, "GetTime")
}

func VerifC07_IdSetTime() {
	verifZone(1)
	d, u := c07Driver()
	id := nondetU32("id")
	_, err := u.SetTime(id, time.Date(2024, time.February, 29, 12, 34, 56, 0, time.Local))
	c07Check(d, err, id == 0, "SetTime")
}

func VerifC07_IdGetDoorControlState() {
	d, u := c07Driver()
	id := nondetU32("id")
	_, err := u.GetDoorControlState(id, nondetU8("door"))
	c07Check(d, err, id == 0, "GetDoorControlState")
}

func VerifC07_IdSetDoorControlState() {
	d, u := c07Driver()
	id := nondetU32("id")
	_, err := u.SetDoorControlState(id, nondetU8("door"), types.ControlState(nondetInt("state")), nondetU8("delay"))
	c07Check(d, err, id == 0, "SetDoorControlState")
}

func VerifC07_IdGetStatus() {
	d, u := c07Driver()
	id := nondetU32("id")
	_, err := u.GetStatus(id)
	c07Check(d, err, id == 0, "GetStatus")
}

func VerifC07_IdGetCards() {
	d, u := c07Driver()
	id := nondetU32("id")
	_, err := u.GetCards(id)
	c07Check(d, err, id == 0, "GetCards")
}

func VerifC07_IdGetCardByIndex() {
	d, u := c07Driver()
	id := nondetU32("id")
	_, err := u.GetCardByIndex(id, nondetU32("index"))
	c07Check(d, err, id == 0, "GetCardByIndex")
}

func VerifC07_IdGetCardByID() {
	d, u := c07Driver()
	id := nondetU32("id")
	_, err := u.GetCardByID(id, nondetU32("card"))
	c07Check(d, err, id == 0, "GetCardByID")
}

func VerifC07_IdDeleteCard() {
	d, u := c07Driver()
	id := nondetU32("id")
	_, err := u.DeleteCard(id, nondetU32("card"))
	c07Check(d, err, id == 0, "DeleteCard")
}

func VerifC07_IdDeleteCards() {
	d, u := c07Driver()
	id := nondetU32("id")
	_, err := u.DeleteCards(id)
	c07Check(d, err, id == 0, "DeleteCards")
}

func VerifC07_IdGetTimeProfile() {
	d, u := c07Driver()
	id := nondetU32("id")
	_, err := u.GetTimeProfile(id, nondetU8("profile"))
	c07Check(d, err, id == 0, "GetTimeProfile")
}

func VerifC07_IdClearTimeProfiles() {
	d, u := c07Driver()
	id := nondetU32("id")
	_, err := u.ClearTimeProfiles(id)
	c07Check(d, err, id == 0, "ClearTimeProfiles")
}

func VerifC07_IdClearTaskList() {
	d, u := c07Driver()
	id := nondetU32("id")
	_, err := u.ClearTaskList(id)
	c07Check(d, err, id == 0, "ClearTaskList")
}

func VerifC07_IdAddTask() {
	verifZone(1)
	d, u := c07Driver()
	id := nondetU32("id")
	from, to := nondetDate("from"), nondetDate("to")
	_, err := u.AddTask(id, types.Task{Task: types.TaskType(nondetInt("task")), Door: nondetU8("door"), From: from.date, To: to.date, Start: nondetHHmm("start").t, Cards: nondetU8("cards")})
	c07Check(d, err, id == 0, "AddTask")
}

func VerifC07_IdRefreshTaskList() {
	d, u := c07Driver()
	id := nondetU32("id")
	_, err := u.RefreshTaskList(id)
	c07Check(d, err, id == 0, "RefreshTaskList")
}

func VerifC07_IdRecordSpecialEvents() {
	d, u := c07Driver()
	id := nondetU32("id")
	_, err := u.RecordSpecialEvents(id, nondetBool("enable"))
	c07Check(d, err, id == 0, "RecordSpecialEvents")
}

func VerifC07_IdGetEvent() {
	d, u := c07Driver()
	id := nondetU32("id")
	_, err := u.GetEvent(id, nondetU32("index"))
	c07Check(d, err, id == 0, "GetEvent")
}

func VerifC07_IdGetEventIndex() {
	d, u := c07Driver()
	id := nondetU32("id")
	_, err := u.GetEventIndex(id)
	c07Check(d, err, id == 0, "GetEventIndex")
}

func VerifC07_IdSetEventIndex() {
	d, u := c07Driver()
	id := nondetU32("id")
	_, err := u.SetEventIndex(id, nondetU32("index"))
	c07Check(d, err, id == 0, "SetEventIndex")
}

func VerifC07_IdOpenDoor() {
	d, u := c07Driver()
	id := nondetU32("id")
	_, err := u.OpenDoor(id, nondetU8("door"))
	c07Check(d, err, id == 0, "OpenDoor")
}

func VerifC07_IdSetPCControl() {
	d, u := c07Driver()
	id := nondetU32("id")
	_, err := u.SetPCControl(id, nondetBool("enable"))
	c07Check(d, err, id == 0, "SetPCControl")
}

func VerifC07_IdSetInterlock() {
	d, u := c07Driver()
	id := nondetU32("id")
	_, err := u.SetInterlock(id, types.Interlock(nondetU8("interlock")))
	c07Check(d, err, id == 0, "SetInterlock")
}

func VerifC07_IdActivateKeypads() {
	d, u := c07Driver()
	id := nondetU32("id")
	readers, _ := nondetBoolMap("readers")
	_, err := u.ActivateKeypads(id, readers)
	c07Check(d, err, id == 0, "ActivateKeypads")
}

func VerifC07_IdRestoreDefaultParameters() {
	d, u := c07Driver()
	id := nondetU32("id")
	_, err := u.RestoreDefaultParameters(id)
	c07Check(d, err, id == 0, "RestoreDefaultParameters")
}

// ---- PutCard

// specWiegand26: facility code 0..255 followed by a five-digit number 0..65535.  fc/cn are the
// (unique) witnesses of card = fc*100000 + cn, cn < 100000, so that the oracle needs no division.
func c07Wiegand26(card uint32) bool {
	fc := nondetU32("w26.facility")
	cn := nondetU32("w26.number")
	verifAssume(cn < 100000 && fc <= 42949 && uint64(fc)*100000+uint64(cn) == uint64(card))
	return fc <= 255 && cn <= 65535
}

var c07Earlier bool

func c07PutCard(nformats int) {
	verifZone(1)
	d, u := c07Driver()
	if c07Earlier {
		// an earlier PutCard with its own card number (possibly the same one) and format list: the verdict of
		// the call under test must not depend on it
		ef := types.CardFormat(nondetU8("earlier.format"))
		u.PutCard(nondetU32("earlier.id"), types.Card{CardNumber: nondetU32("earlier.card"), From: types.ToDate(2024, time.January, 31), To: types.ToDate(2025, time.December, 1), Doors: map[uint8]uint8{1: 1}}, ef)
		d.calls = 0
	}
	id := nondetU32("id")
	card := nondetU32("card")
	pin := nondetU32("pin")
	// dates and door permissions play no part in the accept/reject decision: C01 covers their encoding
	from, to := types.ToDate(2024, time.January, 31), types.ToDate(2025, time.December, 1)
	doors := map[uint8]uint8{1: 1, 3: 29}
	formats := make([]types.CardFormat, nformats)
	formatOK := nformats == 0
	w26 := c07Wiegand26(card)
	for i := range formats {
		formats[i] = types.CardFormat(nondetU8(keyTag("format", i)))
		if formats[i] == types.WiegandAny || (formats[i] == types.Wiegand26 && w26) {
			formatOK = true
		}
	}
	_, err := u.PutCard(id, types.Card{CardNumber: card, From: from, To: to, Doors: doors, PIN: types.PIN(pin)}, formats...)
	reject := id == 0 || card == 0 || card == 0xffffffff || card == 0x00ffffff || pin > 999999 || !formatOK
	c07Check(d, err, reject, "PutCard")
}

func VerifC07_PutCard0() { c07PutCard(0) }
func VerifC07_PutCard1() { c07PutCard(1) }
func VerifC07_PutCard2() { c07PutCard(2) }

func VerifC07_T_PutCard3() { c07PutCard(3) }

func VerifC07_PutCardAfterPutCard() {
	c07Earlier = true
	defer func() { c07Earlier = false }()
	c07PutCard(1)
}

// the Wiegand-26 predicate on its own, over all 2^32 card numbers
func VerifC07_Wiegand26() {
	card := nondetU32("card")
	want := c07Wiegand26(card)
	got := isWiegand26(card)
	verifObserve("got", got)
	verifAssert(got == want, "isWiegand26: facility code 0..255 followed by a five-digit number 0..65535")
	verifReach("c07.wiegand26")
}

// ---- SetListener

func c07AddrPort() (netip.AddrPort, bool) {
	kind := nondetU8("addr.kind")
	port := nondetU16("addr.port")
	b := nondetBytes("addr.bytes", 16)
	switch kind {
	case 0: // the zero (invalid) AddrPort
		return netip.AddrPort{}, false
	case 1: // IPv4
		ok := port != 0 || (b[0] == 0 && b[1] == 0 && b[2] == 0 && b[3] == 0)
		return netip.AddrPortFrom(netip.AddrFrom4([4]byte{b[0], b[1], b[2], b[3]}), port), ok
	case 2: // 16-byte address (IPv6, IPv4-mapped IPv6 included): never acceptable
		var a [16]byte
		copy(a[:], b)
		return netip.AddrPortFrom(netip.AddrFrom16(a), port), false
	default: // invalid address with a port
		verifAssume(kind == 3)
		return netip.AddrPortFrom(netip.Addr{}, port), false
	}
}

func VerifC07_SetListener() {
	d, u := c07Driver()
	// the client's own listen address may be configured: the argument alone decides
	if nondetBool("client.listen.set") {
		u.listenAddr = types.ListenAddrFrom(netip.AddrFrom4([4]byte{nondetU8("client.listen.a"), 168, 1, 100}), nondetU16("client.listen.port"))
	}
	id := nondetU32("id")
	addr, ok := c07AddrPort()
	_, err := u.SetListener(id, addr, nondetU8("interval"))
	c07Check(d, err, id == 0 || !ok, "SetListener")
}

// ---- SetAddress

// c07IP: a net.IP of length 0..16 (nil included) with symbolic content; isV4 says whether it denotes an IPv4 address.
func c07IP(tag string) (net.IP, bool) {
	if nondetBool(tag + ".nil") {
		return nil, false
	}
	n := nondetLen(tag, 16)
	b := nondetBytes(tag, 16)
	mapped := true
	for i := 0; i < 10; i++ {
		if b[i] != 0 {
			mapped = false
		}
	}
	if b[10] != 0xff || b[11] != 0xff {
		mapped = false
	}
	return net.IP(b[:n]), n == 4 || (n == 16 && mapped)
}

func VerifC07_SetAddress() {
	d, u := c07Driver()
	d.err = nil
	id := nondetU32("id")
	addr, okA := c07IP("addr")
	mask, okM := c07IP("mask")
	gw, okG := c07IP("gw")
	_, err := u.SetAddress(id, addr, mask, gw)
	rejected := d.calls == 0
	wantReject := id == 0 || !okA || !okM || !okG
	verifAssert(rejected == wantReject, "SetAddress: rejected exactly for id 0 or a non-IPv4 value")
	if rejected {
		verifAssert(err != nil, "SetAddress: a rejected call returns an error")
	} else {
		verifAssert(err == nil && d.calls == 1, "SetAddress: an accepted call sends one request and succeeds without a reply")
	}
	verifReach("c07.SetAddress")
}

// ---- SetDoorPasscodes

func VerifC07_SetDoorPasscodes() {
	d, u := c07Driver()
	id := nondetU32("id")
	door := nondetU8("door")
	// 0..6 passcodes over all 32-bit values
	n := nondetEnum("count", 7)
	codes := make([]uint32, n)
	for i := range codes {
		codes[i] = nondetU32(keyTag("c", i+1))
	}
	_, err := u.SetDoorPasscodes(id, door, codes...)
	c07Check(d, err, id == 0 || door < 1 || door > 4, "SetDoorPasscodes")
	if d.calls == 1 && len(d.req) == 64 {
		// passcodes above 999999 and passcodes beyond the fourth are disabled (sent as 0), each in its own slot
		for k := 0; k < 4; k++ {
			want := uint32(0)
			if k < n && codes[k] <= 999999 {
				want = codes[k]
			}
			verifAssert(specGet32(d.req, 12+4*k) == want, "SetDoorPasscodes: each passcode is sent in its own slot, 0 when above 999999 or absent")
		}
		for i := 28; i < 64; i++ {
			verifAssert(d.req[i] == 0, "SetDoorPasscodes: nothing is sent beyond the fourth passcode")
		}
	}
}

// ---- SetTimeProfile

func VerifC07_SetTimeProfile() { c07SetTimeProfile(false) }

// the same over the legal HH:mm domain only (00:00..24:00): kept apart so that an implementation that goes
// through time arithmetic is still decided there
func VerifC07_SetTimeProfileLegalTimes() { c07SetTimeProfile(true) }

func c07SetTimeProfile(legal bool) {
	verifZone(1)
	d, u := c07Driver()
	id := nondetU32("id")
	from, to := nondetDate("from"), nondetDate("to")
	weekdays, _ := nondetWeekdays("weekdays")
	var segments types.Segments
	bad := false
	if nondetBool("segments.nil") {
		bad = true
	} else {
		segments = types.Segments{}
		for k := 1; k <= 3; k++ {
			sh, sm := nondetInt(keyTag("start.h", k)), nondetInt(keyTag("start.m", k))
			eh, em := nondetInt(keyTag("end.h", k)), nondetInt(keyTag("end.m", k))
			// wider than the legal 00:00..24:00 domain
			verifAssume(sh >= -9 && sh <= 99 && sm >= -9 && sm <= 99 && eh >= -9 && eh <= 99 && em >= -9 && em <= 99)
			if legal {
				verifAssume(((sh >= 0 && sh <= 23 && sm >= 0 && sm <= 59) || (sh == 24 && sm == 0)) && ((eh >= 0 && eh <= 23 && em >= 0 && em <= 59) || (eh == 24 && em == 0)))
			}
			if nondetBool(keyTag("segment.has", k)) {
				segments[uint8(k)] = types.Segment{Start: types.NewHHmm(sh, sm), End: types.NewHHmm(eh, em)}
				if eh < sh || (eh == sh && em < sm) {
					bad = true
				}
			} else {
				bad = true
			}
		}
	}
	if segments != nil {
		// entries under keys other than 1..3 are not segments of the profile: they neither stand in for a missing
		// one nor matter for the verdict
		for _, k := range []uint8{0, 4} {
			if nondetBool(keyTag("stray", int(k))) {
				segments[k] = types.Segment{Start: types.NewHHmm(nondetInt(keyTag("stray.sh", int(k))), 0), End: types.NewHHmm(nondetInt(keyTag("stray.eh", int(k))), 0)}
			}
		}
	}
	_, err := u.SetTimeProfile(id, types.TimeProfile{ID: nondetU8("profile"), LinkedProfileID: nondetU8("linked"), From: from.date, To: to.date, Weekdays: weekdays, Segments: segments})
	c07Check(d, err, id == 0 || from.zero || to.zero || bad, "SetTimeProfile")
}

// C16: the time-profile validation accepts a segment exactly when its end is not before its start
func VerifC16_SetTimeProfileSegments()           { c07SetTimeProfile(false) }
func VerifC16_SetTimeProfileSegmentsLegalTimes() { c07SetTimeProfile(true) }
