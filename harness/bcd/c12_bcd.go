// verif:properties C12
package bcd

// C12 - BCD coding is exact, total on digit strings and rejects non-decimal nibbles.
//
// Reference model (specBCD*) is written from the property text only and shares no code with
// encoding/bcd.  Lengths are program-level bounds (one harness instance per length); bytes are
// symbolic and decided by the solver.

func specIsDigit(c byte) bool { return c >= '0' && c <= '9' }

// specEncode: ceil(n/2) bytes, two digits per byte, most significant first, left pad with one zero digit.
func specEncode(s []byte) ([]byte, bool) {
	n := len(s)
	out := make([]byte, (n+1)/2)
	ok := true
	for i := 0; i < n; i++ {
		if !specIsDigit(s[i]) {
			ok = false
		}
	}
	if !ok {
		return nil, false
	}
	pad := n % 2
	for i := 0; i < n; i++ {
		d := s[i] - '0'
		pos := i + pad
		if pos%2 == 0 {
			out[pos/2] |= d << 4
		} else {
			out[pos/2] |= d
		}
	}
	return out, true
}

func specDecode(b []byte) ([]byte, bool) {
	out := make([]byte, 2*len(b))
	ok := true
	for i := 0; i < len(b); i++ {
		hi, lo := b[i]>>4, b[i]&0x0f
		if hi > 9 || lo > 9 {
			ok = false
		}
		out[2*i] = '0' + hi
		out[2*i+1] = '0' + lo
	}
	if !ok {
		return nil, false
	}
	return out, true
}

func verifC12Encode(n int) {
	s := nondetBytes("s", n)
	want, wantOK := specEncode(s)
	got, err := Encode(string(s))
	verifObserve("err", err != nil)
	verifAssert((err == nil) == wantOK, "Encode: error exactly when some character is not a decimal digit")
	verifAssert((got == nil) == (err != nil), "Encode: nil result exactly when an error is returned")
	if err == nil && got != nil && wantOK {
		verifObserve("encoded", *got)
		verifAssert(len(*got) == (n+1)/2, "Encode: length is ceil(n/2)")
		verifAssertEqBytes(*got, want, "Encode: bytes are the packed digits")
		// round trip: decoding the encoding returns the padded original
		back, err2 := Decode(*got)
		verifAssert(err2 == nil, "Decode(Encode(s)) has no error")
		padded := s
		if n%2 == 1 {
			padded = append([]byte{'0'}, s...)
		}
		verifAssertEqBytes([]byte(back), padded, "Decode(Encode(s)) is the padded original")
		verifReach("c12.encode.ok")
	} else {
		verifReach("c12.encode.err")
	}
}

func verifC12Decode(n int) {
	b := nondetBytes("b", n)
	want, wantOK := specDecode(b)
	got, err := Decode(b)
	verifObserve("err", err != nil)
	verifObserve("decoded", got)
	verifAssert((err == nil) == wantOK, "Decode: error exactly when some nibble exceeds 9")
	if err == nil && wantOK {
		verifAssert(len(got) == 2*n, "Decode: 2n digits")
		verifAssertEqBytes([]byte(got), want, "Decode: digits are the nibbles")
		// encoding a decoding returns the original bytes
		again, err2 := Encode(got)
		verifAssert(err2 == nil && again != nil, "Encode(Decode(b)) has no error")
		if again != nil {
			verifAssertEqBytes(*again, b, "Encode(Decode(b)) is b")
		}
		verifReach("c12.decode.ok")
	} else {
		verifAssert(got == "", "Decode: empty string on error")
		verifReach("c12.decode.err")
	}
}

// results depend on the current argument only: the same checks after earlier, unrelated calls
func verifC12Earlier() {
	e0 := nondetBytes("earlier.s", 5)
	Encode(string(e0))
	d0 := nondetBytes("earlier.b", 4)
	Decode(d0)
}

func VerifC12_DecodeAfter2() { verifC12Earlier(); verifC12Decode(2) }
func VerifC12_DecodeAfter3() { verifC12Earlier(); verifC12Decode(3) }
func VerifC12_EncodeAfter3() { verifC12Earlier(); verifC12Encode(3) }
func VerifC12_EncodeAfter4() { verifC12Earlier(); verifC12Encode(4) }
func VerifC12_T_DecodeAfter7() { verifC12Earlier(); verifC12Decode(7) }
func VerifC12_T_EncodeAfter8() { verifC12Earlier(); verifC12Encode(8) }

func VerifC12_Encode0() { verifC12Encode(0) }
func VerifC12_Encode1() { verifC12Encode(1) }
func VerifC12_Encode2() { verifC12Encode(2) }
func VerifC12_Encode3() { verifC12Encode(3) }
func VerifC12_Encode4() { verifC12Encode(4) }
func VerifC12_Encode5() { verifC12Encode(5) }
func VerifC12_Encode6() { verifC12Encode(6) }
func VerifC12_Encode7() { verifC12Encode(7) }
func VerifC12_Encode8() { verifC12Encode(8) }
func VerifC12_Encode9() { verifC12Encode(9) }
func VerifC12_Encode10() { verifC12Encode(10) }
func VerifC12_Encode11() { verifC12Encode(11) }
func VerifC12_Encode12() { verifC12Encode(12) }
func VerifC12_Encode13() { verifC12Encode(13) }
func VerifC12_Encode14() { verifC12Encode(14) }
func VerifC12_Decode0() { verifC12Decode(0) }
func VerifC12_Decode1() { verifC12Decode(1) }
func VerifC12_Decode2() { verifC12Decode(2) }
func VerifC12_Decode3() { verifC12Decode(3) }
func VerifC12_Decode4() { verifC12Decode(4) }
func VerifC12_Decode5() { verifC12Decode(5) }
func VerifC12_Decode6() { verifC12Decode(6) }
func VerifC12_Decode7() { verifC12Decode(7) }
func VerifC12_Decode8() { verifC12Decode(8) }
func VerifC12_Decode9() { verifC12Decode(9) }
func VerifC12_Decode10() { verifC12Decode(10) }
func VerifC12_T_Encode15() { verifC12Encode(15) }
func VerifC12_T_Encode16() { verifC12Encode(16) }
func VerifC12_T_Encode17() { verifC12Encode(17) }
func VerifC12_T_Encode18() { verifC12Encode(18) }
func VerifC12_T_Encode19() { verifC12Encode(19) }
func VerifC12_T_Encode20() { verifC12Encode(20) }
func VerifC12_T_Encode21() { verifC12Encode(21) }
func VerifC12_T_Encode22() { verifC12Encode(22) }
func VerifC12_T_Encode23() { verifC12Encode(23) }
func VerifC12_T_Encode24() { verifC12Encode(24) }
func VerifC12_T_Encode25() { verifC12Encode(25) }
func VerifC12_T_Encode26() { verifC12Encode(26) }
func VerifC12_T_Encode27() { verifC12Encode(27) }
func VerifC12_T_Encode28() { verifC12Encode(28) }
func VerifC12_T_Encode29() { verifC12Encode(29) }
func VerifC12_T_Encode30() { verifC12Encode(30) }
func VerifC12_T_Encode31() { verifC12Encode(31) }
func VerifC12_T_Encode32() { verifC12Encode(32) }
func VerifC12_T_Decode11() { verifC12Decode(11) }
func VerifC12_T_Decode12() { verifC12Decode(12) }
func VerifC12_T_Decode13() { verifC12Decode(13) }
func VerifC12_T_Decode14() { verifC12Decode(14) }
func VerifC12_T_Decode15() { verifC12Decode(15) }
func VerifC12_T_Decode16() { verifC12Decode(16) }
